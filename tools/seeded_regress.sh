#!/bin/bash
# usage: seeded_regress.sh [parallelism]   re-runs every recorded seeded change against the current checks
# (the owning property's check, or the check named in caught_by_other_property) and writes seeded/REGRESSION.txt
cd /verif
P=${1:-4}
ls -d seeded/C??-[0-9]* | xargs -P $P -I{} sh -c '
  d={}; other=$(python3 -c "import json;print(json.load(open(\"$d/meta.json\")).get(\"caught_by_other_property\",\"\") or \"\")" 2>/dev/null | cut -c1-3)
  if [ -n "$other" ]; then
    r=$(timeout 3000 python3 tools/cross_check.py $d $other 2>&1 | grep -E "VIOLATION" | head -n 1 | cut -c1-120); echo "$(basename $d) via $other: ${r:-MISSED}"
  else
    r=$(timeout 3000 python3 tools/seeded.py $d 2>&1 | grep -E "\"VIOLATION" | head -n 1 | cut -c1-120); echo "$(basename $d): ${r:-MISSED}"
  fi' | sort > seeded/REGRESSION.txt
echo "caught: $(grep -c VIOLATION seeded/REGRESSION.txt) missed: $(grep -c MISSED seeded/REGRESSION.txt)"
