#!/usr/bin/env python3
"""Regenerates the marked tables of DESIGN.md from known_findings.json and seeded/*/ (meta.json, result.json)."""
import json, os, re, glob
HERE = os.path.dirname(os.path.dirname(os.path.abspath(__file__)))
kf = json.load(open(os.path.join(HERE, 'known_findings.json')))['findings']
rows = ['| property | key | status | commit | what fails |', '|---|---|---|---|---|']
for f in sorted(kf, key=lambda f: (f['property'], f['key'])):
  what = f['what'].replace('|', '\\|').replace('\n', ' ')
  rows.append(f"| {f['property']} | `{f['key']}` | {f['status']} | {f.get('commit') or '—'} | {what} |")
t1 = '\n'.join(rows)
rows = ['| seeded change | property | what it changes / needs to manifest | caught by the check | how |', '|---|---|---|---|---|']
for d in sorted(glob.glob(os.path.join(HERE, 'seeded', '*'))):
  mp, rp = os.path.join(d, 'meta.json'), os.path.join(d, 'result.json')
  if not os.path.exists(mp):
    continue
  m = json.load(open(mp))
  r = json.load(open(rp)) if os.path.exists(rp) else {}
  summ = (m.get('summary') or '')
  need = (m.get('needs_to_manifest') or '')
  txt = (str(summ)[:220] + ' — needs: ' + str(need)[:220]).replace('|', '\\|').replace('\n', ' ')
  how = ''
  rj = os.path.join(d, 'replay.json')
  if os.path.exists(rj):
    rr = json.load(open(rj))
    if rr.get('kind') == 'no-failing-input-found':
      how = 'model/implementation disagreement (no-failing-input-found)'
    else:
      how = ('oracle: ' + str(rr.get('oracle') or rr.get('correspondence'))[:160]).replace('|', '\\|').replace('\n', ' ')
  caught = {True: 'yes', False: '**no**'}.get(r.get('caught'), 'not run')
  note = m.get('check_note')
  if note:
    how += ' — ' + note
  rows.append(f"| `seeded/{os.path.basename(d)}` | {m.get('property')} | {txt} | {caught} | {how} |")
t2 = '\n'.join(rows)
# per-round summary (rounds of three changes per property: k = 1-3, 4-6, 7-9, ...)
import collections
st = collections.defaultdict(collections.Counter)
for d in sorted(glob.glob(os.path.join(HERE, 'seeded', 'C*'))):
  mp, rp = os.path.join(d, 'meta.json'), os.path.join(d, 'result.json')
  if not os.path.exists(mp):
    continue
  m = json.load(open(mp)); r = json.load(open(rp)) if os.path.exists(rp) else {}
  rnd = (int(os.path.basename(d).split('-')[1]) - 1) // 3 + 1
  n = (m.get('check_note') or '').lower()
  st[rnd]['total'] += 1
  if m.get('caught_by_other_property'):
    st[rnd]['other'] += 1
  elif 'missed' in n:
    st[rnd]['missed_first'] += 1
  elif 'no-failing-input' in n:
    st[rnd]['nfif_first'] += 1
  else:
    st[rnd]['first'] += 1
  if r.get('caught') or m.get('caught_by_other_property'):
    st[rnd]['now'] += 1
rows = ['| round | changes | caught by the check as it stood (concrete replay) | first only as no-failing-input-found | missed at first, caught after strengthening | belongs to / caught by another property\'s check | caught now |', '|---|---|---|---|---|---|---|']
for rnd in sorted(st):
  c = st[rnd]
  rows.append(f"| {rnd} | {c['total']} | {c['first']} | {c['nfif_first']} | {c['missed_first']} | {c['other']} | {c['now']} |")
t3 = '\n'.join(rows)
p = os.path.join(HERE, 'DESIGN.md')
s = open(p).read()
def put(s, tag, body):
  a, b = f'<!-- BEGIN {tag} -->', f'<!-- END {tag} -->'
  if a not in s:
    raise SystemExit(f'marker {tag} missing in DESIGN.md')
  return re.sub(re.escape(a) + r'.*?' + re.escape(b), lambda m: a + '\n' + body + '\n' + b, s, flags=re.S)
s = put(s, 'FINDINGS', t1)
s = put(s, 'SEEDED', t2)
s = put(s, 'SEEDED-SUMMARY', t3)
open(p, 'w').write(s)
print('findings', len(kf), 'seeded', len(glob.glob(os.path.join(HERE, 'seeded', '*'))))
