#!/usr/bin/env python3
"""Regenerates the marked tables of DESIGN.md from known_findings.json and seeded/*/ (meta.json, result.json)."""
import json, os, re, glob
HERE = os.path.dirname(os.path.dirname(os.path.abspath(__file__)))
kf = json.load(open(os.path.join(HERE, 'known_findings.json')))['findings']
rows = ['| property | key | status | commit | what fails |', '|---|---|---|---|---|']
for f in sorted(kf, key=lambda f: (f['property'], f['key'])):
  what = f['what'].replace('|', '\\|').replace('\n', ' ')
  rows.append(f"| {f['property']} | `{f['key']}` | {f['status']} | {f.get('commit') or '—'} | {what} |")
t1 = '\n'.join(rows)
rows = ['| seeded change | property | what it changes / needs to manifest | caught by the check | how |', '|---|---|---|---|---|']
for d in sorted(glob.glob(os.path.join(HERE, 'seeded', '*'))):
  mp, rp = os.path.join(d, 'meta.json'), os.path.join(d, 'result.json')
  if not os.path.exists(mp):
    continue
  m = json.load(open(mp))
  r = json.load(open(rp)) if os.path.exists(rp) else {}
  summ = (m.get('summary') or '')
  need = (m.get('needs_to_manifest') or '')
  txt = (str(summ)[:220] + ' — needs: ' + str(need)[:220]).replace('|', '\\|').replace('\n', ' ')
  how = ''
  rj = os.path.join(d, 'replay.json')
  if os.path.exists(rj):
    rr = json.load(open(rj))
    if rr.get('kind') == 'no-failing-input-found':
      how = 'model/implementation disagreement (no-failing-input-found)'
    else:
      how = ('oracle: ' + str(rr.get('oracle') or rr.get('correspondence'))[:160]).replace('|', '\\|').replace('\n', ' ')
  caught = {True: 'yes', False: '**no**'}.get(r.get('caught'), 'not run')
  note = m.get('check_note')
  if note:
    how += ' — ' + note
  rows.append(f"| `seeded/{os.path.basename(d)}` | {m.get('property')} | {txt} | {caught} | {how} |")
t2 = '\n'.join(rows)
p = os.path.join(HERE, 'DESIGN.md')
s = open(p).read()
def put(s, tag, body):
  a, b = f'<!-- BEGIN {tag} -->', f'<!-- END {tag} -->'
  if a not in s:
    raise SystemExit(f'marker {tag} missing in DESIGN.md')
  return re.sub(re.escape(a) + r'.*?' + re.escape(b), lambda m: a + '\n' + body + '\n' + b, s, flags=re.S)
s = put(s, 'FINDINGS', t1)
s = put(s, 'SEEDED', t2)
open(p, 'w').write(s)
print('findings', len(kf), 'seeded', len(glob.glob(os.path.join(HERE, 'seeded', '*'))))
