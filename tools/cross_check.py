#!/usr/bin/env python3
"""tools/cross_check.py <seeded-dir> <OTHER-PROPERTY>: does another property's quick check catch this seeded change?"""
import subprocess, json, os, sys, tempfile
d=os.path.abspath(sys.argv[1]); pid=sys.argv[2]
wt=tempfile.mkdtemp(prefix='seeded_', dir='/tmp'); os.rmdir(wt)
subprocess.run(['git','-C','/repo','worktree','add','--detach',wt,'HEAD'],check=True,capture_output=True)
try:
    subprocess.run(['git','-C',wt,'apply',d+'/patch.diff'],check=True)
    p=subprocess.run(['/venv/bin/python','harness/check.py',pid,'--tier','quick'],cwd='/verif',env=dict(os.environ,VERIF_REPO=wt),capture_output=True,text=True,timeout=3000)
    lines=[l for l in p.stdout.splitlines() if l.startswith(('VIOLATION',pid))]
    print(p.returncode, lines)
finally:
    subprocess.run(['git','-C','/repo','worktree','remove','--force',wt],capture_output=True)
