#!/bin/bash
# usage: tools/seed_sweep.sh <first> <last>   -- quick tier of every check for each seed; prints only problems + one line per seed
cd "$(dirname "$0")/.."
(cd lean && lake build >/dev/null 2>&1)
for seed in $(seq $1 $2); do
  bad=0
  for i in $(seq -w 1 20); do
    p=C$i
    out=$(VERIF_SEED=$seed timeout 1800 /venv/bin/python harness/check.py $p --tier quick 2>&1); rc=$?
    if [ $rc -ne 0 ]; then bad=$((bad+1)); echo "seed=$seed $p rc=$rc :: $(echo "$out" | grep -E "^$p |VIOLATION|INFRA|Error" | tr '\n' ' ' | cut -c1-400)"; mkdir -p sweep_fail; cp -r replays sweep_fail/replays_seed${seed}_$p 2>/dev/null; fi
  done
  echo "seed=$seed done, failing checks: $bad"
done
