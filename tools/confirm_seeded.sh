#!/bin/bash
# usage: confirm_seeded.sh <ID> <k> : confirms /tmp/m/<ID>/out/<k> (demo passes clean, fails patched) in a scratch worktree,
# then copies it to /verif/seeded/<ID>-<k>/
set -u
id=$1; k=$2; base=${M_BASE:-/tmp/m}; off=${K_OFFSET:-0}; n=$((k+off)); src=$base/$id/out/$k; wt=/tmp/cs_${id}_${k}_$$
git -C /repo worktree add --detach $wt HEAD >/dev/null 2>&1
export JAX_PLATFORMS=cpu XLA_FLAGS=--xla_force_host_platform_device_count=8 TF_CPP_MIN_LOG_LEVEL=3
timeout 900 /venv/bin/python $src/demo.py $wt >/tmp/cs_clean_$$.log 2>&1; clean=$?
git -C $wt apply $src/patch.diff; ap=$?
timeout 900 /venv/bin/python $src/demo.py $wt >/tmp/cs_patched_$$.log 2>&1; patched=$?
echo "$id-$n apply=$ap demo_clean_exit=$clean demo_patched_exit=$patched : $(grep -i -m1 fail /tmp/cs_patched_$$.log | cut -c1-200)"
git -C /repo worktree remove --force $wt
if [ $clean -eq 0 ] && [ $patched -ne 0 ] && [ $ap -eq 0 ]; then
  mkdir -p /verif/seeded/$id-$n && cp $src/patch.diff $src/demo.py /verif/seeded/$id-$n/
  python3 - <<PY
import json
m=json.load(open('$src/meta.json'))
m['property']='$id'
m['confirmed']={'demo_on_clean_tree_exit':$clean,'demo_with_patch_exit':$patched,'how':'tools/confirm_seeded.sh in a scratch worktree of /repo HEAD'}
json.dump(m,open('/verif/seeded/$id-$n/meta.json','w'),indent=1)
PY
fi
rm -f /tmp/cs_clean_$$.log /tmp/cs_patched_$$.log
