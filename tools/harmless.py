#!/usr/bin/env python3
"""tools/harmless.py <harmless-dir> [--tier quick] [--seed N] [--base COMMIT]
Runs the owning property's check against a scratch worktree of /repo with one property-PRESERVING
rewrite applied (harmless/<ID>-k/patch.diff). The check must stay silent (exit 0, no VIOLATION);
result.json records what happened. The scratch worktree is removed afterwards."""
import json, os, subprocess, sys, tempfile, shutil
d = os.path.abspath(sys.argv[1])
arg = lambda n, dflt: sys.argv[sys.argv.index(n) + 1] if n in sys.argv else dflt
tier, seed = arg('--tier', 'quick'), arg('--seed', '0')
meta = json.load(open(os.path.join(d, 'meta.json')))
pid = meta['property']
base = arg('--base', meta.get('base_commit', 'HEAD'))
verif = os.path.dirname(os.path.dirname(os.path.abspath(__file__)))
wt = tempfile.mkdtemp(prefix='harmless_', dir='/tmp'); os.rmdir(wt)
try:
  subprocess.run(['git', '-C', '/repo', 'worktree', 'add', '--detach', wt, 'HEAD'], check=True, capture_output=True)
  if '--base' not in sys.argv and subprocess.run(['git', '-C', wt, 'apply', '--check', os.path.join(d, 'patch.diff')],
                                                  capture_output=True).returncode == 0:
    base = subprocess.check_output(['git', '-C', '/repo', 'rev-parse', '--short', 'HEAD'], text=True).strip()
  else:   # the rewrite was written against an older base and touches lines a later fix: commit changed
    subprocess.run(['git', '-C', wt, 'checkout', '-q', '--detach', base], check=True)
  subprocess.run(['git', '-C', wt, 'apply', os.path.join(d, 'patch.diff')], check=True)
  env = dict(os.environ, VERIF_REPO=wt, VERIF_SEED=seed)
  # findings repaired by a fix: commit that this (older) base does not contain are still present there
  unfixed = []
  for f in json.load(open(os.path.join(verif, 'known_findings.json')))['findings']:
    if f.get('property') == pid and f.get('status') == 'fixed':
      for c in str(f.get('commit') or '').replace('+', ',').split(','):
        c = c.strip()
        if c and subprocess.run(['git', '-C', '/repo', 'merge-base', '--is-ancestor', c, base]).returncode != 0:
          unfixed.append(f['key'])
  if unfixed:
    env['VERIF_UNFIXED_IN_BASE'] = ','.join(sorted(set(unfixed)))
  p = subprocess.run(['/venv/bin/python', 'harness/check.py', pid, '--tier', tier], cwd=verif, env=env,
                     capture_output=True, text=True, timeout=3600)
  lines = [l for l in p.stdout.splitlines() if l.startswith(('VIOLATION', 'KNOWN-FINDING', pid, 'INFRA'))]
  res = {'property': pid, 'tier': tier, 'seed': int(seed), 'base': base, 'exit': p.returncode, 'lines': [l[:400] for l in lines],
         'silent': p.returncode == 0 and not any(l.startswith('VIOLATION') for l in lines)}
  for l in lines:
    if l.startswith('VIOLATION') and 'replay=' in l:
      src = os.path.join(verif, l.split('replay=')[1].split()[0])
      if os.path.exists(src):
        shutil.copy(src, os.path.join(d, 'false_alarm_replay.json'))
  json.dump(res, open(os.path.join(d, 'result.json'), 'w'), indent=1)
  print(json.dumps(res, indent=1))
finally:
  subprocess.run(['git', '-C', '/repo', 'worktree', 'remove', '--force', wt], capture_output=True)
  shutil.rmtree(wt, ignore_errors=True)
