#!/bin/bash
# usage: tools/run_all.sh quick|thorough [seed]   -- runs every registered check once, prints one summary line each
tier=${1:-quick}; seed=${2:-0}
cd "$(dirname "$0")/.."
(cd lean && lake build >/dev/null 2>&1)
for i in $(seq -w 1 20); do
  p=C$i
  s=$(date +%s)
  out=$(VERIF_SEED=$seed timeout 3600 /venv/bin/python harness/check.py $p --tier $tier 2>&1)
  rc=$?
  e=$(( $(date +%s) - s ))
  echo "$p rc=$rc ${e}s :: $(echo "$out" | grep -E "^$p |VIOLATION|INFRA" | tr '\n' ' ' | cut -c1-300)"
done
