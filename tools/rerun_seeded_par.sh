#!/bin/bash
# usage: rerun_seeded_par.sh P id...   runs tools/seeded.py on each seeded/<id> with parallelism P
cd /verif; P=$1; shift
printf '%s\n' "$@" | xargs -P $P -I{} sh -c 'r=$(timeout 3000 python3 tools/seeded.py seeded/{} 2>&1 | grep -E "\"VIOLATION" | head -n 1 | cut -c1-150); echo "{}: ${r:-MISSED}"'
