#!/bin/bash
# usage: run_seeded_batch.sh C08 C09 ...   (confirms /tmp/m/<ID>/out/{1,2,3}, copies to seeded/, runs the check on each)
for id in "$@"; do
  for k in 1 2 3; do
    base=${M_BASE:-/tmp/m}; off=${K_OFFSET:-0}; n=$((k+off))
    [ -d $base/$id/out/$k ] || continue
    /verif/tools/confirm_seeded.sh $id $k | cut -c1-160
    if [ -d /verif/seeded/$id-$n ]; then
      r=$(cd /verif && timeout 2400 python3 tools/seeded.py seeded/$id-$n 2>&1 | grep -E '"caught"|VIOLATION' | tr -d '\n' | cut -c1-200)
      echo "   check: $r"
    fi
  done
done
