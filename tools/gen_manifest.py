#!/usr/bin/env python3
"""Regenerates MANIFEST.json from the table below (kept in one place so it is always valid)."""
import json, os, sys
HERE = os.path.dirname(os.path.dirname(os.path.abspath(__file__)))
ALL = ['C%02d' % i for i in range(1, 21)]

# property -> (level text, level note, technique, design_ref)
BUILT = json.load(open(os.path.join(HERE, 'tools', 'built.json')))

def main():
  checks, na = [], []
  for pid in ALL:
    if pid in BUILT:
      b = BUILT[pid]
      checks.append({
          'property_id': pid,
          'quick_cmd': f'/venv/bin/python harness/check.py {pid} --tier quick',
          'thorough_cmd': f'/venv/bin/python harness/check.py {pid} --tier thorough',
          'evidence_file': f'evidence/{pid}.json',
          'replay_cmd_template': f'/venv/bin/python harness/check.py {pid} --replay {{path}}',
          'engine': 'lean4-proof+correspondence',
          'level_claimed': {'category': b.get('category', 'proof'), 'text': b['text'],
                            'design_ref': b.get('design_ref', f'DESIGN.md §5 {pid}')},
          'level_note': b['note'],
          'technique': b['technique'],
      })
    else:
      na.append({'property_id': pid, 'reason': 'not claimed yet: Lean model, theorems and correspondence check for this property are still being built (see DESIGN.md §5 for the plan); no other technique is substituted'})
  m = {
      'version': 1,
      'setup_cmd': 'cd lean && lake build',
      'hooks': {'guard': 'GOOGLE_FEDJAX_VERIF', 'enable': 'no source hooks: the harness wraps module attributes / passes recording RNGs from outside',
                'baseline_off_cmd': 'cd /repo && /venv/bin/python -m pytest -ra -q -p no:cacheprovider --timeout=900 --continue-on-collection-errors',
                'source_commits': [], 'add_only': True},
      'engines': [{'name': 'lean4-proof+correspondence', 'path': 'lean/ + harness/',
                   'serves_properties': sorted(BUILT),
                   'kind_free_text': 'Lean 4 theorems about hand-written executable models (lean/FedjaxVerif), tied to /repo on every run by a behavioural correspondence check (harness/) that runs the real fedjax code and the compiled Lean model on the same generated inputs'}],
      'checks': checks,
      'notes': 'See DESIGN.md. Exit codes: 0 held, 1 violation (VIOLATION line), 2 infrastructure failure.',
      'not_applicable': na,
  }
  json.dump(m, open(os.path.join(HERE, 'MANIFEST.json'), 'w'), indent=1)
  print('checks:', len(checks), 'not_applicable:', len(na))

main()
