#!/bin/bash
# usage: collect_harmless.sh <ID> : checks /tmp/h1/<ID>/out/k (evidence.py exits 0 clean and patched, patch applies) and copies to /verif/harmless/<ID>-k
id=$1; base=${H_BASE:-/tmp/h1}; commit=${H_COMMIT:-HEAD}
export JAX_PLATFORMS=cpu TF_CPP_MIN_LOG_LEVEL=3; [ -n "$H_NODEV" ] || export XLA_FLAGS=--xla_force_host_platform_device_count=8
off=${K_OFFSET:-0}
for k in 1 2 3; do n=$((k+off))
  src=$base/$id/out/$k; [ -f $src/patch.diff ] || continue
  wt=/tmp/ch_${id}_${k}_$$
  git -C /repo worktree add --detach $wt $commit >/dev/null 2>&1
  timeout 1200 /venv/bin/python $src/evidence.py $wt >/tmp/ch_clean.log 2>&1; clean=$?
  git -C $wt apply $src/patch.diff; ap=$?
  timeout 1200 /venv/bin/python $src/evidence.py $wt >/tmp/ch_patched.log 2>&1; patched=$?
  git -C /repo worktree remove --force $wt
  echo "$id-$n apply=$ap evidence_clean=$clean evidence_patched=$patched"
  if [ $ap -eq 0 ] && [ $clean -eq 0 ] && [ $patched -eq 0 ]; then
    mkdir -p /verif/harmless/$id-$n; cp $src/patch.diff $src/argument.md $src/evidence.py /verif/harmless/$id-$n/
    python3 - <<PY
import json
m=json.load(open('$src/meta.json')); m['property']='$id'; m['base_commit']='$(git -C /repo rev-parse --short $commit)'
m['confirmed']={'evidence_clean_exit':$clean,'evidence_patched_exit':$patched}
json.dump(m,open('/verif/harmless/$id-$n/meta.json','w'),indent=1)
PY
  fi
done
