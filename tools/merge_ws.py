#!/usr/bin/env python3
"""Merge a sub-agent workspace (/tmp/w/<WS>/verif) into /verif: new Lean files, harness props,
corpus, registration lines. Never overwrites an existing different file unless --force <relpath>."""
import filecmp, json, os, re, shutil, sys
ws = sys.argv[1]
src = f'/tmp/w/{ws}/verif'
dst = '/verif'
force = set(a for a in sys.argv[2:] if not a.startswith('-'))
copied, skipped = [], []
def consider(rel):
  s, d = os.path.join(src, rel), os.path.join(dst, rel)
  if not os.path.exists(d) or rel in force:
    os.makedirs(os.path.dirname(d), exist_ok=True)
    shutil.copy(s, d); copied.append(rel)
  elif not filecmp.cmp(s, d, shallow=False):
    skipped.append(rel)
for sub in ['lean/FedjaxVerif/Model', 'lean/FedjaxVerif/Handlers', 'lean/FedjaxVerif/Props', 'lean/FedjaxVerif/Lemmas',
            'harness/props', 'harness/vlib', 'corpus']:
  for root, _, files in os.walk(os.path.join(src, sub)):
    for f in files:
      if f.endswith(('.lean', '.py', '.json')):
        consider(os.path.relpath(os.path.join(root, f), src))
# registration: imports in FedjaxVerif.lean and Driver.lean, handler list
def lines(p): return open(p).read().splitlines()
for rel in ['lean/FedjaxVerif.lean']:
  mine = lines(os.path.join(dst, rel)); theirs = lines(os.path.join(src, rel))
  add = [l for l in theirs if l.startswith('import') and l not in mine]
  if add:
    open(os.path.join(dst, rel), 'a').write('\n'.join(add) + '\n'); print('FedjaxVerif.lean +', add)
d_m = open(os.path.join(dst, 'lean/Driver.lean')).read()
d_t = open(os.path.join(src, 'lean/Driver.lean')).read()
for imp in re.findall(r'^import FedjaxVerif\.Handlers\.\w+$', d_t, re.M):
  if imp not in d_m:
    d_m = d_m.replace('\nopen FedjaxVerif', '\n' + imp + '\nopen FedjaxVerif', 1) if False else d_m.replace('import FedjaxVerif.Model.Proto\n', 'import FedjaxVerif.Model.Proto\n' + imp + '\n', 1)
    print('Driver.lean +', imp)
for h in re.findall(r'Handlers\.\w+\.handle', d_t):
  if h not in d_m:
    d_m = re.sub(r'(\[Handlers\.[^\]]*)\]', lambda m: m.group(1) + ', ' + h + ']', d_m, count=1)
    print('Driver.lean handlers +', h)
open(os.path.join(dst, 'lean/Driver.lean'), 'w').write(d_m)
# built.json
bt = json.load(open(os.path.join(src, 'tools/built.json'))); bm = json.load(open(os.path.join(dst, 'tools/built.json')))
for k, v in bt.items():
  if k not in bm:
    bm[k] = v; print('built.json +', k)
json.dump(bm, open(os.path.join(dst, 'tools/built.json'), 'w'), indent=1)
# known findings
kp = os.path.join(src, 'known_findings.json')
if os.path.exists(kp):
  kt = json.load(open(kp)).get('findings', []); km = json.load(open(os.path.join(dst, 'known_findings.json')))
  have = {(f['property'], f['key']) for f in km['findings']}
  for f in kt:
    if (f['property'], f['key']) not in have:
      km['findings'].append(f); print('known_findings +', f['property'], f['key'], f['status'])
  json.dump(km, open(os.path.join(dst, 'known_findings.json'), 'w'), indent=1)
print('copied:', copied)
print('SKIPPED (exists and differs):', skipped)
