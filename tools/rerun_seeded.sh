#!/bin/bash
# usage: rerun_seeded.sh C16-8 C19-9 ...   re-runs the owning property's check against each recorded seeded change
cd /verif
for d in "$@"; do
  r=$(timeout 2400 python3 tools/seeded.py seeded/$d 2>&1 | grep -E '"caught"|VIOLATION' | tr -d '\n' | cut -c1-220)
  echo "$d: $r"
done
