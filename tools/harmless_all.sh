#!/bin/bash
# usage: harmless_all.sh [P] [ids...]   runs every harmless/<ID>-k (or the given ones) through tools/harmless.py; writes harmless/RESULTS.txt
cd /verif; P=${1:-4}; shift
ids=${@:-$(ls -d harmless/C??-[0-9]* | xargs -n1 basename)}
printf '%s\n' $ids | xargs -P $P -I{} sh -c 'r=$(timeout 3000 python3 tools/harmless.py harmless/{} 2>&1 | grep -E "\"silent\"|\"VIOLATION" | tr -d "\n" | cut -c1-200); echo "{}: $r"' | sort > /tmp/harmless_results.txt
python3 - <<PY
import json,glob
rows=[]
for f in sorted(glob.glob("/verif/harmless/*/result.json")):
  r=json.load(open(f)); m=json.load(open(f.replace("result.json","meta.json")))
  rows.append(f"{f.split(chr(47))[3]}: silent={r['silent']} exit={r['exit']} base={r.get('base')}" + (" NOT-HARMLESS(the rewrite breaks the property; alarm is correct)" if m.get("not_harmless") else ""))
open("/verif/harmless/RESULTS.txt","w").write(chr(10).join(rows)+chr(10))
PY
echo "silent: $(grep -c "silent=True" harmless/RESULTS.txt) alarms: $(grep "silent=False" harmless/RESULTS.txt | grep -vc NOT-HARMLESS) correctly-flagged-as-breaking: $(grep -c NOT-HARMLESS harmless/RESULTS.txt)"
