#!/bin/bash
# usage: harmless_all.sh [P] [ids...]   runs every harmless/<ID>-k (or the given ones) through tools/harmless.py; writes harmless/RESULTS.txt
cd /verif; P=${1:-4}; shift
ids=${@:-$(ls -d harmless/C??-? | xargs -n1 basename)}
printf '%s\n' $ids | xargs -P $P -I{} sh -c 'r=$(timeout 3000 python3 tools/harmless.py harmless/{} 2>&1 | grep -E "\"silent\"|\"VIOLATION" | tr -d "\n" | cut -c1-200); echo "{}: $r"' | sort > /tmp/harmless_results.txt
cp /tmp/harmless_results.txt harmless/RESULTS.txt
echo "silent: $(grep -c '"silent": true' harmless/RESULTS.txt) alarms: $(grep -c '"silent": false' harmless/RESULTS.txt)"
