#!/usr/bin/env python3
"""Runs a property's check against a scratch worktree of /repo with one seeded change applied.

usage: tools/seeded.py <seeded-dir> [--tier quick|thorough] [--seed N]
The scratch worktree lives outside /repo and /verif and is removed afterwards. The result
(exit code, VIOLATION lines) is written to <seeded-dir>/result.json.
"""
import json, os, subprocess, sys, tempfile, shutil

def main():
  d = os.path.abspath(sys.argv[1])
  tier = 'quick'
  seed = '0'
  if '--tier' in sys.argv:
    tier = sys.argv[sys.argv.index('--tier') + 1]
  if '--seed' in sys.argv:
    seed = sys.argv[sys.argv.index('--seed') + 1]
  meta = json.load(open(os.path.join(d, 'meta.json')))
  pid = meta['property']
  wt = tempfile.mkdtemp(prefix='seeded_', dir='/tmp')
  os.rmdir(wt)
  verif = os.path.dirname(os.path.dirname(os.path.abspath(__file__)))
  try:
    subprocess.run(['git', '-C', '/repo', 'worktree', 'add', '--detach', wt, 'HEAD'], check=True,
                   capture_output=True)
    subprocess.run(['git', '-C', wt, 'apply', os.path.join(d, 'patch.diff')], check=True)
    env = dict(os.environ, VERIF_REPO=wt, VERIF_SEED=seed)
    p = subprocess.run(['/venv/bin/python', 'harness/check.py', pid, '--tier', tier], cwd=verif, env=env,
                       capture_output=True, text=True, timeout=3600)
    lines = [l for l in p.stdout.splitlines() if l.startswith(('VIOLATION', 'KNOWN-FINDING', pid, 'INFRA'))]
    res = {'property': pid, 'tier': tier, 'seed': int(seed), 'exit': p.returncode, 'lines': lines,
           'caught': p.returncode == 1 and any(l.startswith('VIOLATION') for l in lines)}
    # keep the replay next to the seeded change
    for l in lines:
      if l.startswith('VIOLATION') and 'replay=' in l:
        rp = l.split('replay=')[1].split()[0]
        src = os.path.join(verif, rp)
        if os.path.exists(src):
          shutil.copy(src, os.path.join(d, 'replay.json'))
          res['no_failing_input_found'] = l.rstrip().endswith('no-failing-input-found')
    json.dump(res, open(os.path.join(d, 'result.json'), 'w'), indent=1)
    print(json.dumps(res, indent=1))
  finally:
    subprocess.run(['git', '-C', '/repo', 'worktree', 'remove', '--force', wt], capture_output=True)
    shutil.rmtree(wt, ignore_errors=True)

main()
