#!/venv/bin/python
"""check.py Cxx [--tier quick|thorough] [--replay file]"""
import argparse
import importlib
import os
import sys

HERE = os.path.dirname(os.path.abspath(__file__))
sys.path.insert(0, HERE)
REPO = os.environ.get('VERIF_REPO', '/repo')
sys.path.insert(0, REPO)
os.environ.setdefault('JAX_PLATFORMS', 'cpu')
os.environ.setdefault('TF_CPP_MIN_LOG_LEVEL', '3')
os.environ.setdefault('XLA_FLAGS', '--xla_force_host_platform_device_count=8')


def main():
  ap = argparse.ArgumentParser()
  ap.add_argument('prop')
  ap.add_argument('--tier', default='quick', choices=['quick', 'thorough'])
  ap.add_argument('--replay')
  a = ap.parse_args()
  tier = os.environ.get('VERIF_TIER') or a.tier
  if tier not in ('quick', 'thorough'):
    tier = a.tier
  from vlib import core
  mod = importlib.import_module('props.' + a.prop.lower())
  prop = mod.PROPERTY()
  sys.exit(core.run_check(prop, tier, a.replay))


if __name__ == '__main__':
  main()
