"""Shared pieces of the C14 / C05 checks: metric specs, the real fedjax objects they denote, an
independent Python reference of the documented metric definitions, and example generators.

A metric *spec* is the nested list that is also the protocol token of the Lean model:
  ['ce'] ['acc'] ['topk',k] ['stce',masked,pp] ['sce',masked] ['stacc',masked,lmask,pp]
  ['sttopk',k,masked,lmask,pp] ['trunc',eos,masked] ['oov',oovs,masked,pp] ['len',masked]
  ['count',masked] ['scount',masked] ['cm',C] ['pd',spec,D]
lmask: None or list of ints / 'ninf' / 'pinf'.

An *example* is {'t': [targets], 's': [[scores per class] per position], 'd': domain}; scalar
metrics use position 0.  Scores are integers (exact in float32); for the loss-valued metrics a score
may also be 'ninf' (a -inf logit, e.g. a class masked out by the model) or an extreme finite float
(|x| up to 3e38).  Predictions are handed to fedjax as float32 or as an integer dtype.
"""
import math
from fractions import Fraction

import numpy as np

SEQ = ('stce', 'sce', 'stacc', 'sttopk', 'trunc', 'oov', 'len', 'count', 'scount')
SCALAR = ('ce', 'acc', 'topk', 'cm')
SUM_KINDS = ('count', 'scount', 'cm')
NEEDS_LOGP = ('ce', 'stce', 'sce')
NEEDS_PRED = ('ce', 'acc', 'topk', 'cm', 'stce', 'sce', 'stacc', 'sttopk')


def base_of(spec):
  while spec[0] == 'pd':
    spec = spec[1]
  return spec


def is_sum(spec):
  return base_of(spec)[0] in SUM_KINDS


def is_seq(spec):
  return base_of(spec)[0] in SEQ


def is_per_position(spec):
  b = base_of(spec)
  return b[0] in ('stce', 'stacc', 'sttopk', 'oov') and bool(b[-1])


def is_loss(spec):
  return base_of(spec)[0] in NEEDS_LOGP


def name_of(spec):
  n = spec[0]
  if n == 'pd':
    return 'pd(' + name_of(spec[1]) + ')'
  if is_per_position(spec) and n != 'pd':
    n += '/pp'
  return n


def stat_shape(spec, L):
  """Shape of the single-example statistic (documented)."""
  n = spec[0]
  if n == 'pd':
    return (spec[2],) + stat_shape(spec[1], L)
  if n == 'cm':
    return (spec[1], spec[1])
  if is_per_position(spec):
    return (L,)
  return ()


def _f(x):
  if x == 'ninf':
    return -math.inf
  if x == 'pinf':
    return math.inf
  return float(x)


def build_metric(M, spec, tkey='y', pkey=None, dkey='domain_id'):
  """The real fedjax metric object a spec denotes."""
  n = spec[0]
  kw = {'target_key': tkey}
  if n in NEEDS_PRED:
    kw['pred_key'] = pkey
  if n == 'ce':
    return M.CrossEntropyLoss(**kw)
  if n == 'acc':
    return M.Accuracy(**kw)
  if n == 'topk':
    return M.TopKAccuracy(k=spec[1], **kw)
  if n == 'stce':
    return M.SequenceTokenCrossEntropyLoss(masked_target_values=tuple(spec[1]), per_position=spec[2], **kw)
  if n == 'sce':
    return M.SequenceCrossEntropyLoss(masked_target_values=tuple(spec[1]), **kw)
  if n == 'stacc':
    lm = None if spec[2] is None else tuple(_f(x) for x in spec[2])
    return M.SequenceTokenAccuracy(masked_target_values=tuple(spec[1]), logits_mask=lm,
                                   per_position=spec[3], **kw)
  if n == 'sttopk':
    lm = None if spec[3] is None else tuple(_f(x) for x in spec[3])
    return M.SequenceTokenTopKAccuracy(k=spec[1], masked_target_values=tuple(spec[2]), logits_mask=lm,
                                       per_position=spec[4], **kw)
  if n == 'trunc':
    return M.SequenceTruncationRate(eos_target_value=spec[1], masked_target_values=tuple(spec[2]), **kw)
  if n == 'oov':
    return M.SequenceTokenOOVRate(oov_target_values=tuple(spec[1]), masked_target_values=tuple(spec[2]),
                                  per_position=spec[3], **kw)
  if n == 'len':
    return M.SequenceLength(masked_target_values=tuple(spec[1]), **kw)
  if n == 'count':
    return M.SequenceTokenCount(masked_target_values=tuple(spec[1]), **kw)
  if n == 'scount':
    return M.SequenceCount(masked_target_values=tuple(spec[1]), **kw)
  if n == 'cm':
    return M.ConfusionMatrix(num_classes=spec[1], **kw)
  if n == 'pd':
    return M.PerDomainMetric(build_metric(M, spec[1], tkey, pkey, dkey), num_domains=spec[2],
                             domain_id_key=dkey)
  raise ValueError(spec)


# ----------------------------------------------------------------------------------------------
# independent reference (pure Python, from the docstrings) — NOT the Lean model


def ref_argmax(scores):
  m = max(scores)
  return min(i for i, s in enumerate(scores) if s == m)


def ref_rank(scores, j):
  return sum(1 for i, s in enumerate(scores) if s > scores[j] or (s == scores[j] and i < j))


def ref_in_topk(k, scores, t):
  """Is class t among the first k classes (by decreasing score, ties by increasing index)?  k < 1: no."""
  if k < 1 or not (0 <= t < len(scores)):
    return False
  return ref_rank(scores, t) < k


F32_MAX = 3.4028234663852886e38
BIGS = [float(np.float32(3e38)), float(np.float32(1e38)), float(2.0 ** 100)]


def sval(x):
  """score token -> float ('ninf' = -inf)"""
  return -math.inf if x == 'ninf' else float(x)


def f32_range(x):
  """a value beyond the float32 range is +-inf in every float32 computation"""
  return math.copysign(math.inf, x) if abs(x) > F32_MAX else x


def is_moderate(x):
  return x != 'ninf' and abs(float(x)) < 2 ** 24


def ref_ce(scores, t):
  """-log softmax(scores)[t]; +inf when class t has a -inf logit (or the value overflows float32).
  At least one score is finite and none is +inf."""
  sc = [sval(s) for s in scores]
  if not 0 <= t < len(sc):
    return 0.0
  if sc[t] == -math.inf:
    return math.inf
  m = max(sc)
  # log(sum exp(s - m)) - (s_t - m): no cancellation against a huge maximum
  return f32_range(math.log(sum(math.exp(s - m) for s in sc)) - (sc[t] - m))


def _masked_scores(sc, lm):
  if lm is None:
    return [float(x) for x in sc]
  return [float(x) + _f(m) for x, m in zip(sc, lm)]


def _mean(a, w):
  """Documented MeanStat domain: weight <= 0 is the identity (0, 0)."""
  w = max(0.0, float(w))
  return (0.0 if w == 0 else float(a), w)


def ref_stat(spec, ex):
  """Returns ('mean', [(accum, weight), …]) or ('sum', [accum, …]) flattened row-major."""
  n = spec[0]
  ts, ss = ex['t'], ex['s']
  if n == 'pd':
    kind, base = ref_stat(spec[1], ex)
    z = (0.0, 0.0) if kind == 'mean' else 0.0
    out = []
    for d in range(spec[2]):
      out.extend(base if d == ex['d'] else [z] * len(base))
    return kind, out
  if n == 'ce':
    return 'mean', [_mean(ref_ce(ss[0], ts[0]), 1)]
  if n == 'acc':
    return 'mean', [_mean(float(ref_argmax(ss[0]) == ts[0]), 1)]
  if n == 'topk':
    return 'mean', [_mean(float(ref_in_topk(spec[1], ss[0], ts[0])), 1)]
  if n == 'cm':
    C = spec[1]
    a = ref_argmax(ss[0])
    return 'sum', [float(r == ts[0] and c == a) for r in range(C) for c in range(C)]
  masked = spec[{'stce': 1, 'sce': 1, 'stacc': 1, 'sttopk': 2, 'trunc': 2, 'oov': 2, 'len': 1, 'count': 1,
                 'scount': 1}[n]]
  w = [0.0 if t in masked else 1.0 for t in ts]
  nonempty = 1.0 if any(w) else 0.0

  def wsum(vals):
    # masked positions are ignored whatever their value is (an infinite loss there contributes nothing)
    return f32_range(sum(v * wi for v, wi in zip(vals, w) if wi))

  def token(vals, pp):
    if pp:
      return 'mean', [_mean(v * wi if wi else 0.0, wi) for v, wi in zip(vals, w)]
    return 'mean', [_mean(wsum(vals), sum(w))]

  if n == 'stce':
    return token([ref_ce(s, t) for s, t in zip(ss, ts)], spec[2])
  if n == 'sce':
    return 'mean', [_mean(wsum([ref_ce(s, t) for s, t in zip(ss, ts)]), nonempty)]
  if n == 'stacc':
    return token([float(ref_argmax(_masked_scores(s, spec[2])) == t) for s, t in zip(ss, ts)], spec[3])
  if n == 'sttopk':
    return token([float(ref_in_topk(spec[1], _masked_scores(s, spec[3]), t)) for s, t in zip(ss, ts)],
                 spec[4])
  if n == 'trunc':
    trunc = float(all(t != spec[1] for t in ts))
    return 'mean', [_mean(trunc * nonempty, nonempty)]
  if n == 'oov':
    return token([float(t in spec[1]) for t in ts], spec[3])
  if n == 'len':
    return 'mean', [_mean(sum(w), nonempty)]
  if n == 'count':
    return 'sum', [sum(w)]
  if n == 'scount':
    return 'sum', [nonempty]
  raise ValueError(spec)


def safe_div(a, w):
  return a / w if w != 0 else 0.0


# ----------------------------------------------------------------------------------------------
# real code: building inputs and reading statistics


def real_example(np_or_jnp, spec, ex, tkey='y', dkey='domain_id', tdtype='int32'):
  """tdtype: dtype of the class targets (raw label arrays are often uint8 / int8 / int16 / uint16)."""
  xp = np_or_jnp
  out = {dkey: xp.array(ex['d'], dtype='int32')}
  if is_seq(spec):
    out[tkey] = xp.array(ex['t'], dtype=tdtype)
  else:
    out[tkey] = xp.array(ex['t'][0], dtype=tdtype)
  return out


def real_prediction(np_or_jnp, spec, ex, pkey=None, dtype='float32'):
  """The prediction array in the requested dtype.  Integer dtypes (fedjax's own docstrings and tests feed
  integer arrays to the accuracy metrics) need integer scores; 'int64' is a numpy array because JAX
  without x64 has no int64."""
  xp = np_or_jnp
  b = base_of(spec)[0]
  if b not in NEEDS_PRED:
    return xp.array([], dtype='float32')   # "Unused." in the docstrings
  raw = ex['s'] if is_seq(spec) else ex['s'][0]
  if dtype == 'float32':
    conv = [[sval(v) for v in row] for row in raw] if is_seq(spec) else [sval(v) for v in raw]
    arr = xp.array(conv, dtype='float32')
  elif dtype == 'int64':
    arr = np.array(raw, dtype=np.int64)
  else:
    arr = xp.array(raw, dtype=dtype)
  return arr if pkey is None else {pkey: arr}


def stat_arrays(stat):
  """fedjax Stat -> ('mean', accum ndarray, weight ndarray) | ('sum', accum ndarray)."""
  # by the documented attributes (accum, weight), not by the class name
  if hasattr(stat, 'accum') and hasattr(stat, 'weight'):
    return 'mean', np.asarray(stat.accum, dtype=np.float64), np.asarray(stat.weight, dtype=np.float64)
  if hasattr(stat, 'accum'):
    return 'sum', np.asarray(stat.accum, dtype=np.float64)
  raise TypeError(type(stat).__name__)


def lead_broadcast(a, shape):
  """Broadcast a statistic leaf whose shape is a *prefix* of `shape` (scalar zero of per-position
  metrics, (D,) zero of PerDomain over them) to the documented shape."""
  a = np.asarray(a, dtype=np.float64)
  if a.shape == tuple(shape):
    return a
  a = a.reshape(a.shape + (1,) * (len(shape) - a.ndim))
  return np.broadcast_to(a, shape)


def logp_of(jax, spec, ex):
  """log_softmax of the scores (float32, computed by JAX) as exact Fractions, for the model."""
  if not is_loss(spec):
    return []
  sc = [[sval(v) for v in row] for row in ex['s']]
  arr = np.asarray(jax.nn.log_softmax(jax.numpy.array(sc, dtype='float32')), dtype=np.float64)
  # the Lean reference is over rationals: a non-finite log-probability is sent as 0 and the entries of
  # the statistic it makes non-finite are compared by the Python oracle only (see props/c14.py)
  return [[Fraction(float(v)) if np.isfinite(v) else Fraction(0) for v in row] for row in arr]


def model_ex(jax, spec, ex):
  scores = ex['s']
  if is_loss(spec):
    scores = [[0] * len(row) for row in scores]      # the loss reference only reads the log-probabilities
  return [ex['t'], scores, logp_of(jax, spec, ex), ex['d']]


def close(impl, ref, scale, rel=1e-4, abs_=1e-5):
  return abs(impl - ref) <= abs_ * scale + rel * abs(ref) + 1e-6


# ----------------------------------------------------------------------------------------------
# generators


def gen_scores_extreme(rng, C):
  """Scores for a loss-valued metric with -inf logits (classes masked out by the model) and/or extreme
  finite magnitudes of mixed signs; at least one score stays finite, none is +inf."""
  row = [rng.randint(-3, 3) for _ in range(C)]
  kind = rng.randrange(3)
  if kind in (0, 2) and C > 1:
    for i in rng.sample(range(C), rng.randint(1, min(2, C - 1))):
      row[i] = 'ninf'
  if kind in (1, 2):
    for i in range(C):
      if row[i] != 'ninf' and rng.random() < 0.6:
        row[i] = rng.choice([-1.0, 1.0]) * rng.choice(BIGS)
  return row


def gen_scores(rng, C, loss, small=False):
  """Integer class scores with forced ties; small magnitudes for loss-valued metrics (and int8)."""
  kind = rng.randrange(5)
  if small and kind == 2:
    kind = 4
  if loss:
    lo, hi = (-3, 3) if kind < 3 else (-12, 12)
    return [rng.randint(lo, hi) for _ in range(C)]
  if kind == 0:
    return [rng.choice([0, 1]) for _ in range(C)]                 # many ties
  if kind == 1:
    v = rng.randint(-5, 5)
    return [v] * C                                                # all equal
  if kind == 2:
    base = rng.choice([2 ** 20, -2 ** 20, 2 ** 19])
    return [base + rng.choice([0, 0, 1, -1]) for _ in range(C)]   # large magnitude, near ties
  if kind == 3:
    p = list(range(C))
    rng.shuffle(p)
    return p                                                      # all distinct
  return [rng.randint(-4, 4) for _ in range(C)]


def gen_values(rng, C, n_max=3, nonneg=False):
  """masked / oov value tuples of length 0..n_max, mostly inside the class range
  (nonneg: only values an unsigned target dtype can hold)."""
  n = min(n_max, rng.choice([0, 1, 1, 2, 2, 3]))
  pool = list(range(C)) + ([C] if nonneg else [C, -1])
  return sorted(set(rng.choice(pool) for _ in range(n)))


def gen_lmask(rng, C):
  r = rng.random()
  if r < 0.35:
    return None
  out = []
  for _ in range(C):
    q = rng.random()
    out.append(0 if q < 0.5 else 'ninf' if q < 0.8 else 'pinf' if q < 0.9 else rng.randint(-3, 3))
  return out


def gen_base_spec(rng, name, C, nonneg=False):
  pp = rng.random() < 0.5
  k = rng.randint(-3, C + 2)
  if nonneg:
    vals = lambda: gen_values(rng, C, nonneg=True)
    spec = {'stce': lambda: ['stce', vals(), pp], 'sce': lambda: ['sce', vals()],
            'stacc': lambda: ['stacc', vals(), gen_lmask(rng, C), pp],
            'sttopk': lambda: ['sttopk', k, vals(), gen_lmask(rng, C), pp],
            'trunc': lambda: ['trunc', rng.randrange(0, C + 1), vals()],
            'oov': lambda: ['oov', vals(), vals(), pp], 'len': lambda: ['len', vals()],
            'count': lambda: ['count', vals()], 'scount': lambda: ['scount', vals()]}.get(name)
    if spec is not None:
      return spec()
  if name == 'ce':
    return ['ce']
  if name == 'acc':
    return ['acc']
  if name == 'topk':
    return ['topk', k]
  if name == 'stce':
    return ['stce', gen_values(rng, C), pp]
  if name == 'sce':
    return ['sce', gen_values(rng, C)]
  if name == 'stacc':
    return ['stacc', gen_values(rng, C), gen_lmask(rng, C), pp]
  if name == 'sttopk':
    return ['sttopk', k, gen_values(rng, C), gen_lmask(rng, C), pp]
  if name == 'trunc':
    return ['trunc', rng.randrange(0, C + 1), gen_values(rng, C)]
  if name == 'oov':
    return ['oov', gen_values(rng, C), gen_values(rng, C), pp]
  if name == 'len':
    return ['len', gen_values(rng, C)]
  if name == 'count':
    return ['count', gen_values(rng, C)]
  if name == 'scount':
    return ['scount', gen_values(rng, C)]
  if name == 'cm':
    return ['cm', C]
  raise ValueError(name)


BASE_NAMES = ['ce', 'acc', 'topk', 'stce', 'sce', 'stacc', 'sttopk', 'trunc', 'oov', 'len', 'count',
              'scount', 'cm']


def gen_example(rng, spec, L, C, D=1, small=False, extreme=False):
  """In-domain example for `spec`: targets in [0, C), integer scores, domain in [0, D).
  extreme (loss-valued metrics only): some positions get -inf / extreme finite logits."""
  loss = is_loss(spec)
  b = base_of(spec)
  n = L if is_seq(spec) else 1
  masked = None
  if is_seq(spec):
    masked = b[{'stce': 1, 'sce': 1, 'stacc': 1, 'sttopk': 2, 'trunc': 2, 'oov': 2, 'len': 1, 'count': 1,
                'scount': 1}[b[0]]]
  mode = rng.randrange(6)
  ts = []
  for _ in range(n):
    if masked and mode == 0:
      inr = [m for m in masked if 0 <= m < C]
      ts.append(rng.choice(inr) if inr else rng.randrange(C))       # fully masked sequence
    elif masked and mode == 1 and rng.random() < 0.5:
      inr = [m for m in masked if 0 <= m < C]
      ts.append(rng.choice(inr) if inr else rng.randrange(C))
    else:
      ts.append(rng.randrange(C))
  ss = [gen_scores(rng, C, loss, small) for _ in range(n)]
  if extreme and loss:
    for i in range(n):
      if rng.random() < 0.6:
        ss[i] = gen_scores_extreme(rng, C)
        r = rng.random()
        ninf = [c for c, v in enumerate(ss[i]) if v == 'ninf']
        if r < 0.25 and ninf:
          ts[i] = rng.choice(ninf)                     # target class masked out: loss = +inf
        elif r < 0.5:
          ts[i] = min(range(C), key=lambda c: sval(ss[i][c]))
  return {'t': ts, 's': ss, 'd': rng.randrange(D)}
