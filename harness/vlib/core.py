"""Shared machinery of the fedjax verification harness.

One check run = proof stage (lake build + axiom audit of the property's theorems)
+ correspondence stage (real fedjax code vs the compiled Lean model on the same cases)
+ independent property oracle on the implementation's outputs
+ failing-input search / shrinking when anything disagrees
+ evidence / replay / known-findings handling.

Exit codes: 0 held, 1 violation, 2 infrastructure failure (never reported as a violation).
"""
from __future__ import annotations

import dataclasses
import hashlib
import json
import os
import random
import re
import subprocess
import sys
import time
from fractions import Fraction
from typing import Any, Callable, Dict, Iterable, List, Optional

VERIF = os.path.dirname(os.path.dirname(os.path.dirname(os.path.abspath(__file__))))
LEAN_DIR = os.path.join(VERIF, 'lean')
DRIVER = os.path.join(LEAN_DIR, '.lake', 'build', 'bin', 'fedjax_model')
REPO = os.environ.get('VERIF_REPO', '/repo')
ALLOWED_AXIOMS = {'propext', 'Classical.choice', 'Quot.sound'}
FORBIDDEN = re.compile(
    r'\bsorry\b|\badmit\b|^axiom\s|native_decide|bv_decide|implemented_by|\bunsafe\s|maxHeartbeats\s+0\b',
    re.M)


class InfraError(Exception):
  pass


# ----------------------------------------------------------------------------------------------
# protocol values


def enc(v: Any) -> str:
  """Python value -> protocol token."""
  if v is None:
    return 'none'
  if isinstance(v, bool):
    return 'true' if v else 'false'
  if isinstance(v, int):
    return str(v)
  if isinstance(v, Fraction):
    return str(v.numerator) if v.denominator == 1 else f'{v.numerator}/{v.denominator}'
  if isinstance(v, float):
    return enc(Fraction(v))
  if isinstance(v, str):
    return v
  if isinstance(v, bytes):
    return 'x' + v.hex()
  if isinstance(v, (list, tuple)):
    return '[' + ','.join(enc(x) for x in v) + ']'
  try:
    import numpy as np
    if isinstance(v, np.ndarray):
      return enc(v.tolist())
    if isinstance(v, np.generic):
      return enc(v.item())
  except ImportError:
    pass
  raise TypeError(f'cannot encode {type(v)}')


def line(op: str, *args: Any) -> str:
  return ' '.join([op] + [enc(a) for a in args])


_TOK = re.compile(r'\[|\]|,|[^\[\],]+')


def dec(s: str) -> Any:
  """Protocol token -> Python value (ints, Fractions, bools, None, strings, nested lists)."""
  toks = _TOK.findall(s)
  pos = 0

  def atom(t: str):
    if t == 'none':
      return None
    if t == 'true':
      return True
    if t == 'false':
      return False
    if re.fullmatch(r'-?\d+', t):
      return int(t)
    if re.fullmatch(r'-?\d+/\d+', t):
      return Fraction(t)
    return t

  def parse():
    nonlocal pos
    t = toks[pos]
    if t == '[':
      pos += 1
      out = []
      if toks[pos] == ']':
        pos += 1
        return out
      while True:
        out.append(parse())
        if toks[pos] == ',':
          pos += 1
        elif toks[pos] == ']':
          pos += 1
          return out
        else:
          raise ValueError(s)
    pos += 1
    return atom(t)

  v = parse()
  if pos != len(toks):
    raise ValueError(s)
  return v


class Driver:
  """The compiled Lean model. Stateless: every call pipes a batch of lines."""

  def __init__(self):
    if not os.path.exists(DRIVER):
      raise InfraError(f'model driver missing: {DRIVER} (run setup_cmd)')
    self.lines_sent = 0

  def ask_raw(self, lines: List[str]) -> List[str]:
    if not lines:
      return []
    for l in lines:
      if '\n' in l:
        raise InfraError('newline in protocol line')
    p = subprocess.run([DRIVER], input='\n'.join(lines) + '\n', capture_output=True, text=True,
                       timeout=600)
    if p.returncode != 0:
      raise InfraError(f'driver failed: {p.stderr[:500]}')
    out = p.stdout.split('\n')
    if out and out[-1] == '':
      out.pop()
    if len(out) != len(lines):
      raise InfraError(f'driver answered {len(out)} lines for {len(lines)}')
    self.lines_sent += len(lines)
    return out

  def ask(self, lines: List[str]) -> List[Any]:
    """Returns decoded answers; 'err <x>' -> ('err', x); bad-op/bad-line raise InfraError."""
    res = []
    for l, a in zip(lines, self.ask_raw(lines)):
      if a.startswith('ok '):
        res.append(dec(a[3:]))
      elif a == 'ok':
        res.append(None)
      else:
        raise InfraError(f'driver rejected line {l!r}: {a}')
    return res

  def ask1(self, op: str, *args: Any) -> Any:
    return self.ask([line(op, *args)])[0]


# ----------------------------------------------------------------------------------------------
# proof stage


def _strip_comments(src: str) -> str:
  # nested block comments are rare in our sources; handle one level of nesting conservatively
  out = []
  i, depth = 0, 0
  while i < len(src):
    if src.startswith('/-', i):
      depth += 1
      i += 2
    elif src.startswith('-/', i) and depth:
      depth -= 1
      i += 2
    elif depth:
      i += 1
    elif src.startswith('--', i):
      j = src.find('\n', i)
      i = len(src) if j < 0 else j
    else:
      out.append(src[i])
      i += 1
  return ''.join(out)


def lean_sources() -> List[str]:
  res = []
  for root, _, files in os.walk(os.path.join(LEAN_DIR, 'FedjaxVerif')):
    for f in files:
      if f.endswith('.lean'):
        res.append(os.path.join(root, f))
  res.append(os.path.join(LEAN_DIR, 'Driver.lean'))
  return sorted(res)


def proof_stage(prop_id: str, thorough: bool = False) -> Dict[str, Any]:
  """lake build + audit of every `theorem <prop_id>_*` in Props/<prop_id>.lean.

  Returns dict(obligations, discharged, theorems, failures, checker_cmd).
  A failure here is *not* by itself a violation; the caller runs the failing-input search.
  """
  t0 = time.time()
  info: Dict[str, Any] = {'obligations': 0, 'discharged': 0, 'theorems': [], 'failures': [],
                          'axioms': {}}
  props_file = os.path.join(LEAN_DIR, 'FedjaxVerif', 'Props', f'{prop_id}.lean')
  info['checker_cmd'] = (f'cd lean && lake build && lake env lean <audit of Props/{prop_id}.lean: '
                         f'#print axioms for every theorem {prop_id}_*>')
  env = dict(os.environ)
  p = subprocess.run(['lake', 'build'], cwd=LEAN_DIR, capture_output=True, text=True, env=env,
                     timeout=3000)
  build_ok = p.returncode == 0
  if not build_ok:
    info['failures'].append('lake build failed: ' + (p.stdout + p.stderr)[-1500:])
  if not os.path.exists(props_file):
    info['failures'].append(f'missing {props_file}')
    return info
  src = _strip_comments(open(props_file).read())
  names = re.findall(r'^\s*theorem\s+(' + prop_id + r'_[A-Za-z0-9_\']+)', src, re.M)
  ns = re.search(r'^namespace\s+(\S+)', src, re.M)
  prefix = (ns.group(1) + '.') if ns else ''
  info['theorems'] = names
  info['obligations'] = len(names)
  n_examples = len(re.findall(r'^\s*example\b', src, re.M))
  info['nonvacuity_examples'] = n_examples
  # forbidden constructs anywhere in the Lean sources
  for f in lean_sources():
    s = _strip_comments(open(f).read())
    m = FORBIDDEN.search(s)
    if m:
      info['failures'].append(f'forbidden construct {m.group(0)!r} in {os.path.relpath(f, LEAN_DIR)}')
  if not build_ok or not names:
    if not names:
      info['failures'].append('no property theorems found')
    return info
  audit = os.path.join(LEAN_DIR, '.lake', f'audit_{prop_id}_{os.getpid()}.lean')
  with open(audit, 'w') as fh:
    fh.write(f'import FedjaxVerif.Props.{prop_id}\n')
    for n in names:
      fh.write(f'#print axioms {prefix}{n}\n')
  try:
    p = subprocess.run(['lake', 'env', 'lean', audit], cwd=LEAN_DIR, capture_output=True,
                       text=True, timeout=1800)
  finally:
    try:
      os.remove(audit)
    except OSError:
      pass
  out = p.stdout + p.stderr
  if p.returncode != 0:
    info['failures'].append('audit failed: ' + out[-1500:])
    return info
  # parse "'X' depends on axioms: [a, b]" / "'X' does not depend on any axioms"
  flat = re.sub(r'\s+', ' ', out)
  for n in names:
    full = prefix + n
    m = re.search(r"'" + re.escape(full) + r"' (does not depend on any axioms|depends on axioms: \[([^\]]*)\])", flat)
    if not m:
      info['failures'].append(f'audit: no axiom report for {full}')
      continue
    axs = set() if m.group(2) is None else {a.strip() for a in m.group(2).split(',') if a.strip()}
    info['axioms'][n] = sorted(axs)
    bad = axs - ALLOWED_AXIOMS
    if bad:
      info['failures'].append(f'{full} depends on non-permitted axioms {sorted(bad)}')
    else:
      info['discharged'] += 1
  if n_examples < 1:
    info['failures'].append('no non-vacuity example in Props file')
  if thorough:
    mods = [f'FedjaxVerif.Props.{prop_id}']
    p = subprocess.run(['lake', 'env', 'leanchecker'] + mods, cwd=LEAN_DIR, capture_output=True,
                       text=True, timeout=3000)
    info['leanchecker'] = 'ok' if p.returncode == 0 else 'failed'
    if p.returncode != 0:
      info['failures'].append('leanchecker failed: ' + (p.stdout + p.stderr)[-800:])
  info['proof_wall_s'] = round(time.time() - t0, 2)
  return info


# ----------------------------------------------------------------------------------------------
# case evaluation results


@dataclasses.dataclass
class Outcome:
  """Result of evaluating one case on implementation + model."""
  oracle_fail: Optional[str] = None     # the property itself fails on the implementation (independent oracle)
  corr_fail: Optional[str] = None       # implementation and model disagree / a monitor fired
  nontrivial: bool = True
  tags: tuple = ()                      # for the input-distribution histogram
  key: Optional[str] = None             # known-finding classifier key of an oracle failure
  detail: Optional[dict] = None         # impl vs model outputs for the replay file
  digest: Optional[str] = None          # identity for distinctness counting


def case_digest(case: Any) -> str:
  return hashlib.sha1(json.dumps(case, sort_keys=True, default=str).encode()).hexdigest()[:16]


class Property:
  """Base class of a property check. Subclasses implement gen_cases / evaluate (+ shrink)."""
  ID = 'C00'
  LEVEL = 'proof'
  TRUSTED = []          # trusted-base lines for the evidence
  ASSUMPTIONS = []
  RULE = ''
  QUICK_BUDGET_S = 120
  THOROUGH_BUDGET_S = 900

  def setup(self, ctx: 'Ctx'):
    pass

  def gen_cases(self, rng: random.Random, tier: str) -> Iterable[Any]:
    raise NotImplementedError

  def evaluate(self, case: Any, ctx: 'Ctx') -> Outcome:
    raise NotImplementedError

  def shrink(self, case: Any) -> Iterable[Any]:
    return ()

  def search_cases(self, rng: random.Random) -> Iterable[Any]:
    """Extra cases for the failing-input search (default: more generated cases)."""
    return self.gen_cases(rng, 'search')

  def finish(self, ctx: 'Ctx') -> List[Outcome]:
    """Run-level monitors (judged over the whole run). Returns extra outcomes."""
    return []

  def extra_coverage(self, ctx: 'Ctx') -> Dict[str, Any]:
    return {}


@dataclasses.dataclass
class Ctx:
  prop: Property
  tier: str
  seed: int
  drv: Driver
  rng: random.Random
  t0: float
  stats: Dict[str, Any] = dataclasses.field(default_factory=dict)

  def count(self, name: str, k: int = 1):
    self.stats[name] = self.stats.get(name, 0) + k


class CaseTimeout(BaseException):
  pass


_SINCE_RELEASE = [0]


def _release_compiled(prop) -> None:
  import gc
  import sys
  try:
    if hasattr(prop, 'release'):
      prop.release()
    if 'jax' in sys.modules:
      sys.modules['jax'].clear_caches()
    gc.collect()
  except Exception:
    pass


def guarded_evaluate(prop: 'Property', case: Any, ctx: 'Ctx') -> Outcome:
  """prop.evaluate under a SIGALRM watchdog: an implementation that never returns on a case is a
  concrete failing input (the limit is generous: cases normally take well under a second)."""
  import signal
  limit = float(os.environ.get('VERIF_CASE_TIMEOUT_S', getattr(prop, 'CASE_TIMEOUT_S', 300)))
  # Long runs compile thousands of XLA programs in one process; LLVM's JIT section memory is finite
  # ("LLVM ERROR: Unable to allocate section memory", seen after ~10 minutes of the thorough tier).
  # Drop the compiled programs every few minutes of wall time; they are recompiled on demand.
  if _SINCE_RELEASE[0] == 0:
    _SINCE_RELEASE[0] = time.time()
  if time.time() - _SINCE_RELEASE[0] >= float(os.environ.get('VERIF_RELEASE_EVERY_S', '180')):
    _SINCE_RELEASE[0] = time.time()
    _release_compiled(prop)

  def handler(signum, frame):
    raise CaseTimeout()
  try:
    old = signal.signal(signal.SIGALRM, handler)
  except ValueError:      # not in the main thread
    return prop.evaluate(case, ctx)
  signal.setitimer(signal.ITIMER_REAL, limit)
  try:
    return prop.evaluate(case, ctx)
  except CaseTimeout:
    return Outcome(oracle_fail=f'the case did not terminate within {limit:.0f} s (the implementation hangs or '
                               f'loops on this input)', key=f'{prop.ID}/case-timeout', tags=('case-timeout',))
  except (InfraError, subprocess.TimeoutExpired, KeyboardInterrupt):
    raise
  except Exception as e:   # the implementation behaved in a way the harness cannot interpret
    import traceback
    tb = traceback.extract_tb(e.__traceback__)
    where = '; '.join(f'{os.path.basename(f.filename)}:{f.lineno}' for f in tb[-3:])
    return Outcome(corr_fail=f'evaluating the case raised {type(e).__name__}: {str(e)[:300]} (at {where}); on the '
                             f'unchanged tree this case evaluates without error, so the implementation no longer '
                             f'behaves as the correspondence expects', tags=('evaluate-exception',))
  finally:
    signal.setitimer(signal.ITIMER_REAL, 0)
    signal.signal(signal.SIGALRM, old)


def load_known_findings() -> List[dict]:
  p = os.path.join(VERIF, 'known_findings.json')
  if not os.path.exists(p):
    return []
  return json.load(open(p)).get('findings', [])


def load_corpus(prop_id: str) -> List[Any]:
  d = os.path.join(VERIF, 'corpus', prop_id)
  res = []
  if os.path.isdir(d):
    for f in sorted(os.listdir(d)):
      if f.endswith('.json'):
        res.append(json.load(open(os.path.join(d, f)))['case'])
  return res


def write_json(path: str, obj: Any):
  os.makedirs(os.path.dirname(path), exist_ok=True)
  tmp = path + f'.tmp{os.getpid()}'
  with open(tmp, 'w') as fh:
    json.dump(obj, fh, indent=1, default=str)
    fh.write('\n')
  os.replace(tmp, path)


def _shrink(prop: Property, case: Any, ctx: Ctx, pred: Callable[[Outcome], bool],
            budget_s: float = 60.0, out0: Optional[Outcome] = None) -> (Any, Outcome):
  """Greedy delta-debugging using the property's shrink candidates."""
  best = case
  best_out = guarded_evaluate(prop, case, ctx)
  if not pred(best_out) and out0 is not None:
    # the failure does not reproduce on re-evaluation (it depends on something outside the case, e.g. a
    # temporary directory name): keep the failure that was observed, unshrunk
    out0.detail = {'note': 'not reproduced when the same case was evaluated again; unshrunk', 'detail': out0.detail}
    return case, out0
  t_end = time.time() + budget_s
  improved = True
  while improved and time.time() < t_end:
    improved = False
    for cand in prop.shrink(best):
      if time.time() > t_end:
        break
      try:
        out = guarded_evaluate(prop, cand, ctx)
      except InfraError:
        raise
      except Exception:   # a shrunk candidate may be malformed; skip it
        continue
      if pred(out):
        best, best_out, improved = cand, out, True
        break
  return best, best_out


def run_check(prop: Property, tier: str, replay: Optional[str] = None) -> int:
  seed = int(os.environ.get('VERIF_SEED', '0'))
  t0 = time.time()
  pid = prop.ID
  try:
    drv = Driver()
    ctx = Ctx(prop=prop, tier=tier, seed=seed, drv=drv, rng=random.Random(f'{pid}/{seed}'), t0=t0)
    prop.setup(ctx)
    if replay:
      return _run_replay(prop, ctx, replay)
    proof = proof_stage(pid, thorough=(tier == 'thorough'))
  except InfraError as e:
    print(f'INFRA-ERROR property={pid} {e}')
    return 2
  except subprocess.TimeoutExpired as e:
    print(f'INFRA-ERROR property={pid} timeout {e}')
    return 2

  budget = prop.QUICK_BUDGET_S if tier == 'quick' else prop.THOROUGH_BUDGET_S
  budget = float(os.environ.get('VERIF_BUDGET_S', budget))
  known = [k for k in load_known_findings() if k.get('property') == pid]
  known_keys = {k['key']: k for k in known if k.get('status') == 'known'}
  # a check run against an OLDER base of /repo (tools/harmless.py, tools/seeded.py with --base) names the
  # already repaired findings whose fix: commit that base does not contain; there they are still present
  for k in known:
    if k.get('status') == 'fixed' and k['key'] in os.environ.get('VERIF_UNFIXED_IN_BASE', '').split(','):
      known_keys[k['key']] = k

  evaluations = 0
  digests_nontrivial = set()
  hist: Dict[str, int] = {}
  samples: List[Any] = []
  oracle_failures: List[tuple] = []   # (case, outcome)
  corr_failures: List[tuple] = []
  known_hits: Dict[str, Any] = {}

  def handle(case, out: Outcome):
    nonlocal evaluations
    evaluations += 1
    d = out.digest or case_digest(case)
    if out.nontrivial:
      digests_nontrivial.add(d)
    for t in out.tags:
      hist[t] = hist.get(t, 0) + 1
    if len(samples) < 5 or (evaluations % 97 == 0 and len(samples) < 12):
      samples.append(case)
    if out.oracle_fail:
      if out.key and out.key in known_keys:
        known_hits.setdefault(out.key, (case, out))
      else:
        oracle_failures.append((case, out))
    elif out.corr_fail:
      corr_failures.append((case, out))

  try:
    n_corpus = 0
    for case in load_corpus(pid):
      handle(case, guarded_evaluate(prop, case, ctx))
      n_corpus += 1
    for case in prop.gen_cases(ctx.rng, tier):
      if time.time() - t0 > budget:
        ctx.stats['budget_exhausted'] = True
        break
      handle(case, guarded_evaluate(prop, case, ctx))
      if len(oracle_failures) >= 3:
        break
    for out in prop.finish(ctx):
      handle({'run_level_monitor': out.oracle_fail or out.corr_fail or 'ok'}, out)

    # failing-input search: something does not check, but no concrete property failure yet
    searched = 0
    if (proof['failures'] or corr_failures) and not oracle_failures:
      t_search = time.time()
      # 1. shrunk neighbours of disagreeing cases
      for case, out in corr_failures[:3]:
        for cand in list(prop.shrink(case))[:50]:
          try:
            o = guarded_evaluate(prop, cand, ctx)
          except InfraError:
            raise
          except Exception:
            continue
          searched += 1
          if o.oracle_fail and not (o.key and o.key in known_keys):
            oracle_failures.append((cand, o))
            break
        if oracle_failures:
          break
      # 2. a fresh budget of generated cases judged by the oracle
      if not oracle_failures:
        srng = random.Random(f'{pid}/search/{seed}')
        for case in prop.search_cases(srng):
          if time.time() - t_search > max(30.0, budget / 2):
            break
          o = guarded_evaluate(prop, case, ctx)
          searched += 1
          if o.oracle_fail and not (o.key and o.key in known_keys):
            oracle_failures.append((case, o))
            break
    ctx.stats['search_cases'] = searched
  except InfraError as e:
    print(f'INFRA-ERROR property={pid} {e}')
    return 2
  except subprocess.TimeoutExpired as e:
    print(f'INFRA-ERROR property={pid} timeout {e}')
    return 2

  violations = []
  os.makedirs(os.path.join(VERIF, 'replays'), exist_ok=True)
  if oracle_failures:
    case, out = oracle_failures[0]
    try:
      case, out = _shrink(prop, case, ctx, lambda o, k=out.key: bool(o.oracle_fail) and o.key == k, out0=out)
    except InfraError:
      pass
    rp = os.path.join('replays', f'{pid}-{case_digest(case)}.json')
    write_json(os.path.join(VERIF, rp), {
        'property': pid, 'tier': tier, 'seed': seed, 'kind': 'failing-input', 'case': case,
        'oracle': out.oracle_fail, 'correspondence': out.corr_fail, 'key': out.key,
        'detail': out.detail,
        'replay_cmd': f'/venv/bin/python harness/check.py {pid} --replay {rp}'})
    violations.append((rp, ''))
  elif proof['failures'] or corr_failures:
    what = {}
    if proof['failures']:
      what['proof_obligations_not_checked'] = proof['failures']
      what['theorems'] = proof['theorems']
    if corr_failures:
      case, out = corr_failures[0]
      try:
        case, out = _shrink(prop, case, ctx, lambda o: bool(o.corr_fail), out0=out)
      except InfraError:
        pass
      what['correspondence_not_checked'] = {'case': case, 'disagreement': out.corr_fail,
                                            'detail': out.detail}
    name = hashlib.sha1(json.dumps(what, sort_keys=True, default=str).encode()).hexdigest()[:12]
    rp = os.path.join('replays', f'{pid}-unchecked-{name}.json')
    write_json(os.path.join(VERIF, rp), {
        'property': pid, 'tier': tier, 'seed': seed, 'kind': 'no-failing-input-found',
        'no_longer_checks': what, 'search_cases_tried': ctx.stats.get('search_cases', 0)})
    violations.append((rp, ' no-failing-input-found'))

  for key, (case, out) in sorted(known_hits.items()):
    print(f'KNOWN-FINDING: property={pid} {key}: {known_keys[key].get("what", "")}')

  wall = time.time() - t0
  coverage = {
      'obligations': proof['obligations'],
      'discharged': proof['discharged'],
      'checker_cmd': proof['checker_cmd'],
      'trusted_base': ['Lean 4.33.0 kernel', 'axioms: ' + ', '.join(sorted(ALLOWED_AXIOMS)) +
                       ' (audited per theorem on this run)',
                       'hand-written Lean model tied to /repo by this correspondence run'] +
                      list(prop.TRUSTED),
      'theorems': proof['theorems'],
      'axioms_per_theorem': proof['axioms'],
      'nonvacuity_examples': proof.get('nonvacuity_examples', 0),
      'proof_failures': proof['failures'],
      'evaluations': evaluations,
      'distinct_nontrivial': len(digests_nontrivial),
      'rule': prop.RULE,
      'samples': samples[:12],
      'corpus_cases': n_corpus,
      'input_distribution': dict(sorted(hist.items())),
      'model_lines': drv.lines_sent,
      'correspondence_disagreements': len(corr_failures),
      'oracle_failures': len(oracle_failures),
      'known_findings_hit': sorted(known_hits),
      'monitors': {k: v for k, v in sorted(ctx.stats.items())},
      'repo': REPO,
  }
  if 'leanchecker' in proof:
    coverage['leanchecker'] = proof['leanchecker']
  coverage.update(prop.extra_coverage(ctx))
  if 'exhaustive' in coverage and not isinstance(coverage['exhaustive'], bool):
    note = coverage.pop('exhaustive')          # the schema wants a boolean here
    if note:
      coverage['exhaustive_note'] = note
      coverage['exhaustive'] = True
  # evidence under evidence/ always describes a run against /repo itself; runs against another
  # checkout (VERIF_REPO, mutant validation) write to evidence_scratch/ instead
  ev_dir = 'evidence' if os.path.realpath(REPO) == '/repo' else 'evidence_scratch'
  write_json(os.path.join(VERIF, ev_dir, f'{pid}.json'), {
      'property_id': pid, 'tier': tier, 'seed': seed, 'level': prop.LEVEL,
      'coverage': coverage, 'assumptions': list(prop.ASSUMPTIONS), 'wall_s': round(wall, 2),
      'violations': len(violations)})
  for rp, suffix in violations:
    print(f'VIOLATION property={pid} replay={rp}{suffix}')
  print(f'{pid} {tier} seed={seed}: theorems {proof["discharged"]}/{proof["obligations"]}, '
        f'{evaluations} cases ({len(digests_nontrivial)} distinct non-trivial), '
        f'{len(corr_failures)} disagreements, {len(oracle_failures)} property failures, '
        f'{len(known_hits)} known findings, {wall:.1f}s')
  return 1 if violations else 0


def _run_replay(prop: Property, ctx: Ctx, path: str) -> int:
  p = path if os.path.isabs(path) else os.path.join(VERIF, path)
  data = json.load(open(p))
  if 'case' not in data:
    print(json.dumps(data.get('no_longer_checks'), indent=1, default=str))
    print(f'replay {path}: no concrete input recorded (no-failing-input-found)')
    return 1
  out = guarded_evaluate(prop, data['case'], ctx)
  print(json.dumps({'case': data['case'], 'oracle': out.oracle_fail, 'correspondence': out.corr_fail,
                    'key': out.key, 'detail': out.detail}, indent=1, default=str))
  if out.oracle_fail or out.corr_fail:
    print(f'VIOLATION property={prop.ID} replay={path}')
    return 1
  print(f'replay {path}: holds now')
  return 0
