"""Fault injection shared by the crash-consistency properties (C09, C19).

Every file-system effect / step of the code under test passes through an `Injector`, which numbers
it.  A crash `(c, p)` lets the first `c` events complete and, if event `c` is a write, lets the first
`p` bytes of it reach the file before the call is unwound.  `mode='crash'` unwinds with a
`BaseException` (nothing in the code under test can swallow it; `with` blocks still close their
files, exactly as after an `OSError`), `mode='ioerror'` raises `OSError`.
"""
import builtins
import os
import tempfile


class Crash(BaseException):
  """Simulated process death at a numbered crash point."""


class InjectedIOError(OSError):
  pass


class Injector:

  def __init__(self, crash_at=None, prefix=0, mode='crash'):
    self.n = 0
    self.crash_at = crash_at
    self.prefix = prefix
    self.mode = mode
    self.events = []      # (kind, info)
    self.fired = False

  def _raise(self):
    self.fired = True
    if self.mode == 'ioerror':
      raise InjectedIOError('injected I/O error')
    raise Crash()

  def event(self, kind, info=None):
    """A non-write step; the crash happens *before* it executes."""
    i = self.n
    self.n += 1
    self.events.append((kind, info))
    if i == self.crash_at:
      self._raise()

  def write(self, kind, do_write, data, info=None):
    """A write of `data` through `do_write`; a crash lets `prefix` bytes through."""
    i = self.n
    self.n += 1
    self.events.append((kind, (info, len(data))))
    if i == self.crash_at:
      p = min(self.prefix, len(data))
      if p:
        do_write(data[:p])
      self._raise()
    return do_write(data)


class WFile:
  """Proxy of a writable file object: every `write` is a crash point with byte prefixes."""

  def __init__(self, f, inj, name):
    self._f = f
    self._inj = inj
    self._name = name

  def write(self, data):
    return self._inj.write('write', self._f.write, data, self._name)

  def close(self):
    return self._f.close()

  def flush(self):
    return self._f.flush()

  def __enter__(self):
    return self

  def __exit__(self, *exc):
    self._f.close()
    return False

  def __getattr__(self, k):
    return getattr(self._f, k)


def prefixes(m):
  """Byte prefixes tried inside a write of m bytes (0 = crash before the write)."""
  return sorted({0, 1, m // 2, m - 1} & set(range(0, max(m, 1)))) if m > 0 else [0]


def real_open(*a, **k):
  return builtins.open(*a, **k)


def is_under(path, d):
  try:
    return os.path.dirname(os.path.abspath(os.fspath(path))) == os.path.abspath(d)
  except TypeError:
    return False


def mkdtemp(prefix):
  """tempfile.mkdtemp, on tmpfs when available (thousands of small crash runs)."""
  shm = '/dev/shm'
  if os.path.isdir(shm) and os.access(shm, os.W_OK | os.X_OK) and not os.environ.get('VERIF_TMP_ON_DISK'):
    return tempfile.mkdtemp(prefix=prefix, dir=shm)
  return tempfile.mkdtemp(prefix=prefix)
