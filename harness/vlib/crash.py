"""Fault injection shared by the crash-consistency properties (C09, C19).

Every file-system effect / step of the code under test passes through an `Injector`, which numbers
it.  A crash `(c, p)` lets the first `c` events complete and, if event `c` is a write, lets the first
`p` bytes of it reach the file before the call is unwound.  `mode='crash'` unwinds with a
`BaseException` (nothing in the code under test can swallow it; `with` blocks still close their
files, exactly as after an `OSError`), `mode='ioerror'` raises `OSError`.
"""
import builtins
import os
import tempfile


class Crash(BaseException):
  """Simulated process death at a numbered crash point."""


class InjectedIOError(OSError):
  pass


class Injector:
  """Numbers the events of one call and fires one crash.

  Default mode: `write()` goes straight through to the file (a crash lets `prefix` bytes of the
  crashing write through), closing a file is not an event.

  Hard-kill mode (`hard=True`): models a user-space buffered writer in a process that is killed.
  Bytes handed to `write()` of a wrapped file are only *pending*; they reach the real file at
  `flush()` / `close()`.  `close()` of a writable wrapped file is itself a numbered event ('close')
  that fires before the real close.  When the crash fires (at any event) every open wrapped file
  keeps only the first `keep_frac` of its pending bytes, all real handles are closed, and nothing
  the unwinding code does afterwards reaches the disk any more (the process is dead).
  """

  def __init__(self, crash_at=None, prefix=0, mode='crash', hard=False, keep_frac=0.0, oserror_at=()):
    self.n = 0
    self.oserror_at = set(oserror_at)   # events that raise an ordinary OSError (the process lives on)
    self.crash_at = crash_at
    self.prefix = prefix
    self.mode = mode
    self.hard = hard
    self.keep_frac = keep_frac
    self.events = []      # (kind, info)
    self.pending_at = []  # hard mode: pending (not yet durable) bytes when event i was reached
    self.fired = False
    self.dead = False
    self.open_files = []

  def _raise(self):
    self.fired = True
    if self.hard:
      self.dead = True
      for f in list(self.open_files):
        f._die(self.keep_frac)
      raise Crash()
    if self.mode == 'ioerror':
      raise InjectedIOError('injected I/O error')
    raise Crash()

  def _check_alive(self):
    # A crash is a process death.  If the code under test swallowed the unwinding exception (e.g. it was
    # raised inside a worker thread and stored in a Future nobody reads), nothing it does afterwards can
    # have any effect: every later event dies again.  (An injected OSError is an ordinary exception: the
    # process lives on.)
    if self.fired and self.mode != 'ioerror':
      raise Crash()

  def event(self, kind, info=None):
    """A non-write step; the crash happens *before* it executes."""
    self._check_alive()
    i = self.n
    self.n += 1
    self.events.append((kind, info))
    if self.hard:
      self.pending_at.append(sum(f.pending_len() for f in self.open_files))
    if i in self.oserror_at:
      raise InjectedIOError('injected I/O error')
    if i == self.crash_at:
      self._raise()

  def write(self, kind, do_write, data, info=None):
    """A write of `data` through `do_write`; a crash lets `prefix` bytes through."""
    self._check_alive()
    i = self.n
    self.n += 1
    self.events.append((kind, (info, len(data))))
    if i in self.oserror_at:
      raise InjectedIOError('injected I/O error')
    if i == self.crash_at:
      p = min(self.prefix, len(data))
      if p:
        do_write(data[:p])
      self._raise()
    return do_write(data)


class WFile:
  """Proxy of a writable file object: every `write` is a crash point with byte prefixes
  (default mode) / a buffered write whose bytes are durable only after flush or close (hard mode)."""

  def __init__(self, f, inj, name, flush_on_write=False):
    self._f = f
    self._inj = inj
    self._name = name
    self._flush_on_write = flush_on_write
    self._pending = []
    self._created = False
    self._closed = False
    if inj.hard:
      inj.open_files.append(self)

  # -- default mode ---------------------------------------------------------------------------
  def _through(self, data):
    r = self._f.write(data)
    if self._flush_on_write:
      self._f.flush()
    return r

  # -- hard mode ------------------------------------------------------------------------------
  def pending_len(self):
    return sum(len(x) for x in self._pending)

  def _joined(self):
    if not self._pending:
      return b''
    return (b'' if isinstance(self._pending[0], (bytes, bytearray, memoryview)) else '').join(
        bytes(x) if isinstance(x, (bytearray, memoryview)) else x for x in self._pending)

  def _drain(self):
    data = self._joined()
    self._pending = []
    if len(data):
      self._f.write(data)

  def _die(self, keep_frac):
    """The process dies: a prefix of the pending bytes is all that ever reaches the file."""
    data = self._joined()
    self._pending = []
    k = int(len(data) * keep_frac)
    try:
      if k:
        self._f.write(data[:k])
      self._f.close()
    finally:
      self._closed = True
      if self in self._inj.open_files:
        self._inj.open_files.remove(self)

  def write(self, data):
    if not self._inj.hard:
      return self._inj.write('write', self._through, data, self._name)
    if self._inj.dead or self._closed:
      return len(data)
    self._inj.event('write', (self._name, len(data)))
    if not self._created:
      # the file exists (empty) as soon as the writer has opened it
      self._created = True
      self._f.write(data[:0])
      self._f.flush()
    # copy: the caller may reuse its buffer (memoryview over a bytearray refilled by readinto)
    self._pending.append(data if isinstance(data, (str, bytes)) else bytes(data))
    return len(data)

  def writelines(self, lines):
    for x in lines:
      self.write(x)

  def flush(self):
    if self._inj.hard:
      if self._inj.dead or self._closed:
        return None
      self._drain()
    return self._f.flush()

  # a buffered writer flushes its buffer before it seeks or truncates; tell() counts the buffered bytes
  def seek(self, *a, **k):
    if self._inj.hard and not (self._inj.dead or self._closed):
      self._drain()
    return self._f.seek(*a, **k)

  def truncate(self, *a, **k):
    if self._inj.hard and not (self._inj.dead or self._closed):
      self._drain()
    return self._f.truncate(*a, **k)

  def tell(self):
    return self._f.tell() + (self.pending_len() if self._inj.hard else 0)

  def close(self):
    if not self._inj.hard:
      return self._f.close()
    if self._inj.dead or self._closed:
      return None
    self._inj.event('close', self._name)      # may kill the process: pending bytes are lost
    self._drain()
    self._closed = True
    if self in self._inj.open_files:
      self._inj.open_files.remove(self)
    return self._f.close()

  def __enter__(self):
    return self

  def __exit__(self, *exc):
    self.close()
    return False

  def __getattr__(self, k):
    return getattr(self._f, k)


def hard_points(events, pending_at, fracs=(0.0, 0.5)):
  """Hard-kill crash points worth running: those where some bytes are still pending (everywhere
  else a hard kill leaves the same directory as the ordinary crash at that event)."""
  pts = []
  for c in range(len(events)):
    if c < len(pending_at) and pending_at[c] > 0:
      pts += [(c, f) for f in fracs]
  return pts


def prefixes(m):
  """Byte prefixes tried inside a write of m bytes (0 = crash before the write)."""
  return sorted({0, 1, m // 2, m - 1} & set(range(0, max(m, 1)))) if m > 0 else [0]


def real_open(*a, **k):
  return builtins.open(*a, **k)


def is_under(path, d):
  try:
    return os.path.dirname(os.path.abspath(os.fspath(path))) == os.path.abspath(d)
  except TypeError:
    return False


def mkdtemp(prefix):
  """tempfile.mkdtemp, on tmpfs when available (thousands of small crash runs)."""
  shm = '/dev/shm'
  if os.path.isdir(shm) and os.access(shm, os.W_OK | os.X_OK) and not os.environ.get('VERIF_TMP_ON_DISK'):
    return tempfile.mkdtemp(prefix=prefix, dir=shm)
  return tempfile.mkdtemp(prefix=prefix)


def in_tree(path, root):
  """path (str / bytes / PathLike) lies inside the directory tree `root` (any depth)"""
  try:
    p = os.path.abspath(os.fsdecode(os.fspath(path)))
  except TypeError:
    return False
  r = os.path.abspath(root)
  return p == r or p.startswith(r + os.sep)


class FsTap:
  """Routes every file-system effect below `root` (any depth: sub-directories, tempfile.mkdtemp, pathlib)
  of the code that runs inside the `with` block through an Injector, whatever API it uses:
  builtins.open / io.open / Path.open (writable modes), os.open + fdopen, os.rename / os.replace /
  Path.replace / shutil.move, os.remove / os.unlink / Path.unlink / shutil.rmtree, os.mkdir / makedirs /
  mkdtemp, os.rmdir, os.fsync / fdatasync, os.truncate.  Events are ('open'|'write'|'close'|'rename'|
  'remove'|'mkdir'|'rmdir'|'fsync'|'truncate', relative name).  `os.sendfile` is refused so that
  shutil's copy falls back to read/write (its writes become events)."""

  def __init__(self, root, inj):
    self.root, self.inj = os.path.abspath(root), inj
    self.fds = {}

  def rel(self, path):
    try:
      return os.path.relpath(os.path.abspath(os.fsdecode(os.fspath(path))), self.root)
    except (TypeError, ValueError):
      return str(path)

  def __enter__(self):
    import io
    import errno
    tap, inj = self, self.inj
    self._saved = [(builtins, 'open', builtins.open), (io, 'open', io.open)]
    for name in ('open', 'rename', 'replace', 'link', 'symlink', 'remove', 'unlink', 'rmdir', 'mkdir', 'fsync', 'fdatasync',
                 'truncate', 'sendfile', 'close'):
      if hasattr(os, name):
        self._saved.append((os, name, getattr(os, name)))
    real = {(m.__name__, n): f for m, n, f in self._saved}
    r_open = real[('builtins', 'open')]

    def writable(mode):
      return any(ch in mode for ch in 'wax+')

    def w_open(file, mode='r', *a, **k):
      if isinstance(file, int):
        if file in tap.fds and writable(mode):
          name = tap.fds.pop(file)
          return WFile(r_open(file, mode, *a, **k), inj, name)
        return r_open(file, mode, *a, **k)
      if writable(mode) and in_tree(file, tap.root):
        inj.event('open', tap.rel(file))
        return WFile(r_open(file, mode, *a, **k), inj, tap.rel(file))
      return r_open(file, mode, *a, **k)

    def w_os_open(path, flags, *a, **k):
      wr = flags & (os.O_WRONLY | os.O_RDWR | os.O_CREAT | os.O_TRUNC | os.O_APPEND)
      track = wr and (in_tree(path, tap.root) or 'dir_fd' in k and k['dir_fd'] is not None)
      if track:
        inj.event('open', tap.rel(path))
      fd = real[('os', 'open')](path, flags, *a, **k)
      if track:
        tap.fds[fd] = tap.rel(path)
      return fd

    def w_os_close(fd):
      tap.fds.pop(fd, None)
      return real[('os', 'close')](fd)

    def two(kind, key):
      def f(src, dst, *a, **k):
        if in_tree(src, tap.root) or in_tree(dst, tap.root):
          inj.event(kind, (tap.rel(src), tap.rel(dst)))
        return real[key](src, dst, *a, **k)
      return f

    def one(kind, key):
      def f(path, *a, **k):
        if isinstance(path, int):
          if kind in ('fsync', 'truncate'):
            inj.event(kind, path)
        elif in_tree(path, tap.root) and os.path.abspath(os.fsdecode(os.fspath(path))) != tap.root \
            or k.get('dir_fd') is not None:
          inj.event(kind, tap.rel(path))
        return real[key](path, *a, **k)
      return f

    def w_sendfile(*a, **k):
      raise OSError(errno.EINVAL, 'sendfile refused by the fault-injection harness')

    builtins.open = w_open
    io.open = w_open
    os.open = w_os_open
    os.close = w_os_close
    os.rename = two('rename', ('os', 'rename'))
    os.replace = two('rename', ('os', 'replace'))
    os.link = two('rename', ('os', 'link'))        # hard link tmp -> final: the final name appears atomically
    os.symlink = two('rename', ('os', 'symlink'))
    os.remove = one('remove', ('os', 'remove'))
    os.unlink = one('remove', ('os', 'unlink'))
    os.rmdir = one('rmdir', ('os', 'rmdir'))
    os.mkdir = one('mkdir', ('os', 'mkdir'))
    os.fsync = one('fsync', ('os', 'fsync'))
    if hasattr(os, 'fdatasync'):
      os.fdatasync = one('fsync', ('os', 'fdatasync'))
    os.truncate = one('truncate', ('os', 'truncate'))
    if hasattr(os, 'sendfile'):
      os.sendfile = w_sendfile
    return self

  def __exit__(self, *exc):
    for m, n, f in self._saved:
      setattr(m, n, f)
    return False
