"""C06 — masked gradients and losses ignore padding and batch geometry."""
import json
import math
import random
import warnings
from fractions import Fraction as F

import numpy as np

from vlib import core
from vlib.core import Outcome, line

FAMS = ['sq', 'poly3', 'lin']
FAM_POOL = ['sq', 'sq', 'sq', 'poly3', 'poly3', 'poly3', 'lin']
# NOT generated: per-example losses that keep a trailing unit dimension (shape [B, 1]).  fedjax documents
# per_example_loss as "a function from (params, batch_example, rng) to a VECTOR of loss values for each example in the
# batch"; with a [B, 1] result two accepted property-preserving rewrites change behaviour (harmless/C06-1: the VJP with a
# [B] cotangent raises; harmless/C06-3: the average loss is wrong), so demanding it would demand more than the property
# states.  The family 'sqcol' below is kept for manual probing only.
APIS_DATASET = ['avg', 'evaluator', 'mime', 'domains', 'cluster']
NUM_DOMAINS = 3
# algorithm-level probes (real agnostic_federated_averaging / mime rounds): everything except the padded-batch
# geometry of the statistics pass and the regularizer is fixed, so that compiled shapes are reused across cases
ALGO_GEOMS = [[1, 1], [3, 2], [16, 1], [2, 1], [8, 3], [5, 2]]
ALGO_INIT_WEIGHTS = [0.25, 0.25, 0.5]
ALGO_DOMAIN_LR = 0.0625
ALGO_TRAIN_BS = 4
# cohorts with a repeated client id: Mime / MimeLite only.  The unchanged agnostic_federated_averaging keeps its
# per-client domain metrics in a dict keyed by client id, i.e. it already collapses repeated ids on the unchanged tree
# (cohort semantics, not a statement of C06), so the agnostic probe keeps distinct ids.
REPEATED_ID_APIS = ('mime-algo', 'mimelite-algo')


def tol(S, model):
  return 1e-5 * float(S) + 1e-4 * abs(float(model)) + 1e-30


def fr(v):
  """exact rational of a finite float32/float64/int"""
  return F(float(v))


class C06(core.Property):
  ID = 'C06'
  RULE = ('cases = (loss family sq/poly3/lin [+ log for the non-finite probe], params, optional regularizer '
          '(l2, centred l2, custom), examples with integer/dyadic features) x (api: grad, model_grad on one manually '
          'padded batch with real rows at random positions / junk or zero padding / all-false mask; '
          'evaluate_average_loss, AverageLossEvaluator, Mime create_grads_for_each_client + server combination, '
          'agnostic create_domain_metrics_for_each_client, HypCluster _cluster_losses on two layouts of the same '
          'datasets: padded_batch(bs in 1..9, buckets in 1..3), manual paddings incl. fully padded batches, '
          'plain unpadded batches; algorithm-level probes: real agnostic_federated_averaging (1-2 rounds, with/without '
          'regularizer), mime and mime_lite (1-2 rounds, sgd+momentum or adam as base optimizer) under 2-3 padded-batch '
          'geometries of their statistics pass, domain weights / server gradient recovered from the optimizer state / '
          'optimizer state / params compared across geometries; Mime/MimeLite cohorts with a repeated client id; sequences of '
          'regularizer objects of equal weight but different centres / per-parameter weights evaluated in one case and with the reference from the unpadded examples); non-trivial = has a padding row or more than one batch AND every wrong variant '
          '(mask ignored, rows counted instead of sum(mask), regularizer per batch) differs by > 100x tolerance; '
          'distinct by case digest')
  TRUSTED = ['jax.grad linearity (per-example losses/gradients computed by JAX on single unpadded examples are the '
             "model's inputs; compared with the real code's result on every case)",
             'XLA float32 arithmetic (model exact over Rat; tolerance 1e-5*S + 1e-4*|model|)',
             'jax.ops.segment_sum = scatter-add (checked by the correspondence on every domain case)',
             'for_each_client backend (jit) is covered by C02; here it is only the carrier of the client passes']
  ASSUMPTIONS = ['per-example loss and gradient are finite on every row including padding rows (forced: 0*NaN = NaN; '
                 'the excluded point is probed and is the known finding C06/grad/nonfinite-on-padding)',
                 'per_example_loss is row-wise (row i of the output depends on row i of the batch only)']
  QUICK_BUDGET_S = 110
  THOROUGH_BUDGET_S = 560

  # ------------------------------------------------------------------------------------------ setup

  def setup(self, ctx):
    warnings.filterwarnings('ignore')
    import jax
    import jax.numpy as jnp
    from fedjax.core import client_datasets as cds
    from fedjax.core import models, optimizers, regularizers, tree_util
    from fedjax.algorithms import mime, mime_lite, agnostic_fed_avg, hyp_cluster
    self.jax, self.jnp, self.cds, self.models = jax, jnp, cds, models
    self.regs, self.tu, self.mime, self.afa, self.hc = regularizers, tree_util, mime, agnostic_fed_avg, hyp_cluster
    self.opts = optimizers
    self.mime_lite = mime_lite
    self.MK = cds.EXAMPLE_MASK_KEY
    self.rng = jax.random.PRNGKey(7)

    def apply_lin(params, batch, rng):
      return batch['x'] @ params['w'] + params['b']

    def apply_log(params, batch, rng):
      return batch['x'] @ params['w'] + 0 * params['b']

    tl = {
        'sq': lambda batch, z: (z - batch['y']) ** 2,
        'poly3': lambda batch, z: z * z * z - batch['y'] * z + 1.0,
        'lin': lambda batch, z: 2 * z + batch['y'],
        'sqcol': lambda batch, z: (0.5 * (z - batch['y']) ** 2)[:, None],
        'log': lambda batch, z: jnp.log(z) * batch['y'],
    }
    self.model_of = {}
    self.pel = {}
    for fam, loss in tl.items():
      ap = apply_log if fam == 'log' else apply_lin
      self.model_of[fam] = models.Model(init=lambda rng: None, apply_for_train=ap,
                                        apply_for_eval=lambda p, b, ap=ap: ap(p, b, None),
                                        train_loss=loss, eval_metrics={})
      self.pel[fam] = (lambda ap, loss: (lambda params, batch, rng: loss(batch, ap(params, batch, rng))))(ap, loss)
    self._per_ex = {}
    self._cache = {}

  def per_example(self, fam, params, x, y):
    """JAX on single unpadded examples: (losses [n], gradients [n][d]) as python floats."""
    n = len(y)
    if n == 0:
      return [], []
    if fam not in self._per_ex:
      jax, pel = self.jax, self.pel[fam]

      def single(p, xi, yi):
        return pel(p, {'x': xi[None], 'y': yi[None]}, None).reshape(-1)[0]
      self._per_ex[fam] = jax.jit(jax.vmap(jax.value_and_grad(single), in_axes=(None, 0, 0)))
    pad = (-n) % 16
    xp = np.concatenate([np.asarray(x, dtype=np.float32), np.ones((pad, np.shape(x)[1]), dtype=np.float32)])
    yp = np.concatenate([np.asarray(y, dtype=np.float32), np.ones((pad,), dtype=np.float32)])
    l, g = self._per_ex[fam](params, self.jnp.asarray(xp), self.jnp.asarray(yp))
    l = np.asarray(l, dtype=np.float64)[:n]
    gb, gw = np.asarray(g['b'], dtype=np.float64)[:n], np.asarray(g['w'], dtype=np.float64)[:n]
    return [float(v) for v in l], [[float(gb[i])] + [float(v) for v in gw[i]] for i in range(n)]

  def make_reg(self, spec, dx):
    """regularizer objects are cached by spec so that jit caches keyed on them are reused across cases"""
    if spec is None:
      return None
    key = 'reg' + json.dumps([spec, dx])
    if key not in self._cache:
      self._cache[key] = self._make_reg(spec, dx)
    return self._cache[key]

  def _make_reg(self, spec, dx):
    jnp = self.jnp
    if spec[0] == 'l2':
      return self.regs.l2_regularizer(spec[1])
    if spec[0] == 'l2c':
      c = {'w': jnp.array(spec[2]['w'], dtype=jnp.float32), 'b': jnp.array(spec[2]['b'], dtype=jnp.float32)}
      return self.regs.l2_regularizer(spec[1], center_params=c)
    if spec[0] == 'l2pw':
      tr = lambda t: None if t is None else {'w': jnp.array(t['w'], dtype=jnp.float32), 'b': jnp.array(t['b'], dtype=jnp.float32)}
      return self.regs.l2_regularizer(spec[1], center_params=tr(spec[2]), params_weights=tr(spec[3]))
    if spec[0] == 'lam':
      cf = float(spec[1])
      return lambda p: cf * (jnp.sum(p['w'] * p['w']) + p['b'] * p['b'])
    coef = jnp.arange(1, dx + 1, dtype=jnp.float32)
    return lambda p: jnp.sum(p['w'] * coef) + p['b'] * p['b'] + 0.5

  @staticmethod
  def reg_exact(spec, params):
    """(value, gradient) of an l2 / l2c / l2pw / lam regularizer spec in exact rationals, from its definition"""
    p = [F(params['b'])] + [F(v) for v in params['w']]
    flat = lambda t: [F(t['b'])] + [F(v) for v in t['w']]
    if spec[0] == 'lam':
      wgt, c, pw = F(spec[1]), [F(0)] * len(p), [F(1)] * len(p)
    else:
      wgt = F(spec[1])
      c = flat(spec[2]) if len(spec) > 2 and spec[2] is not None else [F(0)] * len(p)
      pw = flat(spec[3]) if len(spec) > 3 and spec[3] is not None else [F(1)] * len(p)
    rho = wgt * sum(w_ * (a - b) ** 2 for w_, a, b in zip(pw, p, c))
    return rho, [2 * wgt * w_ * (a - b) for w_, a, b in zip(pw, p, c)]

  def reg_values(self, reg, params, d):
    if reg is None:
      return F(0), [F(0)] * d
    rho = float(reg(params))
    g = self.jax.grad(reg)(params)
    return fr(rho), [fr(g['b'])] + [fr(v) for v in np.asarray(g['w'])]

  def mk_params(self, p):
    jnp = self.jnp
    return {'w': jnp.array(p['w'], dtype=jnp.float32), 'b': jnp.array(p['b'], dtype=jnp.float32)}

  def flat(self, tree):
    return [float(tree['b'])] + [float(v) for v in np.asarray(tree['w'], dtype=np.float64)]

  # ------------------------------------------------------------------------------------------ generation

  def _params(self, rng, dx, fam):
    if fam == 'log':
      return {'w': [rng.choice([0.5, 1, 2]) for _ in range(dx)], 'b': 0.0}
    return {'w': [rng.randrange(-8, 9) / 4 for _ in range(dx)], 'b': rng.randrange(-4, 5) / 2}

  def _example(self, rng, dx, fam):
    if fam == 'log':
      return [rng.randrange(1, 4) for _ in range(dx)] + [rng.randrange(1, 3), rng.randrange(NUM_DOMAINS)]
    return [rng.randrange(-3, 4) for _ in range(dx)] + [rng.randrange(-3, 4), rng.randrange(NUM_DOMAINS)]

  def _reg(self, rng, dx):
    k = rng.randrange(6)
    if k <= 1:
      return None
    if k <= 3:
      return ['l2', 0.25]
    if k == 4:
      return ['l2c', 0.5, {'w': [1, -2, 2][:dx], 'b': 1}]
    return ['custom']

  def _batch_case(self, rng, fam=None):
    fam = fam or rng.choice(FAM_POOL)
    dx = rng.choice([2, 2, 2, 2, 2, 2, 1, 3])
    size = rng.choice([1, 2, 3, 4, 5, 8])
    k = rng.randrange(6)
    if k == 0:
      nreal = 0
    elif k == 1:
      nreal = size
    else:
      nreal = rng.randrange(0, size + 1)
    pos = sorted(rng.sample(range(size), nreal)) if rng.random() < 0.6 else list(range(nreal))
    fill = rng.choice(['zeros', 'junk', 'junk'])
    if fam == 'log':
      fill = 'zeros'      # what pad_examples produces
    rows = []
    for i in range(size):
      real = i in pos
      if real or fill == 'junk':
        rows.append(self._example(rng, dx, fam) + [real])
      else:
        rows.append([0] * dx + [0, 0, False])
    return {'kind': 'batch', 'api': rng.choice(['grad', 'model_grad']), 'fam': fam, 'dx': dx,
            'params': self._params(rng, dx, fam), 'reg': self._reg(rng, dx), 'rows': rows}

  def _layout(self, rng, n, allow_plain):
    k = rng.randrange(10)
    if k <= 4 or (k >= 8 and not allow_plain):
      return ['padded', rng.choice([1, 2, 3, 4, 5, 8, 9]), rng.choice([1, 2, 3])]
    if k <= 7:
      idx = list(range(n))
      if rng.random() < 0.5:
        rng.shuffle(idx)
      batches, i = [], 0
      while i < n or not batches or rng.random() < 0.15:
        take = rng.randrange(0, 4)
        b = idx[i:i + take]
        i += len(b)
        b = b + [-1] * rng.randrange(0, 3)
        if not b:
          b = [-1]
        rng.shuffle(b)
        batches.append(b)
        if len(batches) > 12:
          batches[-1] = batches[-1] + idx[i:]
          i = n
          break
      return ['manual', batches, rng.choice(['zeros', 'junk']), rng.randrange(1 << 20)]
    return ['plain', rng.choice([1, 2, 3, 4, 8])]

  def _dataset_case(self, rng, api=None):
    api = api or rng.choice(APIS_DATASET)
    fam = rng.choice(FAM_POOL)
    dx = rng.choice([2, 2, 2, 2, 2, 2, 1, 3])
    nclients = 1 if api == 'avg' else rng.choice([1, 2, 3])
    clients = []
    for _ in range(nclients):
      n = rng.choice([0, 1, 2, 3, 4, 5, 6, 7, 8, 9, 10, 12])
      if rng.random() < 0.1:
        n = 0
      clients.append([self._example(rng, dx, fam) for _ in range(n)])
    allow_plain = api in ('avg', 'evaluator')
    layouts = []
    for _ in range(2):
      if api == 'cluster':
        bs, B = rng.choice([1, 2, 3, 4, 8]), rng.choice([1, 2, 3])
        layouts.append([['padded', bs, B] for _ in clients])
      else:
        layouts.append([self._layout(rng, len(c), allow_plain) for c in clients])
    case = {'kind': 'dataset', 'api': api, 'fam': fam, 'dx': dx, 'params': self._params(rng, dx, fam),
            'reg': None if api == 'domains' else self._reg(rng, dx), 'clients': clients, 'layouts': layouts}
    if api == 'cluster':
      case['params2'] = self._params(rng, dx, fam)
    if api == 'domains':
      case['alpha'] = [rng.choice([0.25, 0.5, 1, 2]) for _ in range(NUM_DOMAINS)]
    return case

  @staticmethod
  def prep_domain(prep, e, dx):
    """domain id of an example AFTER the dataset's batch preprocessor (what every pass of the algorithm sees)"""
    if prep == 'coarsen':
      return int(e[dx + 1]) // 2
    if prep == 'from_y':
      return int(e[dx]) % NUM_DOMAINS
    return int(e[dx + 1])

  def _preprocessor(self, prep):
    if prep == 'coarsen':
      fn = lambda ex: {**ex, 'domain_id': ex['domain_id'] // 2}
    elif prep == 'from_y':
      fn = lambda ex: {**ex, 'domain_id': np.mod(ex['y'].astype(np.int32), NUM_DOMAINS).astype(np.int32)}
    else:
      return None
    return self.cds.BatchPreprocessor([fn])

  def _algo_case(self, rng, tier, api=None, reg='random', repeat_ids=False, force_prep=None):
    api = api or rng.choice(['afa', 'afa', 'mime-algo', 'mimelite-algo'])
    fam = rng.choice(['sq', 'sq', 'lin'])
    dx = 2
    nclients = rng.choice([1, 2, 3])
    clients = []
    for _ in range(nclients):
      clients.append([self._example(rng, dx, fam) for _ in range(rng.choice([1, 2, 3, 5, 7, 9]))])
    if api != 'afa' and rng.random() < 0.2:
      clients.append([])                              # an empty client contributes weight 0
    flat = [e for c in clients for e in c]
    prep = None
    if api == 'afa':
      prep = force_prep or rng.choice([None, None, 'coarsen', 'from_y'])
      if prep == 'coarsen':                            # raw groups 0..5, domain = group // 2
        for c in clients:
          for e in c:
            e[dx + 1] = 2 * e[dx + 1] + rng.randrange(2)
      for j in range(NUM_DOMAINS):                     # every (preprocessed) domain is present in the cohort
        if not any(self.prep_domain(prep, e, dx) == j for e in flat):
          e = self._example(rng, dx, fam)
          e[dx], e[dx + 1] = (j if prep == 'from_y' else e[dx]), (2 * j if prep == 'coarsen' else j)
          clients[0].append(e)
    if reg == 'random':
      reg = rng.choice([None, ['l2', 0.25], ['l2', 0.25], ['custom']])
    k = 3 if tier == 'thorough' else 2
    case = {'kind': 'algo', 'api': api, 'fam': fam, 'dx': dx, 'params': self._params(rng, dx, fam), 'reg': reg,
            'clients': clients, 'geoms': rng.sample(ALGO_GEOMS, k),
            'rounds': rng.choice([1, 2]) if api == 'afa' else rng.choice([1, 1, 2]),
            'opt': None if api == 'afa' else rng.choice(['momentum', 'momentum', 'adam'])}
    if prep:
      case['prep'] = prep
    if api in REPEATED_ID_APIS and (repeat_ids or rng.random() < 0.4):
      # a client id that occurs twice in the cohort (sampling with replacement): every listed entry counts
      if rng.random() < 0.5 or len(clients) < 2:
        clients.append([list(e) for e in clients[0]])                 # the same dataset twice, same id
        case['ids'] = list(range(len(clients) - 1)) + [0]
      else:
        case['ids'] = [0] * len(clients)                              # one id, different datasets
    return case

  def _regseq_case(self, rng):
    """several regularizer OBJECTS evaluated one after the other in one case: equal weight, different centres /
    per-parameter weights (the FedProx pattern: l2_regularizer(mu, center_params=...) rebuilt every round), a plain one
    and a lambda; each judged against its own exact reference."""
    fam, dx = rng.choice(['sq', 'sq', 'lin']), 2
    w0 = rng.choice([0.25, 0.5])
    centre = lambda: {'w': [rng.randrange(-2, 3) for _ in range(dx)], 'b': rng.randrange(-2, 3)}
    pws = lambda: {'w': [rng.choice([0.5, 1, 2]) for _ in range(dx)], 'b': rng.choice([0.5, 1, 2])}
    regs = [['l2c', w0, centre()], ['l2c', w0, centre()]]
    extra = [['l2pw', w0, rng.choice([None, centre()]), pws()], ['l2', w0], ['lam', rng.choice([0.25, 0.75])],
             ['l2c', w0, centre()]]
    rng.shuffle(extra)
    regs += extra[:rng.choice([1, 2])]
    rng.shuffle(regs)
    n = rng.choice([0, 1, 2, 3, 5, 7])
    return {'kind': 'regseq', 'api': 'regseq', 'fam': fam, 'dx': dx, 'params': self._params(rng, dx, fam),
            'examples': [self._example(rng, dx, fam) for _ in range(n)],
            'layout': ['padded', rng.choice([1, 2, 3, 4, 8]), rng.choice([1, 2])], 'regs': regs}

  def gen_cases(self, rng, tier):
    # the excluded point of the finiteness hypothesis (known finding) is probed on every run
    yield {'kind': 'batch', 'api': 'grad', 'fam': 'log', 'dx': 2, 'params': {'w': [1, 2], 'b': 0.0}, 'reg': None,
           'rows': [[1, 2, 1, 0, True], [2, 2, 1, 0, True], [0, 0, 0, 0, False]]}
    if tier == 'thorough':
      # exhaustive small geometry: N in 0..6, bs in 1..7, buckets in 1..3 against the single-batch layout
      ex_rng = random.Random(12345)
      examples = [self._example(ex_rng, 2, 'sq') for _ in range(6)]
      cnt = 0
      for N in range(0, 7):
        for bs in range(1, 8):
          for B in (1, 2, 3):
            cnt += 1
            api = ['avg', 'mime', 'domains', 'evaluator'][cnt % 4]
            case = {'kind': 'dataset', 'api': api, 'fam': ['sq', 'poly3'][cnt % 2], 'dx': 2,
                    'params': {'w': [0.5, -1.25], 'b': 0.5}, 'reg': None if api == 'domains' else ['l2', 0.5],
                    'clients': [examples[:N]], 'layouts': [[['padded', bs, B]], [['padded', 8, 1]]]}
            if api == 'domains':
              case['alpha'] = [1, 0.5, 2]
            yield case
    n = {'quick': 110, 'thorough': 2300}.get(tier, 300)
    every = {'quick': 11, 'thorough': 25}.get(tier, 12)
    # the algorithm-level probes come first (one of each with a regularizer), then one every `every` cases
    yield self._algo_case(rng, tier, api='afa', reg=['l2', 0.25])
    yield self._algo_case(rng, tier, api='mime-algo', reg=['l2', 0.25])
    yield self._algo_case(rng, tier, api='mimelite-algo', reg=['l2', 0.25])
    yield self._algo_case(rng, tier, api='mime-algo', repeat_ids=True)
    yield self._algo_case(rng, tier, api='afa', force_prep=rng.choice(['coarsen', 'from_y']))
    yield self._regseq_case(rng)
    for i in range(n):
      if i % every == every - 1:
        yield self._algo_case(rng, tier)
        continue
      if i % 30 == 14:
        yield self._regseq_case(rng)
        continue
      r = rng.random()
      if r < 0.3:
        yield self._batch_case(rng)
      elif r < 0.33:
        yield self._batch_case(rng, fam='log')
      else:
        yield self._dataset_case(rng)

  def shrink(self, case):
    if case['kind'] != 'regseq' and case.get('reg') is not None:
      yield {**case, 'reg': None}
    if case['kind'] == 'batch':
      rows = case['rows']
      for i in range(len(rows)):
        if len(rows) > 1:
          yield {**case, 'rows': rows[:i] + rows[i + 1:]}
      if case['api'] != 'grad':
        yield {**case, 'api': 'grad'}
      for i, r in enumerate(rows):
        if not r[-1] and any(v != 0 for v in r[:-1]):
          yield {**case, 'rows': rows[:i] + [[0] * (len(r) - 1) + [False]] + rows[i + 1:]}
      return
    if case['kind'] == 'regseq':
      regs = case['regs']

      def still_two(rs):      # two l2 objects of one weight but different configuration must remain
        l2 = [r for r in rs if r[0] != 'lam']
        return any(a[1] == b[1] and a != b for i, a in enumerate(l2) for b in l2[i + 1:])
      for drop in range(len(regs)):
        rs = regs[:drop] + regs[drop + 1:]
        if len(rs) >= 2 and still_two(rs):
          yield {**case, 'regs': rs}
      ex = case['examples']
      for drop in range(len(ex)):
        yield {**case, 'examples': ex[:drop] + ex[drop + 1:]}
      if case['layout'] != ['padded', 8, 1]:
        yield {**case, 'layout': ['padded', 8, 1]}
      return
    if case['kind'] == 'algo':
      clients = case['clients']
      if case['rounds'] > 1:
        yield {**case, 'rounds': 1}
      if len(case['geoms']) > 2:
        for drop in range(len(case['geoms'])):
          yield {**case, 'geoms': [g for i, g in enumerate(case['geoms']) if i != drop]}
      if len(clients) > 1:
        for drop in range(len(clients)):
          c2 = {**case, 'clients': [c for i, c in enumerate(clients) if i != drop]}
          if case.get('ids'):
            c2['ids'] = [v for i, v in enumerate(case['ids']) if i != drop]
          yield c2
      if case.get('ids'):
        yield {k_: v for k_, v in case.items() if k_ != 'ids'}
      for ci, c in enumerate(clients):
        if len(c) > 1:
          for drop in range(len(c)):
            yield {**case, 'clients': clients[:ci] + [c[:drop] + c[drop + 1:]] + clients[ci + 1:]}
      for gi, g in enumerate(case['geoms']):
        for cand in ([1, 1], [16, 1]):
          if g != cand and cand not in case['geoms']:
            yield {**case, 'geoms': case['geoms'][:gi] + [cand] + case['geoms'][gi + 1:]}
      return
    clients, layouts = case['clients'], case['layouts']
    if len(clients) > 1:
      for drop in range(len(clients)):
        yield {**case, 'clients': [c for i, c in enumerate(clients) if i != drop],
               'layouts': [[l for i, l in enumerate(lay) if i != drop] for lay in layouts]}
    simple = lambda lay: [['padded', 8, 1] if l[0] != 'padded' else l for l in lay]
    if any(l[0] != 'padded' for lay in layouts for l in lay):
      yield {**case, 'layouts': [simple(lay) for lay in layouts]}
    for ci, c in enumerate(clients):
      if c and all(l[ci][0] == 'padded' for l in layouts):
        for drop in range(len(c)):
          yield {**case, 'clients': clients[:ci] + [c[:drop] + c[drop + 1:]] + clients[ci + 1:]}
    for li in range(2):
      for ci, l in enumerate(layouts[li]):
        if l[0] == 'padded' and (l[1] > 1 or l[2] > 1):
          for cand in (['padded', 1, 1], ['padded', max(1, l[1] // 2), l[2]], ['padded', l[1], 1]):
            if cand != l:
              lay = [list(x) for x in layouts]
              lay[li] = layouts[li][:ci] + [cand] + layouts[li][ci + 1:]
              yield {**case, 'layouts': lay}

  # ------------------------------------------------------------------------------------------ building batches

  def _arrays(self, rows, dx):
    x = np.array([r[:dx] for r in rows], dtype=np.float32).reshape(len(rows), dx)
    y = np.array([r[dx] for r in rows], dtype=np.float32)
    dom = np.array([r[dx + 1] for r in rows], dtype=np.int32)
    return x, y, dom

  def _batches(self, examples, layout, dx, fam):
    """materialised list of batch dicts for one client under one layout"""
    cds, MK = self.cds, self.MK
    x, y, dom = self._arrays(examples, dx)
    if layout[0] in ('padded', 'plain'):
      ds = cds.ClientDataset({'x': x, 'y': y, 'domain_id': dom})
      if layout[0] == 'padded':
        return list(ds.padded_batch(batch_size=layout[1], num_batch_size_buckets=layout[2]))
      return list(ds.batch(batch_size=layout[1]))
    _, spec, fill, seed = layout
    jr = random.Random(seed)
    out = []
    for b in spec:
      rows, mask = [], []
      for i in b:
        if i >= 0:
          rows.append(examples[i])
          mask.append(True)
        else:
          rows.append(self._example(jr, dx, fam) if fill == 'junk' else [0] * (dx + 2))
          mask.append(False)
      bx, by, bd = self._arrays(rows, dx)
      out.append({'x': bx, 'y': by, 'domain_id': bd, MK: np.array(mask, dtype=bool)})
    return out

  def _model_rows(self, fam, params, batch):
    """rows of a batch for the model: [mask, loss, grad, dom] with JAX's per-example values"""
    n = len(batch['y'])
    l, g = self.per_example(fam, params, batch['x'], batch['y'])
    mask = batch[self.MK] if self.MK in batch else np.ones(n, dtype=bool)
    dom = batch['domain_id'] if 'domain_id' in batch else np.zeros(n, dtype=np.int32)
    finite = all(math.isfinite(v) for v in l) and all(math.isfinite(v) for gi in g for v in gi)
    if not finite:
      return None
    return [[bool(mask[i]), fr(l[i]), [fr(v) for v in g[i]], int(dom[i])] for i in range(n)]

  def _cached(self, key, make):
    key = json.dumps(key)
    if key not in self._cache:
      self._cache[key] = make()
    return self._cache[key]

  def _grad_fn(self, case, reg):
    key = json.dumps([case['api'] == 'model_grad', case['fam'], case['reg'], case['dx']])
    if key not in self._cache:
      if case.get('api') == 'model_grad':
        self._cache[key] = self.models.model_grad(self.model_of[case['fam']], reg)
      else:
        self._cache[key] = self.models.grad(self.pel[case['fam']], reg)
    return self._cache[key]

  # ------------------------------------------------------------------------------------------ evaluation

  def evaluate(self, case, ctx):
    self._ctx = ctx
    if case['kind'] == 'batch':
      return self._eval_batch(case, ctx)
    if case['kind'] == 'algo':
      return self._eval_algo(case, ctx)
    if case['kind'] == 'regseq':
      return self._eval_regseq(case, ctx)
    return self._eval_dataset(case, ctx)

  # ------------------------------------------------------------------------------------------ regularizer sequence

  def _eval_regseq(self, case, ctx):
    fam, dx = case['fam'], case['dx']
    d = dx + 1
    models = self.models
    params = self.mk_params(case['params'])
    pel = self.pel[fam]
    ex = case['examples']
    x, y, dom = self._arrays(ex, dx)
    l_all, g_all = self.per_example(fam, params, x, y)
    n = len(ex)
    batches = self._batches(ex, case['layout'], dx, fam)
    mean_l = sum(fr(v) for v in l_all) / n if n else F(0)
    S_l = sum(abs(fr(v)) for v in l_all) / n if n else F(0)
    problems, corr, key = [], [], None

    def fail(k, msg):
      nonlocal key
      key = key or f'C06/regseq/{k}'
      problems.append(msg)

    b0 = batches[0] if batches else None
    if b0 is not None:
      real0 = [i for i in range(len(b0['y'])) if b0[self.MK][i]]
      l0, g0 = self.per_example(fam, params, b0['x'], b0['y'])
      mean_g0 = [sum(fr(g0[i][k]) for i in real0) / len(real0) for k in range(d)]
      S_g0 = [sum(abs(fr(g0[i][k])) for i in real0) / len(real0) for k in range(d)]
    rows_b = [self._model_rows(fam, params, b) for b in batches]
    lines, meta, rhos = [], [], []
    for ri, spec in enumerate(case['regs']):
      reg = self._make_reg(spec, dx)                  # a FRESH object every time (never the harness cache)
      rho, r = self.reg_exact(spec, case['params'])
      rhos.append(rho)
      want = mean_l + rho
      S = S_l + abs(rho)
      tag = f'regularizer #{ri} {spec}'
      try:
        a = float(models.evaluate_average_loss(params, iter(batches), self.rng, pel, reg))
        if not abs(a - float(want)) <= tol(S, want):
          fail('avg-loss', f'evaluate_average_loss with {tag}: got {a}, mean loss {float(mean_l)} + regularizer '
                           f'{float(rho)} = {float(want)}')
        ev = models.AverageLossEvaluator(pel, reg)
        e = float(dict(ev.evaluate_global_params(params, [(b'c0', batches, self.rng)]))[b'c0'])
        if not abs(e - float(want)) <= tol(S, want):
          fail('evaluator', f'AverageLossEvaluator with {tag}: got {e}, expected {float(want)}')
        gg = None
        if b0 is not None:
          gg = self.flat(models.grad(pel, reg)(params, b0, self.rng))
          for k in range(d):
            wk = mean_g0[k] + r[k]
            if not abs(gg[k] - float(wk)) <= tol(S_g0[k] + abs(r[k]), wk):
              fail('grad', f'models.grad with {tag}: coordinate {k} = {gg[k]}, expected {float(wk)}')
              break
      except Exception as e_:
        fail('raised', f'{tag}: {type(e_).__name__}: {str(e_)[:140]}')
        continue
      lines.append(line('c06.avgloss', [[True, rb] for rb in rows_b], rho))
      meta.append(('avg', ri, a, S))
      if b0 is not None:
        lines.append(line('c06.grad', d, True, rows_b[0], r))
        meta.append(('grad', ri, gg, None))
    if lines:
      ans = ctx.drv.ask(lines)
      for (kind, ri, got, S), a in zip(meta, ans):
        if kind == 'avg':
          if F(a) != mean_l + rhos[ri]:
            corr.append(f'regularizer #{ri}: model average loss {a} differs from the exact statement {mean_l + rhos[ri]}')
          elif not abs(got - float(a)) <= tol(S, a):
            corr.append(f'regularizer #{ri}: implementation average loss {got} vs model {float(F(a))}')
        else:
          for k in range(d):
            if not abs(got[k] - float(a[k])) <= tol(S_g0[k] + abs(float(a[k])), a[k]):
              corr.append(f'regularizer #{ri}: implementation gradient {got} vs model {[float(v) for v in a]}')
              break
    l2 = [(spec, rho) for spec, rho in zip(case['regs'], rhos) if spec[0] != 'lam']
    nontrivial = any(a[0][1] == b[0][1] and abs(float(a[1] - b[1])) > 100 * tol(S_l + abs(a[1]), a[1])
                     for i, a in enumerate(l2) for b in l2[i + 1:])
    tags = ('api=regseq', f'fam={fam}', f'regs={len(case["regs"])}', 'empty' if n == 0 else 'nonempty')
    return Outcome(oracle_fail='; '.join(problems[:3]) or None, corr_fail='; '.join(corr[:3]) or None, key=key,
                   nontrivial=nontrivial, tags=tags, detail={'reg_values': [float(v) for v in rhos]})

  # ------------------------------------------------------------------------------------------ algorithm-level probes

  def _algorithm(self, case, geom):
    """the real federated algorithm, cached per (api, loss, regularizer, geometry) so compiled shapes are reused"""
    cds, opts = self.cds, self.opts
    fam, dx = case['fam'], case['dx']
    reg = self.make_reg(case['reg'], dx)
    train_hp = cds.ShuffleRepeatBatchHParams(batch_size=ALGO_TRAIN_BS, num_epochs=1, seed=0)
    stat_hp = cds.PaddedBatchHParams(batch_size=geom[0], num_batch_size_buckets=geom[1])

    def make():
      if case['api'] == 'afa':
        return self.afa.agnostic_federated_averaging(
            per_example_loss=self.pel[fam], client_optimizer=opts.sgd(0.01), server_optimizer=opts.sgd(1.0),
            client_batch_hparams=train_hp, domain_batch_hparams=stat_hp,
            init_domain_weights=list(ALGO_INIT_WEIGHTS), domain_learning_rate=ALGO_DOMAIN_LR,
            init_domain_window=[1.0] * NUM_DOMAINS, regularizer=reg)
      # a STATEFUL base optimizer: the server's full-batch gradient is only observable through its state
      base = opts.adam(0.01) if case.get('opt') == 'adam' else opts.sgd(0.01, momentum=0.9)
      build = self.mime.mime if case['api'] == 'mime-algo' else self.mime_lite.mime_lite
      return build(per_example_loss=self.pel[fam], base_optimizer=base, client_batch_hparams=train_hp,
                   grads_batch_hparams=stat_hp, server_learning_rate=1.0, regularizer=reg)
    return self._cached(('algo', case['api'], case.get('opt'), fam, case['reg'], dx, geom), make)

  def _first_moment(self, opt_state):
    """momentum trace / Adam first moment of the base optimizer state, flattened like the params"""
    try:
      st0 = opt_state[0]
      return self.flat(st0.mu if hasattr(st0, 'mu') else st0.trace)
    except Exception:
      return None          # unknown state layout: the server-gradient sub-check is skipped (counted), not failed

  def _eval_algo(self, case, ctx):
    api, fam, dx = case['api'], case['fam'], case['dx']
    d = dx + 1
    jax = self.jax
    params0 = self.mk_params(case['params'])
    reg = self.make_reg(case['reg'], dx)
    clients = case['clients']
    dss = []
    prep = case.get('prep')
    pp = self._preprocessor(prep)
    for ex in clients:
      x, y, dom = self._arrays(ex, dx)
      raw = {'x': x, 'y': y, 'domain_id': dom}
      dss.append(self.cds.ClientDataset(raw, pp) if pp is not None else self.cds.ClientDataset(raw))
    ids = case.get('ids') or list(range(len(dss)))
    cl = [(b'c%d' % ids[i], ds, jax.random.PRNGKey(i)) for i, ds in enumerate(dss)]
    problems, corr, key = [], [], None

    def fail(k, msg):
      nonlocal key
      key = key or f'C06/{api}/{k}'
      problems.append(msg)

    def close(a, b, rtol=1e-4, atol=1e-6):
      a, b = np.asarray(a, dtype=np.float64), np.asarray(b, dtype=np.float64)
      return a.shape == b.shape and bool(np.all(np.isfinite(a))) and bool(
          np.all(np.abs(a - b) <= rtol * np.maximum(np.abs(a), np.abs(b)) + atol * max(1.0, float(np.max(np.abs(b), initial=0.0)))))

    def per_client_values(params):
      out = []
      for ex in clients:
        x, y, dom = self._arrays(ex, dx)
        l, g = self.per_example(fam, params, x, y)
        out.append((l, g, [self.prep_domain(prep, e, dx) for e in ex]))      # PREPROCESSED domain ids
      return out

    runs = []        # per geometry: list over rounds of observation dicts
    for geom in case['geoms']:
      try:
        alg = self._algorithm(case, geom)
        st = alg.init(params0)
        obs = []
        for rnd in range(case['rounds']):
          prev = st
          st, _ = alg.apply(st, cl)
          o = {'params': self.flat(st.params), 'prev_params': prev.params}
          if api == 'afa':
            o['dw'] = [float(v) for v in np.asarray(st.domain_weights)]
            o['prev_dw'] = [float(v) for v in np.asarray(prev.domain_weights)]
            o['counts'] = [float(v) for v in np.asarray(st.domain_window[-1])]
          else:
            # server_grads recovered from the optimizer state: momentum trace_t = g + 0.9 trace_{t-1};
            # Adam mu_t = 0.9 mu_{t-1} + 0.1 g
            new_m, old_m = self._first_moment(st.opt_state), self._first_moment(prev.opt_state)
            if new_m is None or old_m is None:
              ctx.count('server_grads_unobservable_optimizer_state')
            elif case.get('opt') == 'adam':
              o['server_grads'] = [(a - 0.9 * b) / 0.1 for a, b in zip(new_m, old_m)]
            else:
              o['server_grads'] = [a - 0.9 * b for a, b in zip(new_m, old_m)]
            o['opt_state'] = [float(v) for l in jax.tree_util.tree_leaves(st.opt_state)
                              for v in np.asarray(l, dtype=np.float64).reshape(-1)]
          obs.append(o)
        runs.append(obs)
      except Exception as e:
        fail('raised', f'{api} with statistics-pass geometry {geom} raised {type(e).__name__}: {str(e)[:160]}')
        runs.append(None)

    # ---- reference from the unpadded per-example values (the property, stated directly); its failures are
    # reported after the direct geometry comparison so that a geometry dependence keeps its own classifier key
    ref_fails = []
    fail_now = fail
    fail = lambda k, msg: ref_fails.append((k, msg))
    refs = []
    for gi, obs in enumerate(runs):
      if obs is None:
        refs.append(None)
        continue
      ref_rounds = []
      for rnd, o in enumerate(obs):
        pcv = per_client_values(o['prev_params'])
        if api == 'afa':
          sums = [0.0] * NUM_DOMAINS
          cnts = [0] * NUM_DOMAINS
          for l, _, dom in pcv:
            for v, j in zip(l, dom):
              sums[j] += v
              cnts[j] += 1
          mean = [sums[j] / cnts[j] if cnts[j] else 0.0 for j in range(NUM_DOMAINS)]
          w = [pw * math.exp(ALGO_DOMAIN_LR * m) for pw, m in zip(o['prev_dw'], mean)]
          tot = sum(w)
          ref = {'dw': [v / tot for v in w], 'counts': [float(c) for c in cnts], 'mean_domain_loss': mean}
          if not close(o['counts'], ref['counts'], 0, 0):
            fail('domain-counts', f'round {rnd + 1}, geometry {case["geoms"][gi]}: domain counts {o["counts"]} != '
                                  f'{ref["counts"]} of the (preprocessed) examples')
          if not close(o['dw'], ref['dw']):
            fail('domain-weights', f'round {rnd + 1}, geometry {case["geoms"][gi]}: domain weights {o["dw"]} != '
                                   f'{ref["dw"]} = exponentiated-gradient step on the per-domain mean losses '
                                   f'{mean} of the unpadded examples')
        else:
          _, r = self.reg_values(reg, o['prev_params'], d)
          n = sum(len(l) for l, _, _ in pcv)
          fg = [(sum(gi_[k] for _, g, _ in pcv for gi_ in g) / n + float(r[k])) if n else 0.0 for k in range(d)]
          ref = {'server_grads': fg}
          if 'server_grads' in o and not close(o['server_grads'], fg):
            fail('server-grads', f'round {rnd + 1}, geometry {case["geoms"][gi]}: server full-batch gradient '
                                 f'{o["server_grads"]} (recovered from the base optimizer state) != {fg} = mean '
                                 f'per-example gradient of the unpadded examples + regularizer gradient (once)')
        ref_rounds.append(ref)
      refs.append(ref_rounds)

    # ---- geometry independence, judged directly between the runs
    fail = fail_now
    good = [(g, o) for g, o in zip(case['geoms'], runs) if o is not None]
    for (g1, o1), (g2, o2) in zip(good, good[1:]):
      for rnd in range(case['rounds']):
        for name in ('dw', 'server_grads', 'opt_state', 'params'):
          if name in o1[rnd] and not close(o1[rnd][name], o2[rnd][name]):
            what = {'dw': 'domain weights', 'server_grads': 'server gradient', 'params': 'server params',
                    'opt_state': 'server optimizer state'}[name]
            fail('geometry', f'round {rnd + 1}: {what} depend on the padded batch geometry of the statistics pass: '
                             f'{g1} -> {o1[rnd][name]}, {g2} -> {o2[rnd][name]}')
            break

    for k, msg in ref_fails:
      fail(k, msg)

    # ---- model: the statistics pass of every round on the materialised padded batches
    model_out = []
    for gi, (geom, obs) in enumerate(zip(case['geoms'], runs)):
      if obs is None:
        continue
      for rnd, o in enumerate(obs):
        rows_c = []
        for ds in dss:
          bl = list(ds.padded_batch(batch_size=geom[0], num_batch_size_buckets=geom[1]))
          rows_c.append([self._model_rows(fam, o['prev_params'], b) for b in bl])
        if api == 'afa':
          ans = ctx.drv.ask([line('c06.domains', NUM_DOMAINS, rc) for rc in rows_c])
          sl = [sum(F(a[0][j]) for a in ans) for j in range(NUM_DOMAINS)]
          sn = [sum(F(a[1][j]) for a in ans) for j in range(NUM_DOMAINS)]
          mean = [float(sl[j] / sn[j]) if sn[j] else 0.0 for j in range(NUM_DOMAINS)]
          w = [pw * math.exp(ALGO_DOMAIN_LR * m) for pw, m in zip(o['prev_dw'], mean)]
          mw = [v / sum(w) for v in w]
          model_out.append({'geom': geom, 'round': rnd + 1, 'domain_weights': mw, 'domain_num': [float(v) for v in sn]})
          if not close(o['dw'], mw) or not close(o['counts'], [float(v) for v in sn], 0, 0):
            corr.append(f'round {rnd + 1}, geometry {geom}: implementation domain weights {o["dw"]} / counts '
                        f'{o["counts"]} vs model {mw} / {[float(v) for v in sn]}')
        else:
          _, r = self.reg_values(reg, o['prev_params'], d)
          a = ctx.drv.ask([line('c06.fullgrad', d, r, rows_c)])[0]
          mg = None if a is None else [float(v) for v in a]
          model_out.append({'geom': geom, 'round': rnd + 1, 'server_grads': mg})
          if 'server_grads' in o and (mg is None or not close(o['server_grads'], mg)):
            corr.append(f'round {rnd + 1}, geometry {geom}: implementation server gradient {o["server_grads"]} vs model {mg}')

    n_ex = sum(len(c) for c in clients)
    multi_batch = any(-(-len(c) // g[0]) > 1 for c in clients for g in case['geoms'])
    tags = (f'api={api}', f'fam={fam}', 'reg' if case['reg'] else 'noreg', f'clients={len(clients)}',
            f'rounds={case["rounds"]}', f'opt={case.get("opt")}', 'algo-level',
            'repeated-client-id' if case.get('ids') and len(set(case['ids'])) < len(case['ids']) else 'distinct-client-ids',
            f'preprocessor={case.get("prep")}')
    for obs in runs:
      if obs:
        for o in obs:
          o.pop('prev_params', None)
    return Outcome(oracle_fail='; '.join(problems[:3]) or None, corr_fail='; '.join(corr[:3]) or None, key=key,
                   nontrivial=bool(case['reg']) and multi_batch and n_ex > 1, tags=tags,
                   detail={'impl': runs, 'reference': refs, 'model': model_out})

  def _eval_batch(self, case, ctx):
    fam, dx, api = case['fam'], case['dx'], case['api']
    d = dx + 1
    params = self.mk_params(case['params'])
    reg = self.make_reg(case['reg'], dx)
    rho, r = self.reg_values(reg, params, d)
    rows = case['rows']
    x, y, dom = self._arrays([row[:-1] for row in rows], dx)
    mask = np.array([bool(row[-1]) for row in rows], dtype=bool)
    batch = {'x': x, 'y': y, 'domain_id': dom, self.MK: mask}
    real = [i for i in range(len(rows)) if mask[i]]
    problems, corr, key = [], [], None

    def fail(k, msg):
      nonlocal key
      key = key or f'C06/grad/{k}'
      problems.append(msg)

    gfn = self._grad_fn(case, reg)
    # per-example values on single unpadded examples (JAX, independent of fedjax)
    l_all, g_all = self.per_example(fam, params, x, y)
    real_finite = all(math.isfinite(l_all[i]) and all(math.isfinite(v) for v in g_all[i]) for i in real)
    pad_finite = all(math.isfinite(l_all[i]) and all(math.isfinite(v) for v in g_all[i])
                     for i in range(len(rows)) if i not in real)
    got = unp = None
    try:
      got = self.flat(gfn(params, batch, self.rng))
    except Exception as e:
      fail('raised', f'{api} raised {type(e).__name__}: {str(e)[:120]}')
    want = S = None
    if real_finite:
      n = len(real)
      want = [(sum(fr(g_all[i][k]) for i in real) / n if n else F(0)) + r[k] for k in range(d)]
      S = [(sum(abs(fr(g_all[i][k])) for i in real) / n if n else F(0)) + abs(r[k]) for k in range(d)]
    if got is not None and want is not None:
      if any(not math.isfinite(v) for v in got):
        if not pad_finite:
          fail('nonfinite-on-padding',
               f'gradient {got} is not finite although every real row is finite (expected {[float(v) for v in want]}): '
               f'the per-example loss/gradient is non-finite on a padding row and is multiplied by mask 0')
        else:
          fail('nan', f'gradient {got} is not finite (expected {[float(v) for v in want]})')
      else:
        for k in range(d):
          if abs(got[k] - float(want[k])) > tol(S[k], want[k]):
            fail('value', f'coordinate {k}: padded-batch gradient {got[k]}, mean gradient of the real rows '
                          f'+ regularizer gradient = {float(want[k])}'
                          + (' (no real rows: regularizer gradient only)' if not real else ''))
            break
        if real:
          try:
            unp = self.flat(gfn(params, {'x': x[real], 'y': y[real], 'domain_id': dom[real]}, self.rng))
            for k in range(d):
              if abs(got[k] - unp[k]) > 2 * tol(S[k], want[k]):
                fail('unpadded-mismatch', f'coordinate {k}: padded-batch gradient {got[k]} != gradient of the same '
                                          f'real rows without padding {unp[k]}')
                break
          except Exception as e:
            fail('raised', f'{api} on the unpadded batch raised {type(e).__name__}: {str(e)[:120]}')

    # model
    model = None
    if real_finite and pad_finite:
      mrows = [[bool(mask[i]), fr(l_all[i]), [fr(v) for v in g_all[i]], int(dom[i])] for i in range(len(rows))]
      lines = [line('c06.grad', d, True, mrows, r)]
      if real:
        lines.append(line('c06.grad', d, False, [mrows[i] for i in real], r))
      ans = ctx.drv.ask(lines)
      model = ans[0]
      if [F(v) for v in model] != want:
        corr.append(f'model {model} differs from the harness statement of the property {want}')
      if got is not None and all(math.isfinite(v) for v in got):
        for k in range(d):
          if not abs(got[k] - float(model[k])) <= tol(S[k], model[k]):
            corr.append(f'coordinate {k}: implementation {got[k]} vs model {float(model[k])}')
            break
      if real and unp is not None and ans[1] is not None:
        for k in range(d):
          if not abs(unp[k] - float(ans[1][k])) <= tol(S[k], ans[1][k]):
            corr.append(f'unmasked branch coordinate {k}: implementation {unp[k]} vs model {float(ans[1][k])}')
            break
    else:
      ctx.count('model_skipped_nonfinite_rows')

    nontrivial = False
    if want is not None and pad_finite and len(real) < len(rows):
      n_all = len(rows)
      ignore_mask = [sum(fr(g_all[i][k]) for i in range(n_all)) / n_all + r[k] for k in range(d)]
      count_rows = [sum(fr(g_all[i][k]) for i in real) / n_all + r[k] for k in range(d)]
      wrongs = [ignore_mask, count_rows]
      if case['reg'] is not None:
        wrongs.append([w + r[k] for k, w in enumerate(want)])
      nontrivial = all(any(abs(float(a - b)) > 100 * tol(S[k], b) for k, (a, b) in enumerate(zip(wr, want)))
                       for wr in wrongs)
    tags = (f'api={api}', f'fam={fam}', 'reg' if case['reg'] else 'noreg',
            'all-false' if not real else ('no-padding' if len(real) == len(rows) else 'padded'))
    return Outcome(oracle_fail='; '.join(problems[:3]) or None, corr_fail='; '.join(corr[:3]) or None, key=key,
                   nontrivial=nontrivial, tags=tags,
                   detail={'impl': got, 'impl_unpadded': unp, 'model': model,
                           'expected': None if want is None else [float(v) for v in want]})

  def _eval_dataset(self, case, ctx):
    api, fam, dx = case['api'], case['fam'], case['dx']
    d = dx + 1
    params = self.mk_params(case['params'])
    reg = self.make_reg(case['reg'], dx)
    rho, r = self.reg_values(reg, params, d)
    clients = case['clients']
    cids = [b'c%d' % i for i in range(len(clients))]
    problems, corr, key = [], [], None

    def fail(k, msg):
      nonlocal key
      key = key or f'C06/{api}/{k}'
      problems.append(msg)

    plist = [params] + ([self.mk_params(case['params2'])] if api == 'cluster' else [])
    rhos = [self.reg_values(reg, p, d)[0] for p in plist]
    # first-principles per-example values for every client (and every cluster's params)
    pe = []
    for p in plist:
      per_client = []
      for ex in clients:
        x, y, dom = self._arrays(ex, dx)
        l, g = self.per_example(fam, p, x, y)
        per_client.append(([fr(v) for v in l], [[fr(v) for v in gi] for gi in g], [int(v) for v in dom]))
      pe.append(per_client)

    # ---- expected, stated directly from the property
    def mean_or0(s, n):
      return s / n if n else F(0)
    expected, scale = {}, {}
    if api in ('avg', 'evaluator', 'cluster'):
      for pi in range(len(plist)):
        for ci in range(len(clients)):
          l = pe[pi][ci][0]
          expected[(pi, ci)] = [mean_or0(sum(l), len(l)) + rhos[pi]]
          scale[(pi, ci)] = [mean_or0(sum(abs(v) for v in l), len(l)) + abs(rhos[pi])]
    elif api == 'mime':
      tot_n = 0
      tot_g = [F(0)] * d
      tot_s = [F(0)] * d
      for ci in range(len(clients)):
        l, g, _ = pe[0][ci]
        n = len(l)
        gs = [sum(gi[k] for gi in g) + n * r[k] for k in range(d)]
        ss = [sum(abs(gi[k]) for gi in g) + n * abs(r[k]) for k in range(d)]
        expected[(0, ci)] = gs + [F(n)]
        scale[(0, ci)] = ss + [F(n)]
        tot_n += n
        tot_g = [a + b for a, b in zip(tot_g, gs)]
        tot_s = [a + b for a, b in zip(tot_s, ss)]
      expected['full'] = [mean_or0(v, tot_n) for v in tot_g]
      scale['full'] = [mean_or0(v, tot_n) for v in tot_s]
    else:
      alpha = [F(a) for a in case['alpha']]
      for ci in range(len(clients)):
        l, _, dom = pe[0][ci]
        dl = [sum(v for v, dd in zip(l, dom) if dd == j) for j in range(NUM_DOMAINS)]
        ds_ = [sum(abs(v) for v, dd in zip(l, dom) if dd == j) for j in range(NUM_DOMAINS)]
        dn = [F(sum(1 for dd in dom if dd == j)) for j in range(NUM_DOMAINS)]
        beta = sum(a * n for a, n in zip(alpha, dn))
        expected[(0, ci)] = dl + dn + [beta]
        scale[(0, ci)] = ds_ + dn + [beta]

    # ---- implementation on both layouts
    results, all_batches = [], []
    for li, lay in enumerate(case['layouts']):
      batches = [self._batches(ex, l, dx, fam) for ex, l in zip(clients, lay)]
      all_batches.append(batches)
      try:
        results.append(self._run_api(case, api, plist, reg, cids, clients, lay, batches))
      except Exception as e:
        fail('raised', f'{api} raised {type(e).__name__}: {str(e)[:160]} (layout {lay})')
        results.append(None)
    names = {'avg': ['average loss'], 'evaluator': ['average loss'], 'cluster': ['cluster loss'],
             'mime': [f'grads_sum[{k}]' for k in range(d)] + ['num_sum'],
             'domains': [f'domain_loss[{j}]' for j in range(NUM_DOMAINS)] +
                        [f'domain_num[{j}]' for j in range(NUM_DOMAINS)] + ['beta']}[api]
    for li, res in enumerate(results):
      if res is None:
        continue
      for kk, want in expected.items():
        got = res.get(kk)
        if got is None or len(got) != len(want):
          fail('shape', f'{kk}: output {got} does not have the expected {len(want)} entries')
          continue
        nm = names if kk != 'full' else [f'server_grads[{k}]' for k in range(d)]
        for k in range(len(want)):
          if not math.isfinite(got[k]):
            fail('nan', f'{nm[k]} of {kk} is {got[k]} (expected {float(want[k])}) under layout {case["layouts"][li]}')
            break
          if abs(got[k] - float(want[k])) > tol(scale[kk][k], want[k]):
            fail('value', f'{nm[k]} of {kk}: got {got[k]}, the real examples give {float(want[k])} '
                          f'under layout {case["layouts"][li]}')
            break
    if api == 'cluster':
      for li, res in enumerate(results):
        if res is None or 'assign' not in res:
          continue
        for ci, a in enumerate(res['assign']):
          ls = [expected[(pi, ci)][0] for pi in range(len(plist))]
          if not (0 <= a < len(ls)) or float(ls[a] - min(ls)) > 2 * tol(scale[(a if 0 <= a < len(ls) else 0, ci)][0], ls[0]):
            fail('assignment', f'maximization_step assigns client {ci} to cluster {a}, but its average losses are '
                               f'{[float(v) for v in ls]} (layout {case["layouts"][li]})')
    if results[0] is not None and results[1] is not None and not problems:
      for kk in expected:
        a, b = results[0][kk], results[1][kk]
        for k in range(len(a)):
          if abs(a[k] - b[k]) > 2 * tol(scale[kk][k], expected[kk][k]):
            fail('geometry', f'{kk} entry {k}: {a[k]} under {case["layouts"][0]} but {b[k]} under {case["layouts"][1]}')
            break

    # ---- model on both layouts
    model_out = []
    for li, batches in enumerate(all_batches):
      lines, keys = [], []
      ok = True
      for pi, p in enumerate(plist):
        rows_c = []
        for ci in range(len(clients)):
          rb = [self._model_rows(fam, p, b) for b in batches[ci]]
          if any(x is None for x in rb):
            ok = False
          rows_c.append(rb)
        if not ok:
          break
        for ci in range(len(clients)):
          if api in ('avg', 'evaluator', 'cluster'):
            lines.append(line('c06.avgloss', [[self.MK in b, rb] for b, rb in zip(batches[ci], rows_c[ci])], rhos[pi]))
            keys.append(((pi, ci), 'scalar'))
          elif api == 'mime':
            lines.append(line('c06.mimeclient', d, r, rows_c[ci]))
            keys.append(((pi, ci), 'mime'))
          else:
            lines.append(line('c06.domains', NUM_DOMAINS, rows_c[ci]))
            keys.append(((pi, ci), 'domains'))
        if api == 'mime':
          lines.append(line('c06.fullgrad', d, r, rows_c))
          keys.append(('full', 'list'))
      if not ok:
        continue
      ans = ctx.drv.ask(lines)
      mo = {}
      for (kk, kind), a in zip(keys, ans):
        if kind == 'scalar':
          mo[kk] = [F(a)]
        elif kind == 'mime':
          mo[kk] = [F(v) for v in a[0]] + [F(a[1])]
        elif kind == 'domains':
          dn = [F(v) for v in a[1]]
          mo[kk] = [F(v) for v in a[0]] + dn + [sum(F(al) * n for al, n in zip(case['alpha'], dn))]
        else:
          mo[kk] = None if a is None else [F(v) for v in a]
      model_out.append(mo)
      for kk, want in expected.items():
        if mo.get(kk) != want:
          corr.append(f'model {kk} = {mo.get(kk)} differs from the harness statement of the property {want} '
                      f'(layout {case["layouts"][li]})')
          break
      res = results[li]
      if res is not None:
        for kk in expected:
          m, g = mo.get(kk), res.get(kk)
          if m is None or g is None or len(m) != len(g):
            corr.append(f'{kk}: model {m} vs implementation {g}')
            break
          bad = [k for k in range(len(m)) if not abs(g[k] - float(m[k])) <= tol(scale[kk][k], m[k])]
          if bad:
            corr.append(f'{kk} entry {bad[0]}: implementation {g[bad[0]]} vs model {float(m[bad[0]])}')
            break

    # ---- non-triviality: wrong variants evaluated on the first layout
    nontrivial = self._nontrivial(case, api, all_batches[0], plist, rhos, r, d, expected, scale)
    nb = sum(len(b) for b in all_batches[0])
    tags = (f'api={api}', f'fam={fam}', 'reg' if case['reg'] else 'noreg', f'clients={len(clients)}',
            'empty-client' if any(len(c) == 0 for c in clients) else 'nonempty',
            *sorted({f'layout={l[0]}' for lay in case['layouts'] for l in lay}),
            'fully-padded-batch' if any(self.MK in b and not b[self.MK].any() for bs in all_batches for cb in bs for b in cb) else 'no-fully-padded-batch')
    return Outcome(oracle_fail='; '.join(problems[:3]) or None, corr_fail='; '.join(corr[:3]) or None, key=key,
                   nontrivial=nontrivial, tags=tags,
                   detail={'impl': [None if x is None else {str(k): v for k, v in x.items()} for x in results],
                           'model': [{str(k): (None if v is None else [float(t) for t in v]) for k, v in mo.items()} for mo in model_out],
                           'expected': {str(k): [float(t) for t in v] for k, v in expected.items()}})

  def _run_api(self, case, api, plist, reg, cids, clients, lay, batches):
    """runs the real code; returns {(param index, client index) | 'full': [floats]}"""
    models, fam = self.models, case['fam']
    params = plist[0]
    pel = self.pel[fam]
    out = {}
    if api == 'avg':
      v = models.evaluate_average_loss(params, iter(batches[0]), self.rng, pel, reg)
      out[(0, 0)] = [float(v)]
    elif api == 'evaluator':
      ev = self._cached(('ev', fam, case['reg'], case['dx']), lambda: models.AverageLossEvaluator(pel, reg))
      res = dict(ev.evaluate_global_params(params, [(cid, b, self.rng) for cid, b in zip(cids, batches)]))
      res2 = dict(ev.evaluate_per_client_params([(cid, b, self.rng, params) for cid, b in zip(cids, batches)]))
      for ci, cid in enumerate(cids):
        out[(0, ci)] = [float(res[cid])]
        a, b = float(res[cid]), float(res2[cid])
        if not (a == b or (math.isnan(a) and math.isnan(b)) or abs(a - b) <= 1e-5 * (1 + abs(a))):
          raise AssertionError(f'evaluate_global_params gives {a} but evaluate_per_client_params gives {b} for client {ci}')
    elif api == 'cluster':
      ev = self._cached(('ev', fam, case['reg'], case['dx']), lambda: models.AverageLossEvaluator(pel, reg))
      cds = self.cds
      dss = []
      for ex in clients:
        x, y, dom = self._arrays(ex, case['dx'])
        dss.append(cds.ClientDataset({'x': x, 'y': y, 'domain_id': dom}))
      hp = cds.PaddedBatchHParams(batch_size=lay[0][1], num_batch_size_buckets=lay[0][2])
      cl_arg = [(cid, ds, self.rng) for cid, ds in zip(cids, dss)]
      # per-(client, cluster) losses: the private helper if this tree still has it with this shape, otherwise the
      # public composition it stands for (AverageLossEvaluator on padded_batch(hparams), once per cluster)
      res = None
      helper = getattr(self.hc, '_cluster_losses', None)
      if helper is not None:
        try:
          r_ = helper(ev, plist, cl_arg, hp)
          res = {cid: [float(r_[cid][pi]) for pi in range(len(plist))] for cid in cids}
        except (TypeError, KeyError, IndexError, AttributeError):
          res = None
      if res is None:
        self._ctx.count('cluster_losses_via_public_path')
        res = {cid: [] for cid in cids}
        for p_ in plist:
          r_ = dict(ev.evaluate_global_params(p_, [(cid, ds.padded_batch(hp), self.rng) for cid, ds in zip(cids, dss)]))
          for cid in cids:
            res[cid].append(float(r_[cid]))
      for ci, cid in enumerate(cids):
        for pi in range(len(plist)):
          out[(pi, ci)] = [res[cid][pi]]
      # the public maximisation step: every client goes to a cluster of lowest average loss
      asg = self.hc.maximization_step(ev, plist, cl_arg, hp)
      out['assign'] = [int(asg[cid]) for cid in cids]
    elif api == 'mime':
      gfn = self._grad_fn({**case, 'api': 'grad'}, reg)
      fe = self._cached(('mime', fam, case['reg'], case['dx']), lambda: self.mime.create_grads_for_each_client(gfn))
      outs = dict(fe(params, [(cid, b, self.rng) for cid, b in zip(cids, batches)]))
      for ci, cid in enumerate(cids):
        gs, ns = outs[cid]
        out[(0, ci)] = self.flat(gs) + [float(ns)]
      # the server's combination, exactly as mime.py / mime_lite.py do it
      gtot, ntot = self.tu.tree_sum(outs[cid] for cid in cids)
      out['full'] = self.flat(self.tu.tree_inverse_weight(gtot, ntot))
    else:
      fe = self._cached(('dom', fam), lambda: self.afa.create_domain_metrics_for_each_client(pel, NUM_DOMAINS))
      alpha = self.jnp.array(case['alpha'], dtype=self.jnp.float32)
      outs = dict(fe({'params': params, 'alpha': alpha}, [(cid, b, self.rng) for cid, b in zip(cids, batches)]))
      for ci, cid in enumerate(cids):
        o = outs[cid]
        out[(0, ci)] = ([float(v) for v in np.asarray(o['domain_loss'])] + [float(v) for v in np.asarray(o['domain_num'])]
                        + [float(o['beta'])])
    return out

  def _nontrivial(self, case, api, batches, plist, rhos, r, d, expected, scale):
    """every realistic wrong variant (computed from JAX's per-row values) differs visibly from the right value"""
    MK = self.MK
    has_pad = any(MK in b and not b[MK].all() for cb in batches for b in cb)
    multi = any(len(cb) > 1 for cb in batches)
    if not (has_pad or multi):
      return False
    try:
      ci = max(range(len(batches)), key=lambda i: sum(len(b['y']) for b in batches[i]))
      rows = [self._model_rows(case['fam'], plist[0], b) for b in batches[ci]]
      if any(x is None for x in rows) or not any(rows):
        return False
      flat = [x for rb in rows for x in rb]
      n_all, n_real = len(flat), sum(1 for x in flat if x[0])
      if api in ('avg', 'evaluator', 'cluster'):
        want, S = expected[(0, ci)][0], scale[(0, ci)][0]
        wrongs = []
        if has_pad:
          wrongs.append(sum(x[1] for x in flat) / n_all + rhos[0])                 # mask ignored
          wrongs.append(sum(x[1] for x in flat if x[0]) / n_all + rhos[0])          # rows counted
        if case['reg'] is not None and len(rows) > 1:
          wrongs.append(want + rhos[0] * (len(rows) - 1))                            # regularizer per batch
        return bool(wrongs) and all(abs(float(w - want)) > 100 * tol(S, want) for w in wrongs)
      if api == 'mime':
        want, S = expected[(0, ci)], scale[(0, ci)]
        if not has_pad:
          return n_real > 0
        wr = [sum(x[2][k] for x in flat) + n_all * r[k] for k in range(d)]          # mask ignored
        return any(abs(float(a - b)) > 100 * tol(S[k], b) for k, (a, b) in enumerate(zip(wr, want)))
      want, S = expected[(0, ci)], scale[(0, ci)]
      if not has_pad:
        return n_real > 0
      wr = [sum(x[1] for x in flat if x[3] == j) for j in range(NUM_DOMAINS)]       # segment_sum without mask
      cnt = [sum(1 for x in flat if x[3] == j) for j in range(NUM_DOMAINS)]
      return (any(abs(float(a - b)) > 100 * tol(S[k], b) for k, (a, b) in enumerate(zip(wr, want[:NUM_DOMAINS])))
              and cnt != [int(v) for v in want[NUM_DOMAINS:2 * NUM_DOMAINS]])
    except Exception:
      return False


PROPERTY = C06
