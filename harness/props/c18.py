"""C18 — Walsh–Hadamard transform is exact; structured rotation invertible.

Cases
  wht : walsh_hadamard_transform(x, small_n) on a vector of length n with an explicit (positional or
        keyword) or defaulted block size; valid and invalid (n, small_n) combinations.
  rot : structured_rotation / inverse_structured_rotation on an array of any shape, one key
        (+ a second key for the "different keys" clause on inputs with >= 64 non-zero entries).
  probe: a child process (props/c18_probe.py) runs transform / rotation / tree round trips under a non-default
        but legal JAX configuration (jax_enable_x64: float64/int64 inputs at 1e-12; jax_threefry_partitionable=False:
        the classic threefry stream); judged here against exact references.
  tree: the _pytree versions on container trees drawn from dict / list / tuple / namedtuple / None and empty
        containers, nested (tuple at the root, dict of (w, b) tuples, list of namedtuple layers, a bare leaf, ...).

The oracle states the property directly on the real outputs (classical butterfly FWHT in exact
integer/rational arithmetic, norms, round trips); the model comparison asks the compiled Lean model.
"""
import math
import os
import random
import sys
from fractions import Fraction

import numpy as np

from vlib import core
from vlib.core import Outcome, line

MODEL_COST_LIMIT = 9_000_000     # n * sum(axis sizes) the Lean model is asked for (thorough tier)
MODEL_COST_LIMIT_QUICK = 3_000_000   # quick tier: the longest vectors with the widest blocks are judged by the oracle only


# ------------------------------------------------------------------------------------------------
# independent reference (not shared with the model): textbook in-place butterflies, natural order


def fwht_ref(v):
  """H_n v in exact arithmetic (python ints / Fractions), n a power of two."""
  a = list(v)
  n = len(a)
  h = 1
  while h < n:
    for i in range(0, n, 2 * h):
      for j in range(i, i + h):
        x, y = a[j], a[j + h]
        a[j], a[j + h] = x + y, x - y
    h *= 2
  return a


def fwht_ref_np(v):
  """same butterflies vectorised (int64 / float64 numpy), for long vectors"""
  a = np.array(v)
  n = a.shape[0]
  h = 1
  while h < n:
    a = a.reshape(n // (2 * h), 2, h)
    a = np.stack([a[:, 0, :] + a[:, 1, :], a[:, 0, :] - a[:, 1, :]], axis=1)
    h *= 2
  return a.reshape(n)


def sylvester_entry(i, j):
  return -1 if bin(i & j).count('1') % 2 else 1


def is_pow2(n):
  return n >= 1 and n & (n - 1) == 0


def ilog2(n):
  return n.bit_length() - 1


def gen_vector(spec):
  """spec = explicit list of [num, den] pairs / ints, or {'seed', 'n', 'mag', 'den', 'kind'}."""
  if isinstance(spec, list):
    return [Fraction(*e) if isinstance(e, list) else Fraction(e) for e in spec]
  r = random.Random(spec['seed'])
  n, mag, den = spec['n'], spec.get('mag', 8), spec.get('den', 1)
  kind = spec.get('kind', 'uniform')
  if kind == 'unit':
    j = r.randrange(n)
    return [Fraction(int(i == j)) for i in range(n)]
  if kind == 'nonzero':
    return [Fraction(r.choice([-1, 1]) * r.randrange(1, mag + 1), den) for _ in range(n)]
  if kind == 'ramp':
    return [Fraction(i % (2 * mag + 1) - mag, den) for i in range(n)]
  if kind == 'range':
    return [Fraction(r.randrange(spec['lo'], spec['hi'] + 1)) for _ in range(n)]
  if kind == 'dominant':
    # non-negative, first entry >= sum of the others: every entry of H x is >= 0 (unsigned dtypes)
    rest = [r.randrange(0, mag + 1) for _ in range(max(n - 1, 0))]
    return [Fraction(v) for v in ([sum(rest) + r.randrange(0, 4)] + rest)[:n]]
  if kind == 'big':
    # integers of magnitude ~mag (top bits set), so that partial sums leave the float32-exact range
    return [Fraction(r.choice([-1, 1]) * r.randrange(mag // 2, mag + 1)) for _ in range(n)]
  return [Fraction(r.randrange(-mag, mag + 1), den) for _ in range(n)]


# narrow / unsigned / boolean array dtypes (quantisation levels, masks): full-range entries, so that any
# arithmetic carried out in the input dtype instead of on the values as numbers wraps or saturates
NARROW_RANGES = {'bool': (0, 1), 'uint8': (0, 255), 'uint16': (0, 65535), 'uint32': (0, 2 ** 20), 'int8': (-128, 127),
                 'int16': (-32768, 32767)}


def narrow_xspec(rng, dt, n):
  lo, hi = NARROW_RANGES[dt]
  return {'seed': rng.randrange(2 ** 31), 'n': n, 'kind': 'range', 'lo': lo, 'hi': hi}


def typed_values(xq, dtype, shape):
  """(numpy array of the dtype, its entries as exact numbers)"""
  if dtype == 'float32':
    a = np.array([float(v) for v in xq], dtype=np.float32).reshape(shape)
    return a, list(xq)
  a = np.array([int(v) for v in xq]).astype(dtype).reshape(shape)
  return a, [Fraction(int(v)) for v in a.reshape(-1)]


def recover_diag(y_ones, n):
  """The rotation is linear: rot(x) = H·D·pad(x)/sqrt(d). From y = rot(ones of size n) (length d) the diagonal is
  D[:n] = (H·(sqrt(d)·y))/d; entries n.. multiply the zero padding and are not observable (returned as +1).
  Returns (signs or None, message): signs is a list of ±1 of length d when the recovered vector is a ±1 diagonal on
  the first n entries and 0 on the padding (within float32 rounding), else None with what was found."""
  y = np.asarray(y_ones, dtype=np.float64).reshape(-1)
  d = y.shape[0]
  if d < n or not is_pow2(d):
    return None, f'rotated length {d} is not a power of two >= {n}'
  v = fwht_ref_np(y * math.sqrt(d)) / d
  r = np.rint(v)
  if np.max(np.abs(v - r)) > 0.05:
    i = int(np.argmax(np.abs(v - r)))
    return None, f'H·(sqrt(d)·rot(ones)) / d has the non-integer entry {v[i]!r} at index {i}'
  bad = [i for i in range(n) if abs(r[i]) != 1]
  if bad:
    return None, f'the diagonal recovered from rot(ones) has entry {int(r[bad[0]])} at index {bad[0]} (must be +1 or -1)'
  if d > n and np.any(r[n:] != 0):
    i = n + int(np.argmax(r[n:] != 0))
    return None, f'rot(ones) has a component {int(r[i])} on the padding position {i}'
  return [int(t) for t in r[:n]] + [1] * (d - n), ''


def exc_class(e):
  n = type(e).__name__
  if n in ('ValueError', 'TypeError'):
    return n
  return n


def close(impl, model, scale):
  return abs(float(impl) - float(model)) <= 1e-5 * float(scale) + 1e-4 * abs(float(model))


def shape_size(shape):
  s = 1
  for d in shape:
    s *= d
  return s


# ------------------------------------------------------------------------------------------------
# parameter-tree specs (JSON):  ["same", i] (the same array object as the i-th leaf) | ["leaf", shape, xspec] | ["dict", [[key, node], ...]] | ["list", [node, ...]]
#   | ["tuple", [node, ...]] | ["nt", typename, [node, ...]] (a namedtuple) | ["none"] (None: a node without leaves)

import collections

Dense = collections.namedtuple('Dense', ['w', 'b'])
Conv = collections.namedtuple('Conv', ['kernel', 'bias', 'scale'])
Wrap = collections.namedtuple('Wrap', ['inner'])
NT_TYPES = {'Dense': Dense, 'Conv': Conv, 'Wrap': Wrap}
LEAF_SHAPES = [[], [1], [2], [3], [5], [2, 3], [4], [3, 3], [8], [2, 2], [1, 7]]


def spec_build(spec, mk):
  """builds the Python container tree; `mk(leaf_spec)` makes the leaf object (once per "leaf" node);
  ["same", i] puts the SAME object as the i-th "leaf" node (spec order) at a further position (tied weights)"""
  leaves = spec_all_leaves(spec)
  objs = {id(l): mk(l) for l in leaves}

  def go(sp):
    t = sp[0]
    if t == 'leaf':
      return objs[id(sp)]
    if t == 'same':
      return objs[id(leaves[sp[1]])]
    if t == 'none':
      return None
    if t == 'dict':
      return {k: go(v) for k, v in sp[1]}
    if t == 'list':
      return [go(v) for v in sp[1]]
    if t == 'tuple':
      return tuple(go(v) for v in sp[1])
    if t == 'nt':
      return NT_TYPES[sp[1]](*[go(v) for v in sp[2]])
    raise ValueError(f'bad tree spec node {t}')
  return go(spec)


def spec_valid(spec):
  n = len(spec_all_leaves(spec))

  def ok(sp):
    if sp[0] == 'same':
      return isinstance(sp[1], int) and 0 <= sp[1] < n
    return all(ok(c) for c in spec_children(sp))
  return ok(spec)


def spec_children(spec):
  t = spec[0]
  if t == 'dict':
    return [v for _, v in spec[1]]
  if t in ('list', 'tuple'):
    return list(spec[1])
  if t == 'nt':
    return list(spec[2])
  return []


def spec_with_children(spec, kids):
  t = spec[0]
  if t == 'dict':
    return ['dict', [[k, c] for (k, _), c in zip(spec[1], kids)]]
  if t in ('list', 'tuple'):
    return [t, list(kids)]
  if t == 'nt':
    return ['nt', spec[1], list(kids)]
  return spec


def spec_all_leaves(spec):
  if spec[0] == 'leaf':
    return [spec]
  return [l for c in spec_children(spec) for l in spec_all_leaves(c)]


def spec_kinds(spec, depth=0, out=None):
  """container kinds with their depth (for the input-distribution histogram)"""
  out = set() if out is None else out
  if spec[0] == 'same':
    out.add('shared-leaf')
  elif spec[0] != 'leaf':
    out.add(spec[0] + ('@root' if depth == 0 else ''))
    if not spec_children(spec) and spec[0] != 'none':
      out.add('empty-' + spec[0])
  elif depth == 0:
    out.add('bare-leaf')
  for c in spec_children(spec):
    spec_kinds(c, depth + 1, out)
  return out


def spec_shrinks(spec):
  """smaller / simpler trees: a child instead of the node, a child dropped, tuple/namedtuple/dict -> list,
  smaller leaves; applied at every position"""
  t = spec[0]
  kids = spec_children(spec)
  for c in kids:
    yield c
  if t in ('list', 'tuple', 'dict') and len(kids) > 0:
    for i in range(len(kids)):
      if t == 'dict':
        yield ['dict', spec[1][:i] + spec[1][i + 1:]]
      else:
        yield [t, kids[:i] + kids[i + 1:]]
  if t in ('tuple', 'nt', 'dict'):
    yield ['list', kids]
  if t == 'nt':
    yield ['tuple', kids]
  if t == 'leaf':
    shape = spec[1]
    for sh in ([], [1], [2]):
      if shape_size(sh) < shape_size(shape) or (shape_size(sh) == shape_size(shape) and len(sh) < len(shape)):
        x = spec[2]
        x2 = {**x, 'n': shape_size(sh)} if isinstance(x, dict) else list(x)[:shape_size(sh)]
        yield ['leaf', sh, x2] + list(spec[3:])
    if len(spec) > 3 and spec[3] != 'float32' and isinstance(spec[2], dict) and spec[2].get('kind') != 'range':
      yield spec[:3]
  for i, c in enumerate(kids):
    for c2 in spec_shrinks(c):
      yield spec_with_children(spec, kids[:i] + [c2] + kids[i + 1:])


def legacy_tree_spec(case):
  """cases written before the spec format: struct in {list, dict, nested} + shapes + xs"""
  leaves = [['leaf', list(sh), x] for sh, x in zip(case['shapes'], case['xs'])]
  st = case['struct']
  if st == 'list':
    return ['list', leaves]
  if st == 'dict':
    return ['dict', [[f'p{i}', l] for i, l in enumerate(leaves)]]
  if len(leaves) == 1:
    return ['dict', [['a', ['dict', [['w', leaves[0]]]]]]]
  if len(leaves) == 2:
    return ['dict', [['a', ['dict', [['b', leaves[0]], ['w', leaves[1]]]]]]]
  return ['dict', [['a', ['dict', [['b', leaves[0]], ['w', leaves[1]]]]], ['z', ['list', leaves[2:]]]]]


def gen_leaf(rng, shape=None, dtype=None):
  """["leaf", shape, xspec] (float32) or ["leaf", shape, xspec, dtype]"""
  shape = list(rng.choice(LEAF_SHAPES)) if shape is None else list(shape)
  if dtype is None and shape is not None and rng.random() < 0.2:
    dtype = rng.choice(sorted(NARROW_RANGES) + ['int32'])
  if dtype in NARROW_RANGES:
    return ['leaf', shape, narrow_xspec(rng, dtype, shape_size(shape)), dtype]
  leaf = ['leaf', shape, {'seed': rng.randrange(2 ** 31), 'n': shape_size(shape), 'mag': 8,
                          'kind': rng.choice(['uniform', 'uniform', 'nonzero'])}]
  return leaf + [dtype] if dtype else leaf


def gen_spec(rng, depth, budget):
  """random container tree over dict / list / tuple / namedtuple / None / empty containers.
  `budget` = one-element list with the remaining number of leaves."""
  if len(budget) > 1 and budget[1] > 0 and rng.random() < 0.12:
    return ['same', rng.randrange(budget[1])]
  if depth == 0 or budget[0] <= 0 or rng.random() < 0.25:
    if budget[0] <= 0:
      return rng.choice([['none'], ['dict', []], ['list', []], ['tuple', []]])
    budget[0] -= 1
    if len(budget) > 1:
      budget[1] += 1
    return gen_leaf(rng)
  t = rng.choice(['dict', 'list', 'tuple', 'tuple', 'nt', 'nt', 'dict', 'list', 'tuple', 'none-or-empty'])
  if t == 'none-or-empty':
    return rng.choice([['none'], ['dict', []], ['list', []], ['tuple', []]])
  if t == 'nt':
    name = rng.choice(['Dense', 'Dense', 'Conv', 'Wrap'])
    return ['nt', name, [gen_spec(rng, depth - 1, budget) for _ in NT_TYPES[name]._fields]]
  n = rng.choice([1, 2, 2, 3])
  kids = [gen_spec(rng, depth - 1, budget) for _ in range(n)]
  if t == 'dict':
    keys = rng.sample(['w', 'b', 'dense0', 'dense1', 'layer', 'z', 'a', 'kernel'], n)
    return ['dict', [[k, c] for k, c in zip(keys, kids)]]
  return [t, kids]


def fixed_tree_specs(rng):
  """the container shapes real parameter trees have (haiku dicts, stax tuples, namedtuple layer records)"""
  L = lambda sh=None: gen_leaf(rng, sh, 'float32')
  return [
      ['dict', [['p0', L([2, 3])], ['p1', L([2, 2])]]],                                   # flat dict
      ['dict', [['a', ['dict', [['b', L([])], ['w', L([5])]]]], ['z', ['list', [L([3, 3])]]]]],
      ['tuple', [L([3, 4]), L([4])]],                                                      # tuple at the root
      ['dict', [['dense0', ['tuple', [L([3, 2]), L([2])]]], ['dense1', ['tuple', [L([2, 2]), L([2])]]]]],
      ['list', [['nt', 'Dense', [L([2, 2]), L([2])]], ['nt', 'Dense', [L([2, 1]), L([1])]]]],   # namedtuple layers
      L([5]),                                                                              # a single bare leaf
      L([]),                                                                               # a bare scalar
      ['dict', [['a', ['dict', []]], ['b', ['list', []]], ['c', ['tuple', []]], ['n', ['none']], ['w', L([3])]]],
      ['dict', []], ['tuple', []], ['list', []], ['none'],                                 # trees without leaves
      ['nt', 'Dense', [L([2, 3]), L([])]],                                                 # namedtuple at the root
      ['tuple', [['tuple', [L([2]), L([3])]], ['tuple', [L([])]]]],                        # tuple of tuples
      ['dict', [['enc', ['list', [['tuple', [L([2, 2]), L([2])]], ['nt', 'Dense', [L([2, 2]), L([2])]]]]],
                ['dec', ['dict', [['k', ['tuple', [L([4])]]]]]]]],
      ['nt', 'Wrap', [['nt', 'Conv', [L([2, 2]), L([2]), L([])]]]],
      ['list', [['tuple', []], ['tuple', [L([1])]], ['none'], L([2])]],
      ['tuple', [L([3])]],                                                                 # 1-tuple
      # tied weights: the SAME array object at several leaf positions
      ['list', [L([5]), L([3, 2]), ['same', 0]]],                                          # [b, w, b]
      ['dict', [['embed', L([8, 4])], ['head', ['dict', [['b', L([4])], ['proj', ['same', 0]]]]]]],
      ['tuple', [L([7]), ['same', 0], ['nt', 'Dense', [['same', 0], L([2])]]]],
  ]


class C18(core.Property):
  ID = 'C18'
  RULE = ('cases: wht (length 2^k, k=0..14, block size 2^1..2^11 explicit positional/keyword or defaulted, '
          'integer / dyadic / unit / float vectors, int8/uint8/int16/int32 inputs whose H x is exactly representable incl. int32 results beyond 2^24, plus invalid lengths and block sizes), rot (array shapes of '
          'size >= 1 incl. 0-d, non-powers of two, multi-dimensional, sizes with padded length 16384 = 128^2; full-range bool/uint/int8/int16 dtypes), tree (containers dict/list/tuple/namedtuple/None/empty, nested to depth 3, 0..6 leaves incl. 0-d, bare leaf, the same array object at several leaf positions), dsweep (rotation of ones for 180 (quick) / 2100 (thorough) keys: sign diagonal ±1, round trip, pairwise different); '
          'non-trivial = transform of a non-constant vector of length >= 4 whose result differs from the input, '
          'from the bit-reversed-order transform and from the input scaled; rotations: size >= 2 and x != 0; '
          'two child-process probes per run (x64: float64/int64 transforms and rotation round trips at 1e-12; classic threefry stream: rotation/tree round trips on non-power-of-two sizes); distinct by case digest')
  TRUSTED = ['the sign diagonal D of a key is NOT predicted by the harness: it is recovered from the implementation through the '
             'public API (rotation of the all-ones array / tree with the same key), checked to be a ±1 diagonal that is the '
             'same on repeated calls, and the model is run with that D; which pattern a key gives and how leaf keys are '
             'derived are not fixed. "different keys give different rotations" is judged only on inputs with >= 64 '
             'non-zero entries (collision probability 2^-64)',
             'XLA float32 einsum (inputs are small integers / dyadic rationals so the comparison is exact below 2^24; '
             'float inputs use the tolerance policy)',
             'the two 1/sqrt(d) factors are carried symbolically in the theorems (c*c*d = 1; instantiated with '
             'Real.sqrt in C18_real_rotation); the harness compares sqrt(d)*output with the rational model']
  ASSUMPTIONS = ['block sizes are "valid" when they are powers of two >= 2 and the schedule has at most 8 axes '
                 '(the code documents and explicitly rejects the rest); array sizes <= 2^56']
  QUICK_BUDGET_S = 150
  THOROUGH_BUDGET_S = 600

  def setup(self, ctx):
    import jax
    import jax.numpy as jnp
    from fedjax.aggregators import walsh_hadamard as wh
    self.jax, self.jnp, self.wh = jax, jnp, wh

  # ---------------------------------------------------------------------------------------------
  # generation

  def gen_cases(self, rng, tier):
    # 0-d / tiny rotations and trees first: cheap, and they hit the scalar-parameter path
    for shape in ([], [1], [5], [3, 4], [2, 3, 5], [129], [64], [1, 1], [2], [7, 1, 3]):
      yield self._rot_case(rng, shape)
    # every narrow / unsigned / boolean dtype on a padded and an unpadded size
    for dt in sorted(NARROW_RANGES):
      for shape in ([5], [4, 4]) + (([], [3, 11], [129]) if tier == 'thorough' else ()):
        yield {'kind': 'rot', 'shape': list(shape), 'key': rng.randrange(2 ** 31), 'key2': rng.randrange(2 ** 31),
               'dtype': dt, 'x': narrow_xspec(rng, dt, shape_size(shape))}
    yield {'kind': 'tree', 'key': rng.randrange(2 ** 31), 'spec': ['dict', [
        ['levels', ['tuple', [gen_leaf(rng, [3, 3], 'uint8'), gen_leaf(rng, [6], 'int8')]]],
        ['mask', gen_leaf(rng, [5], 'bool')], ['w', gen_leaf(rng, [2, 3])],
        ['q', ['nt', 'Dense', [gen_leaf(rng, [7], 'int16'), gen_leaf(rng, [], 'uint16')]]]]]}
    for spec in fixed_tree_specs(rng):
      yield {'kind': 'tree', 'spec': spec, 'key': rng.randrange(2 ** 31), 'key2': rng.randrange(2 ** 31)}
    # padded length 16384 = 128^2: the only sizes below 2^20 whose schedule at the default block has two equal
    # axes (sizes 8193..16384); one array and one tree leaf per run, more in the thorough tier
    big_shapes = [[100, 100], [8193]] + ([[128, 128], [16384], [10000], [90, 100]] if tier == 'thorough' else [])
    for shape in big_shapes:
      c = self._rot_case(rng, shape)
      yield {**c, 'dtype': 'float32', 'x': {'seed': rng.randrange(2 ** 31), 'n': shape_size(shape), 'mag': 8, 'kind': 'nonzero'}}
    yield {'kind': 'tree', 'key': rng.randrange(2 ** 31), 'key2': rng.randrange(2 ** 31), 'spec': ['dict', [
        ['a', gen_leaf(rng, [128, 128] if tier == 'thorough' else [96, 100], 'float32')], ['b', gen_leaf(rng, [100], 'float32')],
        ['c', ['tuple', [gen_leaf(rng, [3000], 'float32'), gen_leaf(rng, [64], 'float32')]]]]]}
    # the sign diagonal is ±1 for many keys on a long vector (a draw that is neither +1 nor -1 makes the rotation
    # singular); also: different keys, different diagonals
    yield {'kind': 'dsweep', 'n': 16384, 'keys': [rng.randrange(2 ** 31) for _ in range(120 if tier == 'quick' else 1500)]}
    yield {'kind': 'dsweep', 'n': 1000, 'keys': [rng.randrange(2 ** 31) for _ in range(60 if tier == 'quick' else 600)]}
    # non-default JAX configurations run in child processes, started now and collected after the grid
    probes = [self._probe_case(rng, 'x64', tier), self._probe_case(rng, 'threefry0', tier)]
    yield {'kind': 'probe-start', 'probes': probes}
    # integer dtypes: entries and partial sums fit the dtype, H x must be exact (int32 beyond 2^24)
    int_cases = [('int32', 8, None), ('int32', 10, 2), ('int32', 10, None), ('int32', 9, 3), ('int8', 4, None),
                 ('int8', 3, 1), ('uint8', 3, None), ('uint8', 4, 2), ('int16', 6, 3), ('uint32', 5, None)]
    if tier == 'thorough':
      int_cases += [('int32', k, s) for k in (8, 9, 11, 12, 13, 14) for s in (None, 2, 4, 8)] + \
                   [(dt, k, s) for dt in ('int8', 'uint8', 'int16', 'uint16') for k in (1, 2, 3, 4) for s in (None, 1, 2)]
    for dt, k, s in int_cases:
      yield self._wht_int_case(rng, dt, k, s)
    # the (length, block size) grid of the property text: 2^0..2^14 x (default, 2^1..2^8)
    ks = list(range(0, 15))
    ss = [None] + list(range(1, 9))
    grid = [(k, s) for k in ks for s in ss]
    if tier == 'quick':
      # all pairs with k <= 10, a seeded half of the long ones
      grid = [(k, s) for (k, s) in grid if k <= 10 or rng.random() < 0.5]
    rng.shuffle(grid)
    for idx, (k, s) in enumerate(grid):
      yield self._wht_case(rng, k, s, idx)
    for pc in probes:
      yield pc
    # invalid combinations (the code must reject them; classes compared with the model)
    for n, small in ((8, 1), (8, 0), (8, -2), (6, None), (12, 4), (8, 6), (36, 6), (0, None), (0, 2), (512, 2),
                     (1024, 2), (3, 2), (8, 3)):
      yield {'kind': 'wht', 'n': n, 'small': small, 'kw': bool(rng.randrange(2)),
             'x': {'seed': rng.randrange(2 ** 31), 'n': n}}
    n_rand = 60 if tier == 'quick' else 1000
    for i in range(n_rand):
      t = rng.randrange(10)
      if t < 4:
        k = rng.randrange(0, 11)
        s = rng.choice([None, 1, 2, 3, 4, 5, 6, 7, 8, 9, 10, 11])
        if rng.random() < 0.15:
          yield self._wht_int_case(rng, rng.choice(['int32', 'int32', 'int8', 'uint8', 'int16']), k, s)
        else:
          yield self._wht_case(rng, k, s, i)
      elif t < 7:
        nd = rng.choice([0, 1, 1, 2, 2, 3])
        shape = [rng.choice([1, 2, 3, 4, 5, 7, 8, 9, 16, 17, 33]) for _ in range(nd)]
        if shape_size(shape) > 4096:
          shape = shape[:1]
        yield self._rot_case(rng, shape)
      elif t < 9:
        yield {'kind': 'tree', 'spec': gen_spec(rng, rng.choice([1, 2, 2, 3]), [rng.choice([1, 2, 3, 4, 5]), 0]),
               'key': rng.randrange(2 ** 31), 'key2': rng.randrange(2 ** 31)}
      else:
        yield {'kind': 'rot', 'shape': rng.choice([[0], [2, 0]]), 'key': rng.randrange(2 ** 31), 'dtype': 'float32',
               'x': {'seed': 0, 'n': 0}}
    if tier == 'thorough':
      # exhaustive small scope: every unit vector (= every column of H) for n <= 128, every block size
      for k in range(0, 8):
        for s in [None] + list(range(1, 9)):
          yield {'kind': 'columns', 'k': k, 'small': None if s is None else 2 ** s}
      for size in range(1, 40):
        yield self._rot_case(rng, [size])
      for k, s in ((7, 1), (14, 2)):
        yield {**self._wht_case(rng, k, s, 1), 'force_jit': True}

  def _wht_case(self, rng, k, s, idx):
    n = 2 ** k
    kind = rng.choice(['uniform', 'uniform', 'uniform', 'unit', 'ramp', 'float'])
    den = rng.choice([1, 1, 2, 8])
    mag = 8 if k <= 10 else 4
    return {'kind': 'wht', 'n': n, 'small': None if s is None else 2 ** s, 'kw': bool(idx % 2),
            'x': {'seed': rng.randrange(2 ** 31), 'n': n, 'mag': mag, 'den': den, 'kind': kind},
            'extra': idx % 3 == 0}

  def _wht_int_case(self, rng, dt, k, s):
    info = np.iinfo(dt)
    if info.bits <= 16:
      k = min(k, 4 if info.bits == 8 else 8)
    n = 2 ** k
    if info.min == 0:
      x = {'seed': rng.randrange(2 ** 31), 'n': n, 'kind': 'dominant', 'mag': max(1, min(3, (info.max - 3) // (2 * n)))}
    else:
      mag = min(2 ** 20, info.max // n)
      x = {'seed': rng.randrange(2 ** 31), 'n': n, 'kind': 'big' if mag >= 2 else 'uniform', 'mag': max(mag, 1)}
    return {'kind': 'wht', 'n': n, 'small': None if s is None else 2 ** s, 'kw': bool(rng.randrange(2)), 'x': x,
            'dtype': dt, 'extra': False}

  def _probe_case(self, rng, mode, tier):
    """items for one child process running under a non-default JAX configuration (explicit values)"""
    g = random.Random(rng.randrange(2 ** 31))
    vec = lambda n: [g.gauss(0, 1) * g.choice([1, 1, 8, 1 / 16]) for _ in range(n)]
    items = []
    more = tier == 'thorough'
    if mode == 'x64':
      fdt = 'float64'
      for k, small in [(3, None), (8, None), (10, 4)] + ([(6, 2), (12, None), (9, 8)] if more else []):
        items.append({'op': 'wht', 'dtype': 'float64', 'x': vec(2 ** k), 'small': small})
      items.append({'op': 'wht', 'dtype': 'float64', 'x': [float(g.randrange(-2 ** 40, 2 ** 40)) for _ in range(64)], 'small': None})
      items.append({'op': 'wht', 'dtype': 'int64', 'x': [g.randrange(-2 ** 40, 2 ** 40) for _ in range(128)], 'small': 4})
      shapes = [[], [5], [3, 4], [129]] + ([[7], [2, 3, 5], [64], [1]] if more else [])
    else:
      fdt = 'float32'
      # non-powers of two of size >= 5 are where a sign stream that depends on the requested length shows
      shapes = [[5], [6], [7], [3, 3], [2, 3, 5], [33], [129], [], [4], [3]] + \
               ([[s] for s in range(9, 32)] + [[5, 5], [100], [1000]] if more else [])
    for sh in shapes:
      items.append({'op': 'rot', 'dtype': fdt, 'shape': sh, 'x': vec(shape_size(sh)), 'key': g.randrange(2 ** 31)})
    L = lambda sh: ['leaf', sh, vec(shape_size(sh))]
    trees = [['tuple', [L([5]), L([3])]], ['dict', [['dense', ['nt', 'Dense', [L([3, 2]), L([])]]], ['out', ['list', [L([7])]]]]]]
    if more:
      trees += [L([6]), ['list', [['tuple', [L([9]), L([2, 5])]], ['none'], L([1])]]]
    for t in trees:
      items.append({'op': 'tree', 'dtype': fdt, 'spec': t, 'key': g.randrange(2 ** 31)})
    return {'kind': 'probe', 'mode': mode, 'items': items}

  def _rot_case(self, rng, shape):
    size = shape_size(shape)
    kind = 'nonzero' if size >= 64 or rng.random() < 0.3 else 'uniform'
    u = rng.random()
    dtype = 'int32' if u < 0.1 else ('float32' if u < 0.75 else rng.choice(sorted(NARROW_RANGES)))
    x = {'seed': rng.randrange(2 ** 31), 'n': size, 'mag': 8, 'den': rng.choice([1, 1, 4]) , 'kind': kind}
    if dtype in NARROW_RANGES:
      x = narrow_xspec(rng, dtype, size)
    return {'kind': 'rot', 'shape': list(shape), 'key': rng.randrange(2 ** 31), 'key2': rng.randrange(2 ** 31),
            'dtype': dtype, 'x': x}

  def shrink(self, case):
    kind = case['kind']
    if kind == 'wht':
      n = case['n']
      if isinstance(case['x'], dict):
        for alt in ('unit', 'ramp'):
          if case['x'].get('kind') != alt and case['x'].get('kind') != 'unit':
            yield {**case, 'x': {**case['x'], 'kind': alt, 'den': 1}}
      if case.get('extra'):
        yield {**case, 'extra': False}
      if n > 1 and is_pow2(n):
        for m in sorted({1, 2, n // 4, n // 2}):
          if 1 <= m < n:
            x = case['x']
            x2 = {**x, 'n': m} if isinstance(x, dict) else x[:m]
            yield {**case, 'n': m, 'x': x2}
      sm = case['small']
      if sm is not None and sm > 2 and is_pow2(sm):
        yield {**case, 'small': sm // 2}
        yield {**case, 'small': 2}
    elif kind == 'rot':
      shape = case['shape']
      for i in range(len(shape)):
        yield self._reshape(case, shape[:i] + shape[i + 1:])
        for c in sorted({1, shape[i] // 2, shape[i] - 1}):
          if 1 <= c < shape[i]:
            yield self._reshape(case, shape[:i] + [c] + shape[i + 1:])
      if case.get('dtype') != 'float32':
        yield {**case, 'dtype': 'float32'}
    elif kind == 'dsweep':
      ks = case['keys']
      if len(ks) > 1:
        yield {**case, 'keys': ks[:len(ks) // 2]}
        yield {**case, 'keys': ks[len(ks) // 2:]}
        for k in ks[:40]:
          yield {**case, 'keys': [k]}
    elif kind == 'probe':
      items = case['items']
      if len(items) > 1:
        for it in items:
          yield {**case, 'items': [it]}
      elif items and items[0]['op'] == 'wht' and len(items[0]['x']) > 2:
        it = items[0]
        yield {**case, 'items': [{**it, 'x': it['x'][:len(it['x']) // 2]}]}
    elif kind == 'tree':
      spec = case['spec'] if 'spec' in case else legacy_tree_spec(case)
      base = {k: v for k, v in case.items() if k not in ('struct', 'shapes', 'xs')}
      seen = set()
      for sp in spec_shrinks(spec):
        if not spec_valid(sp):
          continue
        d = core.case_digest(sp)
        if d not in seen:
          seen.add(d)
          yield {**base, 'spec': sp}

  def _reshape(self, case, shape):
    x = case['x']
    size = shape_size(shape)
    x2 = {**x, 'n': size} if isinstance(x, dict) else (x + [0] * size)[:size]
    return {**case, 'shape': shape, 'x': x2}

  # ---------------------------------------------------------------------------------------------
  # evaluation

  def evaluate(self, case, ctx):
    kind = case['kind']
    if kind == 'wht':
      return self._eval_wht(case, ctx)
    if kind == 'columns':
      return self._eval_columns(case, ctx)
    if kind == 'rot':
      return self._eval_rot(case, ctx)
    if kind == 'tree':
      return self._eval_tree(case, ctx)
    if kind == 'dsweep':
      return self._eval_dsweep(case, ctx)
    if kind == 'probe-start':
      for pc in case['probes']:
        self._probe_start(pc)
      return Outcome(nontrivial=False, tags=('probe:start',))
    if kind == 'probe':
      return self._eval_probe(case, ctx)
    raise core.InfraError(f'unknown case kind {kind}')

  def _call_wht(self, arr, small, kw, eager=False):
    """The public entry point. `eager`: inside jax.disable_jit() — used only for schedules with >= 7 axes,
    whose XLA:CPU compilation takes 10 s (7 axes) to 6 min (8 axes) in the pinned environment; the
    Python body that runs is the same, only the outer jit wrapper is bypassed."""
    wh = self.wh
    import contextlib
    cm = self.jax.disable_jit() if eager else contextlib.nullcontext()
    try:
      with cm:
        if small is None:
          y = wh.walsh_hadamard_transform(arr)
        elif kw:
          y = wh.walsh_hadamard_transform(arr, small_n=small)
        else:
          y = wh.walsh_hadamard_transform(arr, small)
        return np.asarray(y), None
    except Exception as e:   # pylint: disable=broad-except
      return None, e

  @staticmethod
  def _axes(n, small):
    """number of axes of the code's schedule (independent re-computation of the while loop's length)"""
    if small < 2 or n < 1:
      return 0
    c = 0
    while n > 1:
      c += 1
      n //= small
    return c

  @staticmethod
  def _valid(n, small):
    """(n, small) is in the property's domain: powers of two, small >= 2, at most 8 axes."""
    if not is_pow2(n) or small < 2 or not is_pow2(small):
      return False
    k, s = ilog2(n), ilog2(small)
    return -(-k // s) <= 8

  def _eval_wht(self, case, ctx):
    jnp = self.jnp
    n, small, kw = case['n'], case['small'], case.get('kw', False)
    eff_small = 128 if small is None else small
    xspec = case['x']
    is_float = isinstance(xspec, dict) and xspec.get('kind') == 'float'
    if is_float:
      r = np.random.RandomState(xspec['seed'] % (2 ** 32))
      xf = r.standard_normal(n).astype(np.float32)
      xq = [Fraction(float(v)) for v in xf]
    else:
      xq = gen_vector(xspec)
      xf = np.array([float(v) for v in xq], dtype=np.float32)
    dt = case.get('dtype', 'float32')
    if dt != 'float32':
      # integer input: every entry and every partial sum is representable in the dtype (generator's
      # responsibility), so H x must come back exactly, in the same dtype
      if any(v.denominator != 1 for v in xq):
        xq = [Fraction(int(v)) for v in xq]
      xf = np.array([int(v) for v in xq], dtype=dt)
    arr = jnp.asarray(xf)
    valid = self._valid(n, eff_small)
    problems, corr, key = [], [], None
    eager = self._axes(n, eff_small) >= 7 and not case.get('force_jit')
    y, err = self._call_wht(arr, small, kw, eager)

    # ---- independent oracle
    want = None
    if valid:
      if n <= 4096 and not is_float:
        want = fwht_ref(xq)
      else:
        want = list(fwht_ref_np(np.array([float(v) for v in xq], dtype=np.float64)))
      scale = sum(abs(float(v)) for v in xq)
      if err is not None:
        problems.append(f'walsh_hadamard_transform(len {n}, small_n={small}{" kw" if kw else ""}) raised '
                        f'{type(err).__name__}: {str(err)[:120]!r} on a valid input')
        key = 'C18/wht/raises-' + type(err).__name__ + ('-explicit-small_n' if small is not None else '')
      else:
        if y.shape != (n,):
          problems.append(f'output shape {y.shape} != ({n},)')
          key = 'C18/wht/shape'
        else:
          if is_float:
            bad = [i for i in range(n) if not close(y[i], want[i], scale)]
          else:
            bad = [i for i in range(n) if Fraction(float(y[i])) != Fraction(want[i])]
          if bad:
            i = bad[0]
            problems.append(f'transform(len {n}, small_n={small})[{i}] = {float(y[i])!r}, '
                            f'Sylvester matrix row gives {float(want[i])!r} ({len(bad)} entries differ)')
            key = 'C18/wht/value'
          if y.dtype != xf.dtype:
            corr.append(f'dtype {y.dtype} != {xf.dtype}')
        # spot check of rows against the closed form (-1)^popcount(i&j), independent of the butterflies
        if not problems and not is_float and n <= 1024:
          for i in {0, n - 1, n // 2, (n // 3) | 1 if n > 1 else 0}:
            if i < n:
              row = sum(sylvester_entry(i, j) * xq[j] for j in range(n))
              if Fraction(float(y[i])) != row:
                problems.append(f'entry {i} = {float(y[i])} != sum_j (-1)^popcount(i&j) x_j = {float(row)}')
                key = 'C18/wht/value'
                break
        # corollaries on the real code: involution and linearity (exact for small integers)
        if not problems and case.get('extra') and not is_float and dt == 'float32':
          y2, err2 = self._call_wht(jnp.asarray(y), small, kw, eager)
          if err2 is not None:
            problems.append(f'second application raised {type(err2).__name__}')
            key = 'C18/wht/raises-' + type(err2).__name__
          elif any(Fraction(float(a)) != n * b for a, b in zip(y2, xq)):
            problems.append(f'transform applied twice is not {n} * x')
            key = 'C18/wht/involution'
          zq = gen_vector({'seed': (xspec['seed'] if isinstance(xspec, dict) else 1) + 7, 'n': n, 'mag': 4})
          comb = jnp.asarray(np.array([float(3 * a - 2 * b) for a, b in zip(xq, zq)], dtype=np.float32))
          yz, e3 = self._call_wht(jnp.asarray(np.array([float(v) for v in zq], dtype=np.float32)), small, kw, eager)
          yc, e4 = self._call_wht(comb, small, kw, eager)
          if e3 is None and e4 is None:
            if any(Fraction(float(c)) != 3 * Fraction(float(a)) - 2 * Fraction(float(b)) for a, b, c in zip(y, yz, yc)):
              problems.append('transform is not linear: T(3x-2z) != 3T(x)-2T(z)')
              key = 'C18/wht/linear'
          ctx.count('involution_linearity_checks')

    # ---- correspondence with the Lean model
    detail = {'impl': None if y is None else [float(v) for v in y[:16]],
              'impl_error': None if err is None else type(err).__name__}
    shape_model = None
    if eff_small >= 2:
      shape_model = ctx.drv.ask1('c18.shape', n, eff_small)
      if valid:
        if shape_size(shape_model) != n or any(not is_pow2(d) or d > eff_small or d < 2 for d in shape_model) \
            or len(shape_model) != -(-ilog2(n) // ilog2(eff_small)):
          corr.append(f'model shape schedule {shape_model} violates C18_shape')
    cost = n * sum(shape_model) if shape_model else n
    if cost <= (MODEL_COST_LIMIT if ctx.tier == 'thorough' else MODEL_COST_LIMIT_QUICK) and n <= 2 ** 14:
      ans = ctx.drv.ask1('c18.fwht', max(eff_small, 0), xq)
      detail['model'] = ans if ans[0] == 'err' else ['ok', [str(v) for v in ans[1][:16]]]
      if ans[0] == 'err':
        # inputs the model rejects are outside the property (invalid block size / length, or more axes than the
        # code supports): which exception is raised — or whether a wider implementation accepts them — is not fixed
        if valid:
          corr.append(f'model rejects a valid input with {ans[1]}')
        ctx.count('wht_out_of_domain_' + ('raised' if err is not None else 'accepted'))
      else:
        if err is not None:
          corr.append(f'model returns a value, implementation raised {type(err).__name__}')
        elif len(ans[1]) != len(y):
          corr.append(f'length {len(y)} vs model {len(ans[1])}')
        else:
          scale = sum(abs(float(v)) for v in xq)
          if is_float:
            bad = [i for i in range(n) if not close(y[i], ans[1][i], scale)]
          else:
            bad = [i for i in range(n) if Fraction(float(y[i])) != ans[1][i]]
          if bad:
            corr.append(f'entry {bad[0]}: impl {float(y[bad[0]])} vs model {ans[1][bad[0]]}')
        if want is not None and not is_float and [Fraction(v) for v in ans[1]] != [Fraction(v) for v in want]:
          corr.append('model disagrees with the reference Sylvester product')
      ctx.count('model_fwht')
    else:
      ctx.count('model_skipped_cost')
    if not valid and err is None and eff_small >= 2 and is_pow2(n) and is_pow2(eff_small) and not is_float:
      # more axes than the unchanged code supports, but accepted: then the value must still be H x
      ref = fwht_ref(xq) if n <= 4096 else list(fwht_ref_np(np.array([float(v) for v in xq], dtype=np.float64)))
      if y.shape != (n,) or any(Fraction(float(a)) != Fraction(b) for a, b in zip(y, ref)):
        problems.append(f'transform(len {n}, small_n={small}) is accepted but does not return the Sylvester product')
        key = key or 'C18/wht/value'

    nontriv = False
    if valid and n >= 4 and want is not None and err is None:
      xs = [float(v) for v in xq]
      ws = [float(v) for v in want]
      k = ilog2(n)
      brev = [ws[int(format(i, f'0{k}b')[::-1], 2)] for i in range(n)]
      nontriv = len(set(xs)) > 1 and ws != xs and ws != brev and ws != [n * v for v in xs]
    tags = (f'wht:k={ilog2(n) if is_pow2(n) else "np2"}',
            f'wht:small={"default" if small is None else (ilog2(small) if small >= 1 and is_pow2(small) else "bad")}',
            f'wht:axes={len(shape_model) if shape_model is not None else "-"}', f'wht:valid={valid}', f'wht:path={"eager" if eager else "jit"}',
            f'wht:x={"float" if is_float else (xspec.get("kind", "uniform") if isinstance(xspec, dict) else "explicit")}',
            f'wht:dtype={dt}')
    if dt != 'float32' and want is not None and max(abs(float(v)) for v in want) > 2 ** 24:
      tags += ('wht:int-result>2^24',)
    return Outcome(oracle_fail='; '.join(problems[:3]) or None, corr_fail='; '.join(corr[:3]) or None,
                   nontrivial=nontriv, tags=tags, key=key, detail=detail)

  def _eval_columns(self, case, ctx):
    """every column of the transform for n = 2^k (exhaustive: T(e_j)[i] = (-1)^popcount(i&j))"""
    jnp = self.jnp
    k, small = case['k'], case['small']
    n = 2 ** k
    problems, key = [], None
    lines = []
    for j in range(n):
      e = np.zeros(n, dtype=np.float32)
      e[j] = 1
      y, err = self._call_wht(jnp.asarray(e), small, False, self._axes(n, 128 if small is None else small) >= 7)
      if err is not None:
        problems.append(f'unit vector {j} of length {n}, small_n={small}: raised {type(err).__name__}')
        key = 'C18/wht/raises-' + type(err).__name__ + ('-explicit-small_n' if small is not None else '')
        break
      col = [sylvester_entry(i, j) for i in range(n)]
      if [int(v) for v in y] != col:
        problems.append(f'column {j} of the transform (n={n}, small_n={small}) is {[int(v) for v in y][:8]}…, '
                        f'Sylvester column is {col[:8]}…')
        key = 'C18/wht/value'
        break
    corr = []
    ans = ctx.drv.ask([line('c18.hentry', k, i, j) for i in range(n) for j in range(n)] if n <= 16 else
                      [line('c18.hentry', k, i, (i * 7 + 3) % n) for i in range(n)])
    ref = [sylvester_entry(i, j) for i in range(n) for j in range(n)] if n <= 16 else \
        [sylvester_entry(i, (i * 7 + 3) % n) for i in range(n)]
    if ans != ref:
      corr.append('model hEntry differs from (-1)^popcount(i&j)')
    ctx.count('columns_checked', n)
    return Outcome(oracle_fail='; '.join(problems) or None, corr_fail='; '.join(corr) or None, nontrivial=n >= 4,
                   tags=(f'columns:k={k}',), key=key)

  # ---- rotation -------------------------------------------------------------------------------

  def _eval_rot(self, case, ctx):
    jax, jnp, wh = self.jax, self.jnp, self.wh
    shape = case['shape']
    size = shape_size(shape)
    xq = gen_vector(case['x'])
    if len(xq) != size:
      xq = (xq + [Fraction(0)] * size)[:size]
    dtype = case.get('dtype', 'float32')
    xn, xq = typed_values(xq, dtype, shape)   # xq = the entries as numbers (what must be preserved / restored)
    x = jnp.asarray(xn)
    key = jax.random.PRNGKey(case['key'])
    problems, corr, fkey = [], [], None
    detail = {}
    y = sh = z = None
    try:
      yj, sh = wh.structured_rotation(x, key)
      y = np.array(yj, copy=True)     # snapshot; `yj` itself is what the caller keeps using below
    except Exception as e:   # pylint: disable=broad-except
      err = e
      if size >= 1:
        problems.append(f'structured_rotation(shape {tuple(shape)}) raised {type(e).__name__}: {str(e)[:120]!r}')
        fkey = 'C18/rot/rotation-raises-' + type(e).__name__
      # size 0 is outside the property ("total size >= 1"): any exception class is acceptable
      return Outcome(oracle_fail='; '.join(problems) or None, corr_fail='; '.join(corr) or None, nontrivial=False,
                     tags=(f'rot:size0' if size == 0 else 'rot:raise',), key=fkey,
                     detail={'impl_error': type(e).__name__})
    if size == 0:
      return Outcome(nontrivial=False, tags=('rot:size0-accepted',))
    d = 1 << (size - 1).bit_length()
    sumsq = sum(float(v) ** 2 for v in xq)
    scale1 = sum(abs(float(v)) for v in xq)
    # ---- oracle on the rotation
    if y.shape != (d,):
      # the property does not fix the padded length; the model does (2^ceil(log2 size))
      corr.append(f'rotated array has shape {y.shape}, model pads to ({d},) (next power of two of {size})')
    ny = float(np.sum(y.astype(np.float64) ** 2))
    if abs(ny - sumsq) > 1e-4 * sumsq + 1e-6:
      problems.append(f'norm^2 of the rotation {ny!r} != norm^2 of the input {sumsq!r}')
      fkey = fkey or 'C18/rot/norm'
    # the second return value is a token for the inverse; its format is not part of the property
    # ---- inverse
    try:
      z = np.array(wh.inverse_structured_rotation(yj, key, sh), copy=True)
    except Exception as e:   # pylint: disable=broad-except
      problems.append(f'inverse_structured_rotation of the rotated shape-{tuple(shape)} array raised '
                      f'{type(e).__name__}: {str(e)[:120]!r}')
      fkey = fkey or ('C18/rot/inverse-raises-' + type(e).__name__ + ('-0d' if not shape else ''))
    # the rotated array is a value: it must still be there after decoding, and decode again to the same result
    if z is not None:
      try:
        y_again = np.array(yj, copy=True)
        if not np.array_equal(y_again, y):
          problems.append(f'the rotated shape-{tuple(shape)} array changed while it was decoded')
          fkey = fkey or 'C18/rot/rotated-input-changed'
        z2 = np.array(wh.inverse_structured_rotation(yj, key, sh), copy=True)
        if z2.shape != z.shape or not np.array_equal(z2, z):
          problems.append(f'decoding the same rotated shape-{tuple(shape)} array twice gives different results')
          fkey = fkey or 'C18/rot/second-decode-differs'
      except Exception as e:   # pylint: disable=broad-except
        problems.append(f'after one inverse_structured_rotation the rotated shape-{tuple(shape)} array cannot be used again '
                        f'(read / second decode with the same key): {type(e).__name__}: {str(e)[:100]!r}')
        fkey = fkey or 'C18/rot/rotated-input-unusable-after-decode'
      ctx.count('decode_twice_checks')
    if z is not None:
      if z.shape != tuple(shape):
        problems.append(f'restored array has shape {z.shape}, original {tuple(shape)}')
        fkey = fkey or 'C18/rot/restored-shape'
      else:
        zf = z.reshape(-1)
        bad = [i for i in range(size) if abs(float(zf[i]) - float(xq[i])) > 1e-5 * scale1 + 1e-4 * abs(float(xq[i])) + 1e-6]
        if bad:
          i = bad[0]
          problems.append(f'inverse rotation does not restore the input: entry {i} is {float(zf[i])!r}, was {float(xq[i])!r}')
          fkey = fkey or 'C18/rot/inverse-value'
    # ---- different keys give different rotations (only where a collision has probability <= 2^-64)
    nonzero = sum(1 for v in xq if v != 0)
    if nonzero >= 64 and case.get('key2') is not None and case['key2'] != case['key'] and y.shape == (d,):
      y2, _ = wh.structured_rotation(x, jax.random.PRNGKey(case['key2']))
      if np.array_equal(np.asarray(y2), y):
        problems.append(f'keys {case["key"]} and {case["key2"]} give the same rotation of an input with {nonzero} non-zero entries')
        fkey = fkey or 'C18/rot/keys-collide'
      ctx.count('different_key_checks')
    # ---- the sign diagonal D of this key, recovered from the implementation through the public API
    # (which pattern a key gives is not fixed by the property; that it is a ±1 diagonal, a function of the key
    # only, and that rot(x) = H·D·pad(x)/sqrt(d), inverse(rot(x)) = x, is)
    signs = None
    ones = jnp.asarray(np.ones(shape, dtype=dtype))
    try:
      o1j, osh = wh.structured_rotation(ones, key)
      o1 = np.array(o1j, copy=True)
      o2 = np.array(wh.structured_rotation(ones, key)[0], copy=True)
      if not np.array_equal(o1, o2):
        problems.append(f'two rotations of the same array (ones{tuple(shape)}) with the same key {case["key"]} differ')
        fkey = fkey or 'C18/rot/not-a-function-of-key'
      n1 = float(np.sum(o1.astype(np.float64) ** 2))
      if abs(n1 - size) > 1e-4 * size + 1e-6:
        problems.append(f'norm^2 of the rotation of ones{tuple(shape)} with key {case["key"]} is {n1!r}, not {size}')
        fkey = fkey or 'C18/rot/norm'
      oz = np.asarray(wh.inverse_structured_rotation(o1j, key, osh)).reshape(-1)
      badz = [i for i in range(min(size, oz.shape[0])) if abs(float(oz[i]) - 1.0) > 1e-5 * size + 1e-4]
      if oz.shape[0] != size or badz:
        i0 = badz[0] if badz else 0
        problems.append(f'inverse rotation does not restore ones{tuple(shape)} with key {case["key"]}: entry {i0} is '
                        f'{float(oz[i0]) if oz.shape[0] > i0 else None!r}')
        fkey = fkey or 'C18/rot/inverse-value'
      signs, why = recover_diag(o1, size)
      if signs is None:
        corr.append(f'key {case["key"]}: {why}')
    except Exception as e:   # pylint: disable=broad-except
      problems.append(f'rotation / inverse of ones{tuple(shape)} raised {type(e).__name__}: {str(e)[:100]!r}')
      fkey = fkey or 'C18/rot/rotation-raises-' + type(e).__name__
    ctx.count('diag_recovered' if signs is not None else 'diag_not_recovered')
    # ---- model: rot(x) = H·D·pad(x) (unnormalised), with THAT D
    if signs is not None and len(signs) == d and y.shape == (d,):
      rt = math.sqrt(d)
      shape_model = ctx.drv.ask1('c18.shape', d, 128) if d > 1 else []
      limit = MODEL_COST_LIMIT if ctx.tier == 'thorough' else MODEL_COST_LIMIT_QUICK
      if d * max(sum(shape_model), 1) <= limit:
        ans = ctx.drv.ask([line('c18.rot', signs, xq), line('c18.ceillog2', size)])
        if 2 ** ans[1] != d:
          corr.append(f'model pads to 2^{ans[1]}, expected {d}')
        if ans[0][0] != 'ok':
          corr.append(f'model rotU rejects: {ans[0]}')
        else:
          my = ans[0][1]
          bad = [i for i in range(d) if not close(float(y[i]) * rt, my[i], scale1)]
          if bad:
            corr.append(f'rotation entry {bad[0]}: sqrt(d)*impl {float(y[bad[0]]) * rt} vs H·D·pad(x) = {my[bad[0]]} '
                        f'with the diagonal D recovered from rot(ones) (D is not independent of x, or the rotation is not H·D·pad)')
          if sum(v * v for v in my) != d * sum(v * v for v in xq):
            corr.append('model violates C18_norm_unnormalised')
          inv = ctx.drv.ask1('c18.invrot', signs, my, shape)
          if inv[0] != 'ok' or inv[1] != [d * v for v in xq]:
            corr.append('model violates C18_inverse_unnormalised')
          elif z is not None and z.shape == tuple(shape):
            zf = z.reshape(-1)
            bad = [i for i in range(size) if not close(float(zf[i]) * d, inv[1][i], scale1 * d)]
            if bad:
              corr.append(f'inverse entry {bad[0]}: d*impl {float(zf[bad[0]]) * d} vs model {inv[1][bad[0]]}')
          detail['model_rot'] = [str(v) for v in my[:8]]
          if d <= 64:
            # C18_diag_recover in the model: H·rotU signs ones = d·(signs on the first `size` entries, 0 on the padding)
            mo = ctx.drv.ask1('c18.rot', signs, [1] * size)
            back = ctx.drv.ask1('c18.hmul', ilog2(d), mo[1]) if mo[0] == 'ok' else None
            if back != [d * t for t in signs[:size]] + [0] * (d - size):
              corr.append('model violates C18_diag_recover')
            ctx.count('diag_recover_model_checks')
        ctx.count('rot_model_comparisons')
      else:
        # too long for the exact model in this tier: the same identity against the float64 reference butterflies
        padded = np.array([float(v) for v in xq] + [0.0] * (d - size)) * np.array(signs, dtype=np.float64)
        want = fwht_ref_np(padded)
        bad = [i for i in range(d) if not close(float(y[i]) * rt, want[i], scale1)]
        if bad:
          corr.append(f'rotation entry {bad[0]}: sqrt(d)*impl {float(y[bad[0]]) * rt} vs H·D·pad(x) = {want[bad[0]]} '
                      f'(reference butterflies, D recovered from rot(ones))')
        ctx.count('rot_reference_comparisons')
    elif y.shape != (d,):
      pass   # already reported above
    detail.update({'impl_rot': [float(v) for v in y[:8]], 'impl_inv': None if z is None else [float(v) for v in z.reshape(-1)[:8]],
                   'signs': None if signs is None else signs[:8], 'd': d})
    tags = (f'rot:ndim={len(shape)}', f'rot:pow2={is_pow2(size)}', f'rot:d={d if d <= 8 else ("<=64" if d <= 64 else ">64")}',
            f'rot:dtype={dtype}')
    return Outcome(oracle_fail='; '.join(problems[:3]) or None, corr_fail='; '.join(corr[:3]) or None,
                   nontrivial=size >= 2 and nonzero >= 1, tags=tags, key=fkey, detail=detail)

  def _eval_dsweep(self, case, ctx):
    """For many keys: the rotation of ones(n) determines the sign diagonal D (recover_diag). Property-level
    statements judged on the real outputs: inverse(rot(ones)) = ones for every key, different keys give different
    rotations. Model-level (correspondence): D is a ±1 diagonal."""
    jax, jnp, wh = self.jax, self.jnp, self.wh
    n = case['n']
    ones = jnp.ones((n,), dtype=jnp.float32)
    problems, corr, fkey = [], [], None
    seen = {}
    for k in case['keys']:
      key = jax.random.PRNGKey(k)
      try:
        yj, sh = wh.structured_rotation(ones, key)
        y = np.array(yj, copy=True)
      except Exception as e:   # pylint: disable=broad-except
        problems.append(f'structured_rotation(ones({n}), PRNGKey({k})) raised {type(e).__name__}')
        fkey = fkey or 'C18/rot/rotation-raises-' + type(e).__name__
        break
      sg, why = recover_diag(y, n)
      nrm = float(np.sum(y.astype(np.float64) ** 2))
      if sg is None or abs(nrm - n) > 1e-4 * n:
        # confirm on the property itself: norm and round trip of this concrete input
        if abs(nrm - n) > 1e-4 * n:
          problems.append(f'PRNGKey({k}): norm^2 of the rotation of ones({n}) is {nrm!r}')
          fkey = fkey or 'C18/rot/norm'
        try:
          z = np.asarray(wh.inverse_structured_rotation(yj, key, sh)).reshape(-1)
          bad = [i for i in range(min(n, z.shape[0])) if abs(float(z[i]) - 1.0) > 1e-5 * n + 1e-4]
          if z.shape[0] != n or bad:
            i0 = bad[0] if bad else 0
            problems.append(f'PRNGKey({k}): inverse rotation does not restore ones({n}): entry {i0} comes back as '
                            f'{float(z[i0]) if z.shape[0] > i0 else None!r} ({why})')
            fkey = fkey or 'C18/rot/inverse-value'
        except Exception as e:   # pylint: disable=broad-except
          problems.append(f'PRNGKey({k}): inverse rotation of rot(ones({n})) raised {type(e).__name__}')
          fkey = fkey or 'C18/rot/inverse-raises-' + type(e).__name__
        if sg is None:
          corr.append(f'PRNGKey({k}), n={n}: {why}')
      else:
        t = bytes(bytearray((v + 1) // 2 for v in sg[:n]))
        if t in seen and seen[t] != k and n >= 64:
          problems.append(f'PRNGKey({seen[t]}) and PRNGKey({k}) give the same rotation of ones({n})')
          fkey = fkey or 'C18/rot/keys-collide'
        seen.setdefault(t, k)
      if len(problems) >= 3:
        break
    ctx.count('dsweep_keys', len(case['keys']))
    ctx.count('dsweep_signs', len(case['keys']) * n)
    return Outcome(oracle_fail='; '.join(problems[:3]) or None, corr_fail='; '.join(corr[:3]) or None,
                   nontrivial=True, tags=(f'dsweep:n={n}',), key=fkey, detail={'keys': len(case['keys'])})

  # ---- child-process probes (non-default JAX configurations) ---------------------------------------

  def _probe_start(self, case):
    import shutil, subprocess, tempfile, json as _json
    children = self.__dict__.setdefault('_children', {})
    dg = core.case_digest(case)
    if dg in children:
      return children[dg]
    tmp = tempfile.mkdtemp(prefix='c18probe')
    spec_p, out_p = os.path.join(tmp, 'spec.json'), os.path.join(tmp, 'out.json')
    with open(spec_p, 'w') as fh:
      _json.dump({'repo': core.REPO, 'mode': case['mode'], 'items': case['items']}, fh)
    env = dict(os.environ)
    env.pop('JAX_ENABLE_X64', None)
    env.pop('JAX_THREEFRY_PARTITIONABLE', None)
    env['XLA_FLAGS'] = ''
    log = open(os.path.join(tmp, 'log.txt'), 'w')
    proc = subprocess.Popen([sys.executable, os.path.join(os.path.dirname(os.path.abspath(__file__)), 'c18_probe.py'),
                             spec_p, out_p], stdout=log, stderr=subprocess.STDOUT, env=env)
    children[dg] = (proc, tmp, out_p, log)
    return children[dg]

  def _probe_collect(self, case):
    import shutil, json as _json, subprocess
    proc, tmp, out_p, log = self._probe_start(case)
    try:
      try:
        proc.wait(timeout=280)
      except subprocess.TimeoutExpired:
        proc.kill()
        raise core.InfraError('C18 probe child timed out')
      log.close()
      if not os.path.exists(out_p):
        tail = open(os.path.join(tmp, 'log.txt')).read()[-600:]
        raise core.InfraError(f'C18 probe child ({case["mode"]}) produced no result (exit {proc.returncode}): {tail}')
      return _json.load(open(out_p))
    finally:
      self._children.pop(core.case_digest(case), None)
      shutil.rmtree(tmp, ignore_errors=True)

  def finish(self, ctx):
    import shutil
    for proc, tmp, _, log in list(self.__dict__.get('_children', {}).values()):
      try:
        proc.kill()
        proc.wait(timeout=10)
        log.close()
      except Exception:   # pylint: disable=broad-except
        pass
      shutil.rmtree(tmp, ignore_errors=True)
    self.__dict__['_children'] = {}
    return []

  def _eval_probe(self, case, ctx):
    """judges the raw outputs of the child against exact references; the oracle statements are the same
    as in the main process (transform = H x, norm preserved, inverse restores every entry in its shape)."""
    mode = case['mode']
    res = self._probe_collect(case)
    if res.get('status') != 'ok':
      ctx.count('probe_skipped_' + mode)
      return Outcome(nontrivial=False, tags=(f'probe:{mode}:skipped',), detail={'why': res.get('why')})
    ctx.count('probe_runs_' + mode)
    x64 = mode == 'x64'
    rel = 1e-12 if x64 else None
    problems, corr, fkey = [], [], None
    K = f'C18/probe-{mode}/'

    def restored_ok(z, x, sc):
      if x64:
        return abs(z - x) <= 1e-12 * sc + 1e-300
      return abs(z - x) <= 1e-5 * sc + 1e-4 * abs(x) + 1e-6

    def norm_ok(ny, nx):
      return abs(ny - nx) <= ((1e-12 if x64 else 1e-4) * nx + (1e-300 if x64 else 1e-6))

    def fail(msg, key):
      nonlocal fkey
      problems.append(f'[{mode}] ' + msg)
      fkey = fkey or (K + key)

    for it, r in zip(case['items'], res['results']):
      op = it['op']
      if 'err' in r:
        fail(f'{op} on {it.get("shape", len(it.get("x", [])))} raised {r["err"]}', op + '-raises')
        continue
      if op == 'wht':
        xs = it['x']
        n = len(xs)
        want = fwht_ref([Fraction(v) for v in xs])
        sc = sum(abs(Fraction(v)) for v in xs)
        y = r['y']
        if r['shape'] != [n]:
          fail(f'transform of a length-{n} {it["dtype"]} vector has shape {r["shape"]}', 'wht-shape')
        elif it['dtype'].startswith('int') or all(float(v).is_integer() for v in xs):
          bad = [i for i in range(n) if Fraction(y[i]) != want[i]]
          if bad:
            fail(f'{it["dtype"]} transform(len {n}, small_n={it.get("small")})[{bad[0]}] = {y[bad[0]]!r}, H x gives '
                 f'{int(want[bad[0]])} ({len(bad)} entries differ; all values are exactly representable)', 'wht-value')
        else:
          bad = [i for i in range(n) if abs(Fraction(y[i]) - want[i]) > Fraction(rel) * sc]
          if bad:
            i = bad[0]
            fail(f'float64 transform(len {n}, small_n={it.get("small")})[{i}] = {y[i]!r}, H x gives {float(want[i])!r}: '
                 f'relative error {float(abs(Fraction(y[i]) - want[i]) / sc):.2e} > 1e-12 ({len(bad)} entries)', 'wht-value')
        if r['dtype'] != r['in_dtype']:
          corr.append(f'[{mode}] transform of {r["in_dtype"]} returned {r["dtype"]}')
        ctx.count('probe_items_wht')
      elif op == 'rot':
        xs, sh = it['x'], it['shape']
        what = f'shape {tuple(sh)} key {it["key"]}'
        sc = sum(abs(v) for v in xs)
        nx = sum(Fraction(v) ** 2 for v in xs)
        ny = sum(Fraction(v) ** 2 for v in r['y'])
        if not norm_ok(float(ny), float(nx)):
          fail(f'rotation of {what}: norm^2 {float(nx)!r} became {float(ny)!r}', 'rot-norm')
        if 'inv_err' in r:
          fail(f'inverse rotation of {what} raised {r["inv_err"]}', 'rot-inverse-raises')
        elif r['z_shape'] != list(sh):
          fail(f'inverse rotation of {what} has shape {r["z_shape"]}', 'rot-restored-shape')
        else:
          bad = [i for i in range(len(xs)) if not restored_ok(r['z'][i], xs[i], sc)]
          if bad:
            i = bad[0]
            fail(f'inverse rotation with the same key does not restore {what}: entry {i} is {r["z"][i]!r}, was {xs[i]!r} '
                 f'({len(bad)} of {len(xs)} entries)', 'rot-inverse-value')
        if x64 and (r['y_dtype'] != 'float64' or r.get('z_dtype', 'float64') != 'float64'):
          corr.append(f'[{mode}] float64 rotation returned {r["y_dtype"]}/{r.get("z_dtype")}')
        # model with the sign diagonal recovered from the child's rot(ones) under the same configuration
        sg, why = recover_diag(np.array(r['y_ones'], dtype=np.float64), len(xs)) if r.get('y_ones') is not None else (None, 'no rot(ones)')
        if sg is None:
          corr.append(f'[{mode}] rotation of {what}: {why}')
        elif len(r['y']) == len(sg):
          d = len(sg)
          ans = ctx.drv.ask1('c18.rot', sg, [Fraction(v) for v in xs])
          if ans[0] == 'ok' and any(not close(a * math.sqrt(d), b, sc) for a, b in zip(r['y'], ans[1])):
            corr.append(f'[{mode}] rotation of {what} differs from H·D·pad(x) with the diagonal recovered from rot(ones)')
        else:
          corr.append(f'[{mode}] rotation of {what}: length {len(r["y"])} vs rot(ones) {len(sg)}')
        ctx.count('probe_items_rot')
      elif op == 'tree':
        spec = it['spec']
        leaf_specs = spec_all_leaves(spec)
        ids = {id(l): i for i, l in enumerate(leaf_specs)}
        order = self.jax.tree_util.tree_leaves(spec_build(spec, lambda l: ids[id(l)]))
        xss = [leaf_specs[i][2] for i in order]
        shs = [list(leaf_specs[i][1]) for i in order]
        what = f'tree with leaf shapes {shs} key {it["key"]}'
        if not r.get('rot_struct_ok'):
          fail(f'rotated {what} has a different structure', 'tree-structure')
        else:
          for i, (xs, yl) in enumerate(zip(xss, r['rot_leaves'])):
            nx, ny = sum(v * v for v in xs), sum(v * v for v in yl)
            if not norm_ok(ny, nx):
              fail(f'{what}: leaf {i} norm^2 {nx!r} became {ny!r}', 'tree-norm')
        if 'inv_err' in r:
          fail(f'inverse of {what} raised {r["inv_err"]}', 'tree-inverse-raises')
        elif not r.get('inv_struct_ok'):
          fail(f'restored {what} has a different structure', 'tree-structure')
        else:
          for i, (xs, zl, zs) in enumerate(zip(xss, r['inv_leaves'], r['inv_shapes'])):
            sc = sum(abs(v) for v in xs)
            if zs != shs[i]:
              fail(f'{what}: leaf {i} restored with shape {zs}', 'tree-restored-shape')
            else:
              bad = [j for j in range(len(xs)) if not restored_ok(zl[j], xs[j], sc)]
              if bad:
                fail(f'{what}: leaf {i} (shape {tuple(shs[i])}) is not restored: entry {bad[0]} is {zl[bad[0]]!r}, was '
                     f'{xs[bad[0]]!r} ({len(bad)} of {len(xs)} entries)', 'tree-inverse-value')
        ctx.count('probe_items_tree')
    ops = sorted({it['op'] for it in case['items']})
    return Outcome(oracle_fail='; '.join(problems[:3]) or None, corr_fail='; '.join(corr[:3]) or None,
                   nontrivial=bool(case['items']), tags=tuple([f'probe:{mode}'] + [f'probe:{mode}:{o}' for o in ops]),
                   key=fkey, detail={'mode': mode, 'jax': res.get('jax'), 'n_items': len(case['items']),
                                     'problems': problems[:8]})

  # ---- trees ----------------------------------------------------------------------------------

  def _eval_tree(self, case, ctx):
    """structured_rotation_pytree / inverse_structured_rotation_pytree on an arbitrary container tree.
    Oracle (leaf-wise, on the real outputs): tree structure preserved, every leaf's norm preserved, the
    inverse with the same key restores every leaf in its shape. Model: through the flattened leaves."""
    jax, jnp, wh = self.jax, self.jnp, self.wh
    tu = jax.tree_util
    spec = case['spec'] if 'spec' in case else legacy_tree_spec(case)
    leaf_specs = spec_all_leaves(spec)
    ids = {id(l): i for i, l in enumerate(leaf_specs)}

    def leaf_q(l):
      size = shape_size(l[1])
      x = l[2]
      xq = gen_vector({**x, 'n': size}) if isinstance(x, dict) else gen_vector(x)
      return (xq + [Fraction(0)] * size)[:size]

    typed = [typed_values(leaf_q(l), l[3] if len(l) > 3 else 'float32', l[1]) for l in leaf_specs]
    qs = [t[1] for t in typed]
    tree = spec_build(spec, lambda l: jnp.asarray(typed[ids[id(l)]][0]))
    dtypes = sorted({l[3] if len(l) > 3 else 'float32' for l in leaf_specs})
    # flatten order of the leaves as JAX sees them (dict keys sorted, namedtuple fields in order, None = no leaf)
    order = tu.tree_leaves(spec_build(spec, lambda l: ids[id(l)]))
    if sorted(set(order)) != list(range(len(leaf_specs))):
      raise core.InfraError('harness: leaf order of the generated tree could not be determined')
    xqs = [qs[i] for i in order]
    shapes = [list(leaf_specs[i][1]) for i in order]
    tdef = tu.tree_structure(tree)
    if tdef.num_leaves != len(xqs):
      raise core.InfraError('harness: generated tree has an unexpected number of leaves')
    key = jax.random.PRNGKey(case['key'])
    kinds = sorted(spec_kinds(spec))
    problems, corr, fkey = [], [], None
    tags = tuple([f'tree:leaves={min(len(xqs), 6)}', f'tree:has0d={any(not sh for sh in shapes)}'] +
                 [f'tree:has={k}' for k in kinds] + [f'tree:dtype={d}' for d in dtypes])
    what = f'tree {tdef} (leaf shapes {shapes})'
    try:
      rot, shp = wh.structured_rotation_pytree(tree, key)
    except Exception as e:   # pylint: disable=broad-except
      return Outcome(oracle_fail=f'structured_rotation_pytree on {what} raised {type(e).__name__}: {str(e)[:100]!r}',
                     key='C18/tree/rotation-raises-' + type(e).__name__, tags=tags + ('tree:raise',),
                     nontrivial=False, detail={'tree': str(tdef)})
    rl = None
    try:
      rdef = tu.tree_structure(rot)
      if rdef != tdef:
        problems.append(f'rotated tree has structure {rdef}, the parameters have {tdef}')
        fkey = 'C18/tree/structure'
      else:
        rl_live = tu.tree_leaves(rot)
        # snapshots (copies); the live leaves stay with `rot`, which is used again after decoding
        rl = [np.array(l, copy=True) if hasattr(l, 'shape') else l for l in rl_live]
    except Exception as e:   # pylint: disable=broad-except
      problems.append(f'rotated tree cannot be flattened: {type(e).__name__}')
      fkey = 'C18/tree/structure'
    if rl is not None:
      for i, xq in enumerate(xqs):
        try:
          yi = np.asarray(rl[i]).astype(np.float64)
        except Exception:   # pylint: disable=broad-except
          problems.append(f'leaf {i}: rotated leaf is not an array')
          fkey = fkey or 'C18/tree/structure'
          continue
        s0 = sum(float(v) ** 2 for v in xq)
        if abs(float(np.sum(yi ** 2)) - s0) > 1e-4 * s0 + 1e-6:
          problems.append(f'leaf {i} (shape {tuple(shapes[i])}): norm^2 {s0!r} became {float(np.sum(yi ** 2))!r} after rotation')
          fkey = fkey or 'C18/tree/norm'
    inv = None
    try:
      inv = wh.inverse_structured_rotation_pytree(rot, key, shp)
    except Exception as e:   # pylint: disable=broad-except
      problems.append(f'inverse_structured_rotation_pytree on the rotation of {what} raised {type(e).__name__}: {str(e)[:100]!r}')
      fkey = fkey or ('C18/tree/inverse-raises-' + type(e).__name__ + ('-0d' if any(not sh for sh in shapes) else ''))
    if inv is not None and rl is not None:
      # the rotated tree is a value: still readable after decoding, and decodes again to the same leaves
      try:
        for i, l in enumerate(tu.tree_leaves(rot)):
          if hasattr(rl[i], 'shape') and not np.array_equal(np.array(l, copy=True), rl[i]):
            problems.append(f'leaf {i} of the rotated tree changed while the tree was decoded')
            fkey = fkey or 'C18/tree/rotated-input-changed'
        inv2 = wh.inverse_structured_rotation_pytree(rot, key, shp)
        l1, l2 = tu.tree_leaves(inv), tu.tree_leaves(inv2)
        if len(l1) != len(l2) or any(not np.array_equal(np.asarray(a), np.asarray(b)) for a, b in zip(l1, l2)):
          problems.append('decoding the same rotated tree twice gives different results')
          fkey = fkey or 'C18/tree/second-decode-differs'
      except Exception as e:   # pylint: disable=broad-except
        problems.append(f'after one inverse_structured_rotation_pytree the rotated {what} cannot be used again '
                        f'(read / second decode with the same key): {type(e).__name__}: {str(e)[:100]!r}')
        fkey = fkey or 'C18/tree/rotated-input-unusable-after-decode'
      ctx.count('decode_twice_checks')
    if inv is not None:
      idef = tu.tree_structure(inv)
      if idef != tdef:
        problems.append(f'restored tree has structure {idef}, the parameters have {tdef}')
        fkey = fkey or 'C18/tree/structure'
      else:
        il = tu.tree_leaves(inv)
        for i, (xq, sh) in enumerate(zip(xqs, shapes)):
          zi = np.asarray(il[i])
          sc = sum(abs(float(v)) for v in xq)
          if zi.shape != tuple(sh):
            problems.append(f'leaf {i}: restored shape {zi.shape} != {tuple(sh)}')
            fkey = fkey or 'C18/tree/restored-shape'
          elif any(abs(float(a) - float(b)) > 1e-5 * sc + 1e-4 * abs(float(b)) + 1e-6 for a, b in zip(zi.reshape(-1), xq)):
            problems.append(f'leaf {i} (shape {tuple(sh)}): inverse does not restore the leaf')
            fkey = fkey or 'C18/tree/inverse-value'
    # ---- different keys give different rotations, leaf-wise (only leaves with >= 64 non-zero entries)
    big = [i for i, xq in enumerate(xqs) if sum(1 for v in xq if v != 0) >= 64]
    if big and rl is not None and case.get('key2') is not None and case['key2'] != case['key']:
      try:
        rot2, _ = wh.structured_rotation_pytree(tree, jax.random.PRNGKey(case['key2']))
        rl2 = tu.tree_leaves(rot2)
        for i in big:
          if i < len(rl2) and np.array_equal(np.asarray(rl2[i]), rl[i]):
            problems.append(f'tree keys {case["key"]} and {case["key2"]} give the same rotation of leaf {i} '
                            f'({len(xqs[i])} entries, >= 64 non-zero)')
            fkey = fkey or 'C18/tree/keys-collide'
      except Exception as e:   # pylint: disable=broad-except
        problems.append(f'structured_rotation_pytree with a second key raised {type(e).__name__}')
        fkey = fkey or 'C18/tree/rotation-raises-' + type(e).__name__
      ctx.count('different_key_checks')
    # ---- model. The sign diagonal of every leaf position is recovered from the implementation (rotation of the
    # same tree with all-ones leaves and the same key): how leaf keys are derived is not part of the property; that
    # every leaf is rotated by H·D·pad/sqrt(d) with a ±1 diagonal D that does not depend on the values is.
    if xqs:
      signss = None
      try:
        ones_typed = [np.ones(l[1], dtype=(l[3] if len(l) > 3 else 'float32')) for l in leaf_specs]
        ones_tree = spec_build(spec, lambda l: jnp.asarray(ones_typed[ids[id(l)]]))
        orot, oshp = wh.structured_rotation_pytree(ones_tree, key)
        ol = [np.array(l, copy=True) for l in tu.tree_leaves(orot)]
        ol2 = [np.array(l, copy=True) for l in tu.tree_leaves(wh.structured_rotation_pytree(ones_tree, key)[0])]
        if len(ol) != len(xqs) or any(not np.array_equal(a, b) for a, b in zip(ol, ol2)):
          problems.append(f'two rotations of the same all-ones tree with the same key {case["key"]} differ')
          fkey = fkey or 'C18/tree/not-a-function-of-key'
        else:
          oinv = tu.tree_leaves(wh.inverse_structured_rotation_pytree(orot, key, oshp))
          signss = []
          for i, xq in enumerate(xqs):
            n_i = len(xq)
            ni2 = float(np.sum(ol[i].astype(np.float64) ** 2))
            if abs(ni2 - n_i) > 1e-4 * n_i + 1e-6:
              problems.append(f'all-ones tree, key {case["key"]}: leaf {i} (shape {tuple(shapes[i])}) has norm^2 {ni2!r} after rotation, not {n_i}')
              fkey = fkey or 'C18/tree/norm'
            zi = np.asarray(oinv[i]).reshape(-1)
            badz = [j for j in range(min(n_i, zi.shape[0])) if abs(float(zi[j]) - 1.0) > 1e-5 * n_i + 1e-4]
            if zi.shape[0] != n_i or badz:
              problems.append(f'all-ones tree, key {case["key"]}: leaf {i} (shape {tuple(shapes[i])}) is not restored '
                              f'(entry {badz[0] if badz else 0})')
              fkey = fkey or 'C18/tree/inverse-value'
            sg, why = recover_diag(ol[i], n_i)
            if sg is None:
              corr.append(f'leaf {i}: {why}')
              signss = None
              break
            signss.append(sg)
      except Exception as e:   # pylint: disable=broad-except
        problems.append(f'rotation / inverse of the all-ones tree {tdef} raised {type(e).__name__}: {str(e)[:100]!r}')
        fkey = fkey or 'C18/tree/rotation-raises-' + type(e).__name__
        signss = None
      if signss is not None:
        # leaves of one tree are rotated with different diagonals (collision probability 2^-64 and below)
        seen = {}
        for i, sg in enumerate(signss):
          n_i = len(xqs[i])
          if n_i >= 64:
            k_ = (n_i, tuple(sg[:n_i]))
            if k_ in seen:
              corr.append(f'leaves {seen[k_]} and {i} of one tree are rotated with the same sign diagonal')
            seen.setdefault(k_, i)
        limit = MODEL_COST_LIMIT if ctx.tier == 'thorough' else MODEL_COST_LIMIT_QUICK
        cost = sum(len(sg) * (256 if len(sg) > 128 else len(sg)) for sg in signss)
        if cost <= limit:
          ans = ctx.drv.ask1('c18.rottree', signss, xqs)
          if ans[0] != 'ok':
            corr.append(f'model rotTree rejects: {ans}')
          else:
            if rl is not None:
              for i, my in enumerate(ans[1]):
                d = len(my)
                yi = np.asarray(rl[i]).reshape(-1)
                sc = sum(abs(float(v)) for v in xqs[i])
                if yi.shape != (d,):
                  corr.append(f'leaf {i}: rotated length {yi.shape} vs model {d}')
                elif any(not close(float(a) * math.sqrt(d), b, sc) for a, b in zip(yi, my)):
                  corr.append(f'leaf {i}: rotation differs from H·D·pad(x) with the diagonal D recovered from the all-ones tree')
            back = ctx.drv.ask1('c18.invrottree', signss, ans[1], shapes)
            if back[0] != 'ok' or back[1] != [[len(my) * v for v in xq] for my, xq in zip(ans[1], xqs)]:
              corr.append('model violates C18_pytree')
          ctx.count('tree_model_comparisons')
        elif rl is not None:
          for i, (sg, xq) in enumerate(zip(signss, xqs)):
            d = len(sg)
            yi = np.asarray(rl[i]).reshape(-1)
            sc = sum(abs(float(v)) for v in xq)
            want = fwht_ref_np(np.array([float(v) for v in xq] + [0.0] * (d - len(xq))) * np.array(sg, dtype=np.float64))
            if yi.shape != (d,) or any(not close(float(a) * math.sqrt(d), b, sc) for a, b in zip(yi, want)):
              corr.append(f'leaf {i}: rotation differs from H·D·pad(x) (reference butterflies, D from the all-ones tree)')
          ctx.count('tree_reference_comparisons')
    else:
      # a tree without leaves: nothing to rotate; both results must have the same (leafless) structure
      ctx.count('leafless_trees')
    return Outcome(oracle_fail='; '.join(problems[:3]) or None, corr_fail='; '.join(corr[:3]) or None,
                   nontrivial=any(len(x) >= 2 for x in xqs), tags=tags, key=fkey,
                   detail={'tree': str(tdef), 'shapes': shapes,
                           'rot0': [float(v) for v in np.asarray(rl[0]).reshape(-1)[:8]] if rl else None})


PROPERTY = C18
