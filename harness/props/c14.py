"""C14 — every built-in metric equals its documented definition on its whole domain."""
import itertools

import numpy as np

from vlib import core
from vlib import metricslib as ml
from vlib.core import Outcome, line


def exc_enum(e):
  n = type(e).__name__
  return n if n in ('ValueError', 'TypeError', 'KeyError', 'IndexError') else 'other:' + n


ZERO_SHAPE_KEY = 'C14/perdomain-nested-perposition/zero-shape'


def classify(spec, shape_failure=False, nonfinite=False):
  b = ml.base_of(spec)
  if shape_failure and spec[0] == 'pd' and spec[1][0] == 'pd' and ml.is_per_position(spec):
    # PerDomainMetric over a base whose zero() has a lower rank than its statistics (the scalar zero of
    # per_position metrics, broadcast to (D,) by the inner PerDomainMetric): trailing-axis broadcasting
    # of that zero fails or produces a wrong shape.  Same root cause as C05/perdomain-perposition.
    return ZERO_SHAPE_KEY
  if nonfinite:
    return 'C14/cross-entropy/nonfinite-logits'
  if b[0] in ('topk', 'sttopk') and b[1] < 0:
    return 'C14/topk/negative-k'
  if b[0] == 'oov' and len(b[1]) != 1:
    return 'C14/oov/' + ('no-values' if not b[1] else 'several-values')
  return 'C14/' + ml.name_of(spec)


class C14(core.Property):
  ID = 'C14'
  RULE = ('cases = (metric class + constructor arguments, one example/prediction); generated per metric class '
          'over the branch conditions (ties between class scores, masked target values, fully masked '
          'sequences, k < 1 / k >= classes, logit masks with -inf/+inf, per_position, PerDomain wrapping, '
          'target_key/pred_key, prediction dtype float32/int32/int8/int64, -inf and extreme finite logits for the '
          'loss-valued metrics, label dtype uint8/int8/int16/uint16 with 12..100 classes); non-trivial = the reference statistic has a non-zero entry or the case is a '
          'fully masked sequence; distinct by case digest')
  TRUSTED = ['the reference definitions in Model/Metrics.lean transcribe the docstrings of '
             'fedjax/core/metrics.py (also re-stated independently in harness/vlib/metricslib.py)',
             'log_softmax values enter the Lean model as data; the Python oracle recomputes them in float64']
  ASSUMPTIONS = ['targets lie in [0, num_classes); class scores are finite (integers here, exact in float32); '
                 'logits_mask entries are finite or +-inf']
  QUICK_BUDGET_S = 140
  THOROUGH_BUDGET_S = 560

  def setup(self, ctx):
    import jax
    import jax.numpy as jnp
    from fedjax.core import metrics as M
    self.jax, self.jnp, self.M = jax, jnp, M
    self.ctx = ctx
    self._answers = {}

  def _model_line(self, case):
    return line('c14.eval', case['spec'], ml.model_ex(self.jax, case['spec'], case['ex']))

  def _prefetched(self, cases, chunk=150):
    """Asks the model for a whole chunk of cases in one driver call (a fork of this process per
    case would dominate the run time); evaluate() falls back to a single ask for other cases."""
    buf = []

    def flush():
      todo = [c for c in buf if c.get('kind') == 'ex']
      if todo:
        ans = self.ctx.drv.ask([self._model_line(c) for c in todo])
        self._answers = {core.case_digest(c): a for c, a in zip(todo, ans)}
      yield from buf
      buf.clear()

    for c in cases:
      buf.append(c)
      if len(buf) >= chunk:
        yield from flush()
    yield from flush()

  def _ask_model(self, case, ctx):
    a = self._answers.get(core.case_digest(case))
    if a is None:
      a = ctx.drv.ask([self._model_line(case)])[0]
    return a

  # ------------------------------------------------------------------ generation
  def gen_cases(self, rng, tier):
    return self._prefetched(self._gen_cases(rng, tier))

  def _gen_cases(self, rng, tier):
    per = {'quick': 150, 'thorough': 2400, 'search': 400}[tier]
    if tier == 'thorough':
      yield from self._exhaustive()
    yield from self._targeted_cases(rng)
    names = ml.BASE_NAMES + ['pd']
    for i in range(per * len(names)):
      name = names[i % len(names)]
      yield self._random_case(rng, name)
      if i % 40 == 7:
        yield self._ident_case(rng)

  def _targeted_cases(self, rng):
    """A few cases per run aimed at two branch combinations that random draws reach only late:
    PerDomainMetric over a loss-valued base whose statistic is +inf for the example (the rows of the other
    domains must be exactly the zero statistic), and integer-typed predictions with a -inf logits mask on a
    class whose raw score is negative or zero."""
    for base in (['ce'], ['stce', [], True], ['stce', [0], False], ['sce', []]):
      for _ in range(2):
        C, L, D = rng.choice([2, 3, 4]), rng.choice([1, 2, 3]), rng.choice([2, 3, 4])
        spec = ['pd', base, D]
        ex = ml.gen_example(rng, spec, L, C, D, extreme=True)
        t0 = rng.randrange(1, C) if base[0] != 'ce' and 0 in base[1] else rng.randrange(C)
        row = [rng.randint(-3, 3) for _ in range(C)]
        if rng.random() < 0.5:
          row[t0] = 'ninf'                                  # target class masked out by the model: loss = +inf
        else:
          row = [ml.BIGS[0]] * C
          row[t0] = -ml.BIGS[0]                             # extreme finite logits: the loss overflows float32
        ex['t'][0], ex['s'][0] = t0, row
        yield {'kind': 'ex', 'spec': spec, 'ex': ex, 'tkey': 'y', 'pkey': None}
    for tdtype, C in (('uint8', 20), ('int8', 12), ('uint8', 62), ('int8', 100), ('int16', 100), ('uint16', 62)):
      for name in ('cm', rng.choice(['acc', 'ce', 'topk', 'stacc', 'stce', 'count', 'oov'])):
        spec = ml.gen_base_spec(rng, name, C, nonneg=True)
        if rng.random() < 0.4:
          spec = ['pd', spec, 2]
        ex = ml.gen_example(rng, spec, rng.choice([1, 2]), C, 2 if spec[0] == 'pd' else 1, small=True)
        ex['t'] = [rng.randrange(C - 3, C) for _ in ex['t']]
        yield {'kind': 'ex', 'spec': spec, 'ex': ex, 'tkey': 'y', 'pkey': None, 'tdtype': tdtype}
    for name in ('stacc', 'sttopk'):
      for pdtype in ('int32', 'int8', 'int64'):
        C, L = rng.choice([3, 4]), rng.choice([1, 2, 3])
        j = rng.randrange(C)
        lm = [0] * C
        lm[j] = 'ninf'
        if rng.random() < 0.5:
          lm[(j + 1) % C] = 'pinf' if rng.random() < 0.5 else 'ninf'
        spec = ['stacc', [], lm, rng.random() < 0.5] if name == 'stacc' else ['sttopk', rng.choice([1, 2]), [], lm, rng.random() < 0.5]
        ex = ml.gen_example(rng, spec, L, C, 1, small=True)
        for i in range(L):
          ex['s'][i][j] = rng.choice([-3, -1, 0, 0])        # negative / zero raw score on the masked class
          if ex['t'][i] == j:
            ex['t'][i] = (j + 2) % C
        yield {'kind': 'ex', 'spec': spec, 'ex': ex, 'tkey': 'y', 'pkey': None, 'pdtype': pdtype}

  def _random_case(self, rng, name):
    C = rng.choice([1, 2, 3, 3, 4, 5, 6])
    L = rng.choice([1, 2, 3, 4, 5, 6])
    D = 1
    # narrow label dtypes (raw label arrays) with enough classes that target * num_classes leaves their range
    tdtype = 'int32'
    if rng.random() < 0.12:
      C = rng.choice([12, 20, 62, 100])
      L = rng.choice([1, 2, 3])
      tdtype = rng.choice(['uint8', 'int8', 'int16', 'uint16'])
    nonneg = tdtype.startswith('u')
    if name == 'pd':
      # a third of the PerDomain cases wrap a loss-valued base (whose statistic can be non-finite)
      bname = rng.choice(['ce', 'stce', 'sce']) if rng.random() < 0.33 else rng.choice(ml.BASE_NAMES)
      base = ml.gen_base_spec(rng, bname, C, nonneg)
      D = rng.randrange(1, 5)
      spec = ['pd', base, D]
      if rng.random() < 0.15:
        D2 = rng.randrange(1, 4)
        spec = ['pd', spec, D2]      # nested: the same domain id indexes both levels
        D = min(D, D2)
    else:
      spec = ml.gen_base_spec(rng, name, C, nonneg)
    # prediction dtype: fedjax's docstrings/tests also feed integer arrays; extreme / -inf logits (float only)
    pdtype = 'float32'
    if ml.base_of(spec)[0] in ml.NEEDS_PRED and rng.random() < 0.4:
      pdtype = rng.choice(['int32', 'int8', 'int64'])
    extreme = pdtype == 'float32' and ml.is_loss(spec) and rng.random() < (0.7 if name == 'pd' else 0.45)
    ex = ml.gen_example(rng, spec, L, C, D, small=(pdtype == 'int8'), extreme=extreme)
    if tdtype != 'int32':
      for i in range(len(ex['t'])):
        if rng.random() < 0.6:
          ex['t'][i] = rng.randrange(max(0, C - 4), C)       # high class indices: target * num_classes is large
    if name == 'cm' and rng.random() < 0.1:
      spec = ['cm', C + rng.choice([-1, 1]) if C > 1 else C + 1]      # documented ValueError
      ex['t'] = [0]
    tkey = rng.choice(['y', 'y', 'tgt'])
    pkey = rng.choice([None, None, 'p'])
    case = {'kind': 'ex', 'spec': spec, 'ex': ex, 'tkey': tkey, 'pkey': pkey}
    if pdtype != 'float32':
      case['pdtype'] = pdtype
    if tdtype != 'int32':
      case['tdtype'] = tdtype
    return case

  def _ident_case(self, rng):
    C = rng.randrange(1, 6)
    D = rng.randrange(1, 4)
    n = rng.randrange(1, 7)
    exs = [ml.gen_example(rng, ['acc'], 1, C, D) for _ in range(n)]
    return {'kind': 'ident', 'C': C, 'D': D, 'exs': exs}

  def _exhaustive(self):
    # top-k / accuracy: every score vector over {0,1,2}^C, every target, k in -2..C+1
    for C in (1, 2, 3):
      for sc in itertools.product([0, 1, 2], repeat=C):
        for t in range(C):
          ex = {'t': [t], 's': [list(sc)], 'd': 0}
          yield {'kind': 'ex', 'spec': ['acc'], 'ex': ex, 'tkey': 'y', 'pkey': None}
          for k in range(-2, C + 2):
            yield {'kind': 'ex', 'spec': ['topk', k], 'ex': ex, 'tkey': 'y', 'pkey': None}
    # target-only sequence metrics: all target sequences of length <= 3 over {0,1,2}, value sets over subsets
    subsets = [[], [0], [1], [0, 1], [1, 2], [0, 1, 2]]
    for L in (1, 2, 3):
      for ts in itertools.product([0, 1, 2], repeat=L):
        ex = {'t': list(ts), 's': [[0, 0, 0]] * L, 'd': 0}
        for masked in ([], [0], [0, 2]):
          for spec in (['count', masked], ['scount', masked], ['len', masked], ['trunc', 2, masked]):
            yield {'kind': 'ex', 'spec': spec, 'ex': ex, 'tkey': 'y', 'pkey': None}
          for oov in subsets:
            for pp in (False, True):
              yield {'kind': 'ex', 'spec': ['oov', oov, masked, pp], 'ex': ex, 'tkey': 'y', 'pkey': None}

  def search_cases(self, rng):
    return self.gen_cases(rng, 'search')

  # ------------------------------------------------------------------ shrinking
  def shrink(self, case):
    if case.get('kind') != 'ex':
      if case.get('kind') == 'ident' and len(case['exs']) > 1:
        for i in range(len(case['exs'])):
          yield {**case, 'exs': case['exs'][:i] + case['exs'][i + 1:]}
      return
    spec, ex = case['spec'], case['ex']
    if case['tkey'] != 'y' or case['pkey'] is not None:
      yield {**case, 'tkey': 'y', 'pkey': None}
    if case.get('pdtype'):
      yield {k: v for k, v in case.items() if k != 'pdtype'}
    if case.get('tdtype'):
      yield {k: v for k, v in case.items() if k != 'tdtype'}
    for i, row in enumerate(ex['s']):
      for j, v in enumerate(row):
        if not ml.is_moderate(v):
          ns = [list(r) for r in ex['s']]
          ns[i][j] = 0
          yield {**case, 'ex': {**ex, 's': ns}}
    if spec[0] == 'pd':
      yield {**case, 'spec': spec[1]}
    n = len(ex['t'])
    if ml.is_seq(spec) and n > 1:
      for i in range(n):
        yield {**case, 'ex': {**ex, 't': ex['t'][:i] + ex['t'][i + 1:], 's': ex['s'][:i] + ex['s'][i + 1:]}}
    if ml.base_of(spec)[0] not in ml.NEEDS_PRED and any(v for row in ex['s'] for v in row):
      yield {**case, 'ex': {**ex, 's': [[0] for _ in ex['s']]}}      # prediction is unused
    # rank-transform the scores (keeps ties and order)
    small = [[sorted(set(row)).index(v) for v in row] if all(ml.is_moderate(v) for v in row) else list(row)
             for row in ex['s']]
    if small != ex['s']:
      yield {**case, 'ex': {**ex, 's': small}}
    b = ml.base_of(spec)

    def with_base(nb):
      def rebuild(s):
        return nb if s[0] != 'pd' else ['pd', rebuild(s[1]), s[2]]
      return {**case, 'spec': rebuild(spec)}

    for idx, v in enumerate(b):
      if idx == 0:
        continue
      if isinstance(v, list) and v and b[0] != 'pd':
        for i in range(len(v)):
          if not (b[0] in ('stacc', 'sttopk') and idx == {'stacc': 2, 'sttopk': 3}[b[0]]):
            yield with_base(b[:idx] + [v[:i] + v[i + 1:]] + b[idx + 1:])
      if v is True:
        yield with_base(b[:idx] + [False] + b[idx + 1:])
    if b[0] == 'stacc' and b[2] is not None:
      yield with_base(b[:2] + [None] + b[3:])
    if b[0] == 'sttopk' and b[3] is not None:
      yield with_base(b[:3] + [None] + b[4:])

  # ------------------------------------------------------------------ evaluation
  def evaluate(self, case, ctx):
    if case.get('kind') == 'ident':
      return self._evaluate_ident(case, ctx)
    jnp, M = self.jnp, self.M
    spec, ex, tkey, pkey = case['spec'], case['ex'], case['tkey'], case['pkey']
    L = len(ex['t'])
    name = ml.name_of(spec)
    problems, corr = [], []
    detail = {}
    shape_failure = False

    def run(sp):
      metric = ml.build_metric(M, sp, tkey, pkey)
      return metric.evaluate_example(ml.real_example(jnp, sp, ex, tkey, tdtype=case.get('tdtype', 'int32')),
                                     ml.real_prediction(jnp, sp, ex, pkey, case.get('pdtype', 'float32')))

    b = ml.base_of(spec)
    expect_err = b[0] == 'cm' and b[1] != len(ex['s'][0])
    try:
      stat = run(spec)
      impl = ml.stat_arrays(stat)
      impl_result = np.asarray(stat.result(), dtype=np.float64)
      err = None
    except Exception as e:   # pylint: disable=broad-except
      err, impl = exc_enum(e), None
    ans = self._ask_model(case, ctx)
    detail['model'] = ans
    tags = [name, f'L={L}' if ml.is_seq(spec) else 'scalar', f'keys={tkey}/{pkey}']

    if expect_err:
      # num_classes != number of scores is outside the metric's domain: the property says nothing about it
      # (today: ValueError).  The outcome is only recorded in the input distribution.
      detail['impl'] = 'err:' + str(err) if err else 'a result'
      return Outcome(nontrivial=False, tags=tuple(tags + ['out-of-domain:' + ('error' if err else 'result')]),
                     key=classify(spec), detail=detail)
    if err:
      detail['impl'] = 'err:' + str(err)
      problems.append(f'{name}: evaluate_example raised {err} on an in-domain example')
      return Outcome(oracle_fail='; '.join(problems) or None, nontrivial=True, tags=tuple(tags + ['error-case']),
                     key=classify(spec, shape_failure=True), detail=detail)

    # ---- independent oracle: the documented definition, recomputed in Python
    kind, ref = ml.ref_stat(spec, ex)
    shape = ml.stat_shape(spec, L)
    loss = ml.is_loss(spec)
    scale = 1.0 + sum(abs(v) for row in ex['s'] for v in row if ml.is_moderate(v)) if loss else 0.0
    has_extreme = any(not ml.is_moderate(v) for row in ex['s'] for v in row)

    def same(g, r):
      """impl value vs reference: equal (covers +-inf), or both finite and within the float32 tolerance"""
      if g == r:
        return True
      return bool(loss and np.isfinite(g) and np.isfinite(r) and ml.close(g, r, scale))
    if impl[0] != kind:
      problems.append(f'{name}: statistic type {impl[0]}, documented {kind}')
    else:
      for fld, arr in zip(('accum', 'weight'), impl[1:]):
        if arr.shape != shape:
          problems.append(f'{name}: {fld} has shape {arr.shape}, documented {shape}')
          shape_failure = True
      if not problems:
        flat = [a.reshape(-1) for a in impl[1:]]
        if kind == 'mean':
          got = list(zip(flat[0].tolist(), flat[1].tolist()))
          for i, ((ga, gw), (ra, rw)) in enumerate(zip(got, ref)):
            if gw != rw or not same(ga, ra):
              problems.append(f'{name}: entry {i} is (accum={ga}, weight={gw}), definition gives ({ra}, {rw})')
              break
          res = impl_result.reshape(-1).tolist()
          for i, ((ra, rw), r) in enumerate(zip(ref, res)):
            want = ml.safe_div(ra, rw)
            if not (r == want or (np.isfinite(r) and np.isfinite(want) and ml.close(r, want, scale))):   # an f32 division
              problems.append(f'{name}: result[{i}] = {r}, definition gives {want}')
              break
          detail['impl'] = got
        else:
          got = flat[0].tolist()
          if got != ref:
            diff = [(i, g, r) for i, (g, r) in enumerate(zip(got, ref)) if g != r][:4]
            problems.append(f'{name}: accum differs from the definition at (flat index, got, want) {diff}'
                            if len(got) > 8 else f'{name}: accum {got}, definition gives {ref}')
          detail['impl'] = got
        detail['reference'] = ref

    # ---- documented identities on the real code
    if not problems and b[0] in ('acc', 'stacc'):
      twin_b = ['topk', 1] if b[0] == 'acc' else ['sttopk', 1] + b[1:]
      twin = twin_b
      s = spec
      wrap = []
      while s[0] == 'pd':
        wrap.append(s[2])
        s = s[1]
      for d in reversed(wrap):
        twin = ['pd', twin, d]
      try:
        t_impl = ml.stat_arrays(run(twin))
        if any(not np.array_equal(x, y) for x, y in zip(impl[1:], t_impl[1:])):
          problems.append(f'{name}: top-1 accuracy differs from accuracy')
        ctx.count('identity_top1_eq_accuracy')
      except Exception as e:   # pylint: disable=broad-except
        problems.append(f'top-1 twin raised {exc_enum(e)}')

    # ---- correspondence with the Lean reference
    if ans == 'err':
      corr.append('model rejects the example, impl accepts')
    elif ans[0] != impl[0]:
      corr.append(f'model kind {ans[0]} vs impl {impl[0]}')
    elif ans[0] == 'mean':
      ia, iw = impl[1].reshape(-1).tolist(), impl[2].reshape(-1).tolist()
      if len(ans[1]) != len(ia):
        corr.append(f'model size {len(ans[1])} vs impl {len(ia)}')
      else:
        for i, ((ma, mw), a, w) in enumerate(zip(ans[1], ia, iw)):
          if loss and not (np.isfinite(ref[i][0]) and np.isfinite(a)):
            # the rational reference cannot express a non-finite loss; such an entry was compared with the
            # Python oracle above (which requires exactly +inf / rejects NaN); weights are still compared
            ok = (w == mw)
            ctx.count('nonfinite_entries_oracle_only')
          else:
            ok = (w == mw) and (a == ma if not loss else ml.close(a, float(ma), scale))
          if not ok:
            corr.append(f'entry {i}: model ({ma},{mw}) vs impl ({a},{w})')
            break
    else:
      ia = impl[1].reshape(-1).tolist()
      if [float(x) for x in ans[1]] != ia:
        corr.append(f'model {ans[1]} vs impl {ia}')

    # ---- distribution tags / non-triviality
    if any(len(set(r)) < len(r) for r in ex['s']) and b[0] in ml.NEEDS_PRED:
      tags.append('ties')
    if kind == 'mean' and all(w == 0 for _, w in ref) and ml.is_seq(spec):
      tags.append('fully-masked')
    if b[0] in ('topk', 'sttopk'):
      C = len(ex['s'][0])
      tags.append('k<1' if b[1] < 1 else 'k>=C' if b[1] >= C else 'k-mid')
    if b[0] in ('stacc', 'sttopk'):
      lm = b[2] if b[0] == 'stacc' else b[3]
      tags.append('lmask=' + ('none' if lm is None else 'inf' if any(isinstance(x, str) for x in lm) else 'finite'))
    if case.get('pdtype'):
      tags.append('pred=' + case['pdtype'])
    if case.get('tdtype'):
      tags.append('target=' + case['tdtype'])
      tags.append(f'classes={len(ex["s"][0])}')
    if has_extreme:
      tags.append('extreme/-inf-logits')
      if kind == 'mean' and any(not np.isfinite(a) for a, _ in ref):
        tags.append('nonfinite-statistic')
    nontrivial = ('fully-masked' in tags) or (any(a != 0 or w != 0 for a, w in ref) if kind == 'mean'
                                                else any(v != 0 for v in ref))
    return Outcome(oracle_fail='; '.join(problems[:3]) or None, corr_fail='; '.join(corr[:3]) or None,
                   nontrivial=nontrivial, tags=tuple(tags),
                   key=classify(spec, shape_failure, nonfinite=bool(loss and has_extreme and problems)), detail=detail)

  def _evaluate_ident(self, case, ctx):
    """Confusion-matrix / per-domain identities over a list of scalar examples (real code only)."""
    jnp, M = self.jnp, self.M
    C, D, exs = case['C'], case['D'], case['exs']
    problems = []

    def stats(spec):
      m = ml.build_metric(M, spec)
      return [ml.stat_arrays(m.evaluate_example(ml.real_example(jnp, spec, e), ml.real_prediction(jnp, spec, e)))
              for e in exs]

    try:
      cm = sum(s[1] for s in stats(['cm', C]))
      acc = stats(['acc'])
      n_correct = sum(float(s[1]) for s in acc)
      if cm.sum() != len(exs):
        problems.append(f'confusion matrix total {cm.sum()} != {len(exs)} examples')
      if np.trace(cm) != n_correct:
        problems.append(f'confusion matrix trace {np.trace(cm)} != correct predictions {n_correct}')
      for e in exs:
        pass
      want = np.zeros((C, C))
      for e in exs:
        want[e['t'][0], ml.ref_argmax(e['s'][0])] += 1
      if not np.array_equal(cm, want):
        problems.append('confusion matrix cells differ from counts at (target, predicted)')
      pd = stats(['pd', ['acc'], D])
      pa = sum(s[1] for s in pd)
      pw = sum(s[2] for s in pd)
      for d in range(D):
        sel = [i for i, e in enumerate(exs) if e['d'] == d]
        a = sum(float(acc[i][1]) for i in sel)
        if pa[d] != a or pw[d] != len(sel):
          problems.append(f'per-domain accuracy of domain {d}: ({pa[d]},{pw[d]}) != base metric on its examples ({a},{len(sel)})')
      pcm = sum(s[1] for s in stats(['pd', ['cm', C], D]))
      for d in range(D):
        w = np.zeros((C, C))
        for e in exs:
          if e['d'] == d:
            w[e['t'][0], ml.ref_argmax(e['s'][0])] += 1
        if not np.array_equal(pcm[d], w):
          problems.append(f'per-domain confusion matrix of domain {d} differs from the base metric on its examples')
    except Exception as e:   # pylint: disable=broad-except
      problems.append(f'identity evaluation raised {exc_enum(e)}: {str(e)[:120]}')
    ctx.count('identity_lists')
    return Outcome(oracle_fail='; '.join(problems[:3]) or None, nontrivial=len(exs) > 1,
                   tags=('identities',), key='C14/identities')


PROPERTY = C14
