"""C08 — all federated-dataset implementations expose the same mapping."""
import atexit
import itertools
import os
import shutil
import tempfile

import numpy as np

from props import _fd_xproc
from vlib import core
from vlib.core import Outcome, line

KINDS = ['mem', 'sql', 'submem', 'subsql']
KNOWN_SIZE_KEY = 'C08/sizes/preprocessed-vs-stored'

ID_POOL = [b'a', b'a\x00', b'a\x00\x00', b'ab', b'b', b'\xff', b'\x00', b'', b'a\x01', b'b\x00',
           b'0123456789012345678901234', b'0123456789012345678901234\x00', b'\xff\xff', b'a\xff']


CONTAINERS = ['list', 'tuple', 'set', 'frozenset', 'dictkeys', 'gen', 'iter', 'filter', 'islice',
              'base_ids_filter']
SINGLE_PASS = ('gen', 'iter', 'filter', 'islice', 'base_ids_filter')


def make_ids(kind, ids, fd):
  """The same ids packaged as every kind of iterable a caller may pass (re-iterable or single-pass)."""
  ids = list(ids)
  if kind == 'list':
    return ids
  if kind == 'tuple':
    return tuple(ids)
  if kind == 'set':
    return set(ids)
  if kind == 'frozenset':
    return frozenset(ids)
  if kind == 'dictkeys':
    return dict.fromkeys(ids).keys()
  if kind == 'gen':
    return (c for c in ids)
  if kind == 'iter':
    return iter(ids)
  if kind == 'filter':
    return filter(lambda c: True, ids)
  if kind == 'islice':
    return itertools.islice(ids, len(ids))
  if kind == 'base_ids_filter':
    # the idiom `SubsetFederatedData(fd, (c for c in fd.client_ids() if keep(c)))`; ids outside fd are chained
    # behind it so that the request denotes the same id set as the list form
    want = set(ids)
    have = set(fd.client_ids())
    return itertools.chain(filter(want.__contains__, fd.client_ids()), [c for c in ids if c not in have])
  raise ValueError(kind)


def hx(b):
  return b.hex()


def ub(h):
  return None if h is None else bytes.fromhex(h)


def ids_enc(b):
  return list(b)


# ---------------------------------------------------------------- the preprocessors (mirrored by Handlers/C08.lean)
def client_fn(t):
  def f(cid, ex):
    out = dict(ex)
    if t == 0:
      out = {k: v[:1] for k, v in out.items()}
      out['x'] = out['x'] * 32
    elif t == 7:
      out['x'] = out['x'] * 32 + 8 + len(cid) % 8
    else:
      out['x'] = out['x'] * 32 + t % 8
    return out
  return f


def batch_fn(t):
  def g(ex):
    out = dict(ex)
    out['x'] = out['x'] * 32 + 16 + t % 8
    return out
  return g


def raw_examples(rows):
  x = np.array(rows, dtype=np.int64)
  return {'x': x, 'y': (x % 7).astype(np.float32).reshape(-1, 1)}


# ---------------------------------------------------------------- independent oracle: the mapping as plain dict/set code
class PySpec:
  def __init__(self, table):
    self.cur = {ub(h): list(rows) for h, rows in table}
    self.cf, self.bf = [], []
    self.error = None

  def apply(self, op):
    if self.error:
      return
    if op[0] == 0:
      s, e = ub(op[1]), ub(op[2])
      self.cur = {k: v for k, v in self.cur.items() if (s is None or s <= k) and (e is None or k < e)}
    elif op[0] == 1:
      want = {ub(h) for h in op[1]}
      if not want <= set(self.cur):
        self.error = 'ValueError'
      else:
        self.cur = {k: v for k, v in self.cur.items() if k in want}
    elif op[0] == 2:
      self.cf.append(op[1])
    else:
      self.bf.append(op[1])

  def dataset(self, cid):
    rows = list(self.cur[cid])
    for t in self.cf:
      if t == 0:
        rows = [v * 32 for v in rows[:1]]
      elif t == 7:
        rows = [v * 32 + 8 + len(cid) % 8 for v in rows]
      else:
        rows = [v * 32 + t % 8 for v in rows]
    allx = list(rows)
    for t in self.bf:
      allx = [v * 32 + 16 + t % 8 for v in allx]
    return rows, allx


def exc_name(e):
  n = type(e).__name__
  return n if n in ('KeyError', 'ValueError', 'TypeError', 'IndexError') else 'other:' + n


class RecRng:
  """Recording stand-in for the `rng` argument of buffered_shuffle."""

  def __init__(self, seed):
    self.rs = np.random.RandomState(seed)
    self.perm, self.swaps, self.other_draws = None, [], False

  def shuffle(self, x):
    self.rs.shuffle(x)
    self.perm = [int(v) for v in x]

  def randint(self, *a, **k):
    v = self.rs.randint(*a, **k)
    if np.ndim(v) == 0:
      self.swaps.append(int(v))
    else:
      self.other_draws = True
    return v

  def __getattr__(self, name):          # any other RandomState method a rewrite may prefer
    self.other_draws = True
    return getattr(self.rs, name)


class C08(core.Property):
  ID = 'C08'
  RULE = ('cases = (table of 0..8 clients over order-adjacent byte ids in sorted or shuffled insertion order, '
          'extra clients of the larger base of the subset-wrapped roots, op sequence of length 0..6 over '
          'slice/subset/preprocess_client/preprocess_batch, optionally on a dataset CONSTRUCTED with non-empty client / '
          'batch preprocessor chains (non-commuting functions), bulk-get request, point probes, shuffle buffer/seed '
          '(seed 0 and np.int64 seeds included); '
          'subset ops and subset roots built from every kind of id iterable (list, tuple, set, frozenset, dict keys, '
          'generator, iter, filter, islice, filtered base.client_ids()); '
          'all four implementations (in-memory, SQLite, subset over in-memory, subset over SQLite) observed after '
          'every op, alone and with several live readers over the same view object (zipped listings, suspended '
          'iterators and shuffled streams across full passes, parent and derived view read alternately), plus one pair '
          'of fresh interpreters with different PYTHONHASHSEED per run (iteration orders and shuffled passes of a '
          'sliced bytes- and str-keyed dataset must not depend on the process); non-trivial = >= 2 clients, >= 2 ops and at least one slice or subset that removes a client; '
          'distinct by case digest')
  TRUSTED = ['SQLite BLOB comparison = Python bytes comparison = lexicographic order on List Nat (exercised by the '
             'id pool: trailing zero bytes, prefixes, empty id, 0xff)',
             'sqlite3 / zlib / msgpack round trip of the stored examples (real builder and reader are used)',
             'purity of the Python objects (parents unchanged, repeated iteration identical) is monitored on every '
             'case, not proved']
  ASSUMPTIONS = ['client ids within one table are distinct (dict keys / PRIMARY KEY)',
                 'shuffled_clients is only observed on non-empty views (on an empty view every implementation '
                 'spins forever; outside the property)',
                 'client_size(s) means the stored number of examples (what the SQLite implementation reports)',
                 'a subset whose ids are not all in the view is outside the property: what an implementation does there '
                 '(the documented ValueError) is recorded in the evidence, not judged',
                 'with an id outside the view in a get_clients request the KeyError and the request order are required; '
                 'how many earlier clients were already handed out is not (any prefix is accepted)',
                 'how buffered_shuffle consumes its rng is not part of the property: agreement of the bufferedShuffle '
                 'model with the recorded draws is an evidence count (the exact tie belongs to C15)']
  CASE_TIMEOUT_S = 30       # a stream that stops yielding is reported as a failing input, quickly
  QUICK_BUDGET_S = 110
  THOROUGH_BUDGET_S = 560

  def setup(self, ctx):
    from fedjax.core import client_datasets as cds
    from fedjax.core import federated_data as fdm
    from fedjax.core import in_memory_federated_data as mem
    from fedjax.core import sqlite_federated_data as sql
    self.cds, self.fdm, self.mem, self.sql = cds, fdm, mem, sql
    self.tmp = tempfile.mkdtemp(prefix='c08_')
    self.sql_cache = {}
    self.n_files = 0
    atexit.register(self._cleanup)

  def _cleanup(self):
    for fd in self.sql_cache.values():
      try:
        fd._connection.close()
      except Exception:
        pass
    shutil.rmtree(self.tmp, ignore_errors=True)

  # ---------------------------------------------------------------- roots
  def sqlite_of(self, entries):
    key = tuple((h, tuple(r)) for h, r in entries)
    if key not in self.sql_cache:
      self.n_files += 1
      path = os.path.join(self.tmp, f'd{self.n_files}.sqlite')
      with self.sql.SQLiteFederatedDataBuilder(path) as b:
        b.add_many([(ub(h), raw_examples(r)) for h, r in entries])
      self.sql_cache[key] = self.sql.SQLiteFederatedData.new(path)
      if len(self.sql_cache) > 400:
        k0 = next(iter(self.sql_cache))
        self.sql_cache.pop(k0)   # the connection is closed when the last view holding it goes away
    return self.sql_cache[key]

  def root(self, kind, big, container='list', init=None):
    """init = {'c': [tags], 'b': [tags]}: preprocessor chains the dataset is CONSTRUCTED with (in-memory: the public
    constructor arguments; SQLite: `new(path)` followed by the registrations, its documented entry point)."""
    table = [(h, r) for h, r, sel in big if sel]
    full = [(h, r) for h, r, _ in big]
    sel = [ub(h) for h, _ in table]
    ctags, btags = (init or {}).get('c', []), (init or {}).get('b', [])

    def mem_of(entries):
      if not ctags and not btags:
        return self.mem.InMemoryFederatedData({ub(h): raw_examples(r) for h, r in entries})
      return self.mem.InMemoryFederatedData(
          {ub(h): raw_examples(r) for h, r in entries},
          preprocess_client=self.fdm.ClientPreprocessor([client_fn(t) for t in ctags]),
          preprocess_batch=self.cds.BatchPreprocessor([batch_fn(t) for t in btags]))

    def sql_of(entries):
      fd = self.sqlite_of(entries)
      for t in ctags:
        fd = fd.preprocess_client(client_fn(t))
      for t in btags:
        fd = fd.preprocess_batch(batch_fn(t))
      return fd
    if kind == 'mem':
      return mem_of(table)
    if kind == 'sql':
      return sql_of(table)
    base = mem_of(full) if kind == 'submem' else sql_of(full)
    return self.fdm.SubsetFederatedData(base, make_ids(container, sel, base))

  @staticmethod
  def init_ops(case):
    init = case.get('init') or {}
    return [[2, t] for t in init.get('c', [])] + [[3, t] for t in init.get('b', [])]

  @staticmethod
  def shuffle_seed(case):
    sh = case['shuffle']
    return np.int64(sh[1]) if len(sh) > 2 and sh[2] else sh[1]

  def apply_op(self, fd, op):
    if op[0] == 0:
      return fd.slice(ub(op[1]), ub(op[2]))
    if op[0] == 1:
      return self.fdm.SubsetFederatedData(fd, make_ids(op[2] if len(op) > 2 else 'list', [ub(h) for h in op[1]], fd))
    if op[0] == 2:
      return fd.preprocess_client(client_fn(op[1]))
    return fd.preprocess_batch(batch_fn(op[1]))

  # ---------------------------------------------------------------- observation of a real view
  @staticmethod
  def ds_obs(cid, ds):
    raw = ds.raw_examples
    allx = ds.all_examples()
    ok_y = (len(raw['y']) == len(raw['x']) and raw['y'].dtype == np.float32 and raw['y'].shape[1:] == (1,))
    return [hx(cid), [int(v) for v in raw['x']], [int(v) for v in allx['x']], bool(ok_y)]

  def observe(self, fd, req, probes, light=False):
    o = {}
    o['num'] = int(fd.num_clients())
    o['ids'] = [hx(c) for c in fd.client_ids()]
    o['sizes'] = [[hx(c), int(n)] for c, n in fd.client_sizes()]
    o['clients'] = [self.ds_obs(c, d) for c, d in fd.clients()]
    if light:
      return o
    o['repeat_ok'] = ([hx(c) for c in fd.client_ids()] == o['ids'] and
                      [self.ds_obs(c, d) for c, d in fd.clients()] == o['clients'] and
                      [[hx(c), int(n)] for c, n in fd.client_sizes()] == o['sizes'])
    got, err = [], None
    try:
      for c, d in fd.get_clients([ub(h) for h in req]):
        got.append(self.ds_obs(c, d))
    except Exception as e:
      err = exc_name(e)
    o['getN'], o['getN_err'] = got, err
    forms = []
    for form in ('gen', 'iter', 'tuple', 'dictkeys' if len(set(req)) == len(req) else 'islice'):
      g2, e2 = [], None
      try:
        for c, d in fd.get_clients(make_ids(form, [ub(h) for h in req], fd)):
          g2.append(self.ds_obs(c, d))
      except Exception as e:
        e2 = exc_name(e)
      k2 = min(len(g2), len(got))
      if e2 != err or (g2 != got if err is None else g2[:k2] != got[:k2]):
        forms.append(f'get_clients(<{form}> of {req}) gave {[g[0] for g in g2]} / {e2}, the list form '
                     f'{[g[0] for g in got]} / {err}')
    o['getN_forms'] = forms
    pr = []
    for h in probes:
      try:
        a = int(fd.client_size(ub(h)))
      except Exception as e:
        a = exc_name(e)
      try:
        b = self.ds_obs(ub(h), fd.get_client(ub(h)))
      except Exception as e:
        b = exc_name(e)
      pr.append([a, b])
    o['probes'] = pr
    return o

  # ------------------------------------------------------------ several live readers over ONE view object
  def _ids(self, it):
    return (hx(c) for c in it)

  def _sizes(self, it):
    return ([hx(c), int(n)] for c, n in it)

  def _clients(self, it):
    return (self.ds_obs(c, d) for c, d in it)

  @staticmethod
  def _drain_zip(*iters):
    """Advances the readers in lock step until all are exhausted; returns what each one yielded."""
    outs = [[] for _ in iters]
    stop = object()
    for row in itertools.zip_longest(*iters, fillvalue=stop):
      for o, v in zip(outs, row):
        if v is not stop:
          o.append(v)
    return outs

  def interleave(self, fd, o, req, shuffle_seed):
    """Every reader must yield exactly what it yields alone (o = the solo observation of this view)."""
    problems = []
    ids, sizes, clients = o['ids'], o['sizes'], o['clients']
    n = len(ids)

    def expect(name, got, want):
      if got != want:
        problems.append(f'{name}: {[g[0] if isinstance(g, list) else g for g in got]} instead of '
                        f'{[w[0] if isinstance(w, list) else w for w in want]}'
                        + ('' if [g[0] if isinstance(g, list) else g for g in got] !=
                           [w[0] if isinstance(w, list) else w for w in want] else f' (payload differs: {got} vs {want})'))

    def guarded(name, fn):
      try:
        fn()
      except Exception as e:
        problems.append(f'{name}: raised {exc_name(e)}: {str(e)[:120]}')

    def two_a():
      a, b = self._drain_zip(self._ids(fd.client_ids()), self._sizes(fd.client_sizes()))
      expect('client_ids() zipped with client_sizes()', a, ids)
      expect('client_sizes() zipped with client_ids()', b, sizes)

    def two_b():
      a, b = self._drain_zip(self._sizes(fd.client_sizes()), self._clients(fd.clients()))
      expect('client_sizes() zipped with clients()', a, sizes)
      expect('clients() zipped with client_sizes()', b, clients)

    def two_c():
      a, b = self._drain_zip(self._clients(fd.clients()), self._clients(fd.clients()))
      expect('clients() zipped with a second clients()', a, clients)
      expect('second clients() zipped with clients()', b, clients)

    def three():
      a, b, c = self._drain_zip(self._ids(fd.client_ids()), self._clients(fd.clients()),
                                self._sizes(fd.client_sizes()))
      expect('client_ids() in a 3-way zip', a, ids)
      expect('clients() in a 3-way zip', b, clients)
      expect('client_sizes() in a 3-way zip', c, sizes)

    def suspended():
      k = max(1, n // 2) if n else 0
      it = self._clients(fd.clients())
      head = list(itertools.islice(it, k))
      expect('client_ids() pass while a clients() iterator is suspended', list(self._ids(fd.client_ids())), ids)
      expect('clients() pass while a clients() iterator is suspended', list(self._clients(fd.clients())), clients)
      if fd.num_clients() != o['num']:
        problems.append('num_clients() changed while a clients() iterator is suspended')
      got, err = [], None
      try:
        for c, d in fd.get_clients(ub(h) for h in req):
          got.append(self.ds_obs(c, d))
      except Exception as e:
        err = exc_name(e)
      if got != o['getN'] or err != o['getN_err']:
        problems.append(f'get_clients({req}) while a clients() iterator is suspended: {got} / {err}')
      expect('client_sizes() pass while a clients() iterator is suspended', list(self._sizes(fd.client_sizes())), sizes)
      expect('a clients() iterator suspended across other passes', head + list(it), clients)
      it2 = self._sizes(fd.client_sizes())
      head2 = list(itertools.islice(it2, k))
      expect('clients() pass while a client_sizes() iterator is suspended', list(self._clients(fd.clients())), clients)
      expect('a client_sizes() iterator suspended across a clients() pass', head2 + list(it2), sizes)
      it3 = self._ids(fd.client_ids())
      head3 = list(itertools.islice(it3, k))
      expect('client_sizes() pass while a client_ids() iterator is suspended', list(self._sizes(fd.client_sizes())), sizes)
      expect('a client_ids() iterator suspended across a client_sizes() pass', head3 + list(it3), ids)

    def stream():
      if n == 0 or not clients:
        return          # shuffled_clients never yields on an empty view (outside the property)
      for buf in sorted({1, 2 if n > 2 else 1, n + 1}):
        alone = list(itertools.islice(self._clients(fd.shuffled_clients(buf, shuffle_seed)), 2 * n + 1))
        st = self._clients(fd.shuffled_clients(buf, shuffle_seed))
        k = max(1, n // 2)
        head = list(itertools.islice(st, k))
        expect(f'clients() pass while a shuffled_clients({buf}) stream is open', list(self._clients(fd.clients())), clients)
        mid = list(itertools.islice(st, n - k + 1))       # crosses the pass boundary
        expect(f'client_sizes() pass while a shuffled_clients({buf}) stream is open',
               list(self._sizes(fd.client_sizes())), sizes)
        expect(f'client_ids() pass while a shuffled_clients({buf}) stream is open', list(self._ids(fd.client_ids())), ids)
        tail = list(itertools.islice(st, n))
        expect(f'a shuffled_clients({buf}, {shuffle_seed}) stream suspended across clients()/client_sizes() passes',
               head + mid + tail, alone)
        if sorted(alone[:n]) != sorted(clients) or sorted((head + mid + tail)[:n]) != sorted(clients):
          problems.append(f'shuffled_clients({buf}): a pass interleaved with other readers is not every client once: '
                          f'{[g[0] for g in (head + mid + tail)[:n]]}')
        s1 = self._clients(fd.shuffled_clients(buf, shuffle_seed))
        s2 = self._clients(fd.shuffled_clients(buf, shuffle_seed))
        a, b = [], []
        for _ in range(2 * n + 1):
          a.append(next(s1))
          b.append(next(s2))
        expect(f'two shuffled_clients({buf}) streams advanced alternately (first)', a, alone)
        expect(f'two shuffled_clients({buf}) streams advanced alternately (second)', b, alone)

    for name, fn in (('zip(client_ids, client_sizes)', two_a), ('zip(client_sizes, clients)', two_b),
                     ('zip(clients, clients)', two_c), ('3-way zip', three), ('suspended iterator', suspended),
                     ('suspended shuffled stream', stream)):
      guarded(name, fn)
    return problems

  def parent_child(self, parent, po, child, co):
    """A derived view read while its parent is being read (and vice versa): both unchanged."""
    problems = []

    def expect(name, got, want):
      if got != want:
        problems.append(f'{name}: {[g[0] for g in got]} instead of {[w[0] for w in want]}'
                        + ('' if [g[0] for g in got] != [w[0] for w in want] else ' (payload differs)'))
    try:
      pit = self._clients(parent.clients())
      ph = list(itertools.islice(pit, 1))
      cit = self._clients(child.clients())
      ch = list(itertools.islice(cit, 1))
      expect('child client_sizes() while parent and child clients() are open', list(self._sizes(child.client_sizes())), co['sizes'])
      expect('parent client_sizes() while parent and child clients() are open', list(self._sizes(parent.client_sizes())), po['sizes'])
      pz, cz = self._drain_zip(self._ids(parent.client_ids()), self._ids(child.client_ids()))
      expect('parent client_ids() zipped with child client_ids()', [[x] for x in pz], [[x] for x in po['ids']])
      expect('child client_ids() zipped with parent client_ids()', [[x] for x in cz], [[x] for x in co['ids']])
      expect('child clients() opened while the parent was being read', ch + list(cit), co['clients'])
      expect('parent clients() suspended while a child was derived and read', ph + list(pit), po['clients'])
      pz, cz = self._drain_zip(self._clients(parent.clients()), self._clients(child.clients()))
      expect('parent clients() zipped with child clients()', pz, po['clients'])
      expect('child clients() zipped with parent clients()', cz, co['clients'])
    except Exception as e:
      problems.append(f'parent/child interleaving raised {exc_name(e)}: {str(e)[:120]}')
    return problems

  def observe_shuffle(self, fd, n, buf, seed):
    it = fd.shuffled_clients(buf, seed)
    p1 = [self.ds_obs(c, d) for c, d in itertools.islice(it, n)]
    p2 = [self.ds_obs(c, d) for c, d in itertools.islice(it, n)]
    again = [self.ds_obs(c, d) for c, d in itertools.islice(fd.shuffled_clients(buf, seed), n)]
    return p1, p2, again

  # ---------------------------------------------------------------- generation
  def gen_table(self, rng):
    k = rng.choice([1, 2, 3, 3, 4, 5, 6, 8]) if rng.random() < 0.96 else 0
    n_extra = rng.choice([0, 1, 2, 3])
    pool = list(ID_POOL)
    rng.shuffle(pool)
    ids = pool[:k + n_extra]
    while len(ids) < k + n_extra:
      ids.append(bytes([rng.randrange(256) for _ in range(rng.randrange(1, 4))]))
      ids = list(dict.fromkeys(ids))
    big = []
    for j, cid in enumerate(ids):
      size = rng.choice([0, 1, 2, 3, 5])
      big.append([hx(cid), [10 * j + r + 1 for r in range(size)], j < k])
    if rng.random() < 0.5:
      big.sort(key=lambda t: ub(t[0]))      # sorted insertion order
    else:
      rng.shuffle(big)
    return big

  def gen_bound(self, rng, ids_all):
    u = rng.random()
    if u < 0.25:
      return None
    base = rng.choice(ids_all) if ids_all and rng.random() < 0.75 else rng.choice(ID_POOL)
    v = rng.random()
    if v < 0.5:
      return hx(base)
    if v < 0.7:
      return hx(base + b'\x00')
    if v < 0.8:
      return hx(base[:-1])
    if v < 0.9:
      return hx(base + b'\xff')
    return hx(rng.choice(ID_POOL))

  def gen_case(self, rng):
    big = self.gen_table(rng)
    table = [(h, r) for h, r, s in big if s]
    all_ids = [ub(h) for h, _, _ in big]
    spec = PySpec(table)
    init = None
    if rng.random() < 0.35:     # a dataset constructed with non-empty chains, extended later (order must be kept)
      init = {'c': [rng.choice([1, 2, 3, 7, 0]) for _ in range(rng.choice([1, 1, 2]))],
              'b': [rng.randrange(0, 4) for _ in range(rng.choice([0, 0, 1]))]}
      for op in self.init_ops({'init': init}):
        spec.apply(op)
    ops = []
    for _ in range(rng.choice([0, 1, 2, 2, 3, 3, 4, 5, 6])):
      u = rng.random()
      cur = sorted(spec.cur)
      if u < 0.4:
        op = [0, self.gen_bound(rng, all_ids), self.gen_bound(rng, all_ids)]
      elif u < 0.6:
        v = rng.random()
        pick = [c for c in cur if rng.random() < 0.6]
        if v < 0.12:
          pick = pick + [rng.choice(all_ids + ID_POOL)]     # may be outside -> ValueError
        elif v < 0.25 and pick:
          pick = pick + [pick[0]]                           # duplicates
        elif v < 0.32:
          pick = []
        rng.shuffle(pick)
        op = [1, [hx(c) for c in pick], rng.choice(CONTAINERS)]
      elif u < 0.85:
        op = [2, rng.choice([0, 1, 2, 3, 7, 7])]
      else:
        op = [3, rng.randrange(0, 4)]
      ops.append(op)
      spec.apply(op)
    cand = all_ids + [c + b'\x00' for c in all_ids[:2]] + ID_POOL[:4]
    req = [hx(rng.choice(sorted(spec.cur) if (spec.cur and rng.random() < 0.7) else cand))
           for _ in range(rng.randrange(0, 6))]
    probes = [hx(c) for c in rng.sample(cand, min(len(cand), rng.randrange(1, 5)))]
    return {'kind': 'ops', 'big': big, 'ops': ops, 'req': req, 'probes': probes,
            'shuffle': [rng.choice([1, 2, 3, 5, 50]), rng.choice([0, rng.randrange(0, 1000), rng.randrange(0, 2**32)]),
                        rng.random() < 0.3],
            'root_container': rng.choice(CONTAINERS), 'init': init}

  def gen_cases(self, rng, tier):
    if tier == 'thorough':
      yield from self.exhaustive()
    n = 500 if tier == 'quick' else 2400
    for i in range(n):
      if i in ({40} if tier == 'quick' else {40, 1040, 2040}):
        yield self.gen_xproc(rng)
        continue
      if i % 9 == 8:
        yield {'kind': 'bshuffle', 'n': rng.choice([0, 1, 2, 3, 5, 8, 13, 30]), 'B': rng.choice([1, 2, 3, 4, 8, 40]),
               'seed': rng.randrange(0, 10**6)}
      elif i % 23 == 7:
        yield self.intersect_case(rng)
      else:
        yield self.gen_case(rng)

  def gen_xproc(self, rng):
    """A sliced dataset observed in this process and in two fresh interpreters with different hash salts:
    'iteration order is deterministic' must not depend on the interpreter process."""
    k = rng.randrange(9, 14)
    ids = [c for c in ID_POOL if c][:7]
    j = 0
    while len(ids) < k:
      ids.append(b'%03d' % j + (b'\x00' if rng.random() < 0.3 else b''))
      j += 1
    rng.shuffle(ids)
    srt = sorted(ids)
    slices = [[hx(srt[1]), None if rng.random() < 0.5 else hx(srt[-1])]]
    if rng.random() < 0.4:
      slices.append([None, hx(srt[-2])])
    x = rng.randrange(0, 1000)
    return {'kind': 'xproc', 'hashseeds': [1 + 2 * x, 2 + 2 * x],
            'spec': {'table': [[hx(c), [10 * t + 1 + r for r in range(t % 3 + 1)]] for t, c in enumerate(ids)],
                     'slices': slices, 'buffer': rng.choice([2, 3, 100]), 'seed': rng.randrange(0, 1000),
                     'samplers': False}}

  def _eval_xproc(self, case, ctx):
    spec, (h1, h2) = case['spec'], case['hashseeds']
    tags = ('xproc', f'slices={len(spec["slices"])}')
    try:
      mine = _fd_xproc.run_spec(spec, tmpdir=tempfile.mkdtemp(prefix='xm_', dir=self.tmp))
    except Exception as e:
      return Outcome(oracle_fail=f'building / reading the sliced dataset raised {exc_name(e)}: {e}',
                     key='C08/xproc/exception', tags=tags)
    try:
      kids = _fd_xproc.probe(spec, [h1, h2], os.path.join(core.VERIF, 'harness'), core.REPO, self.tmp)
    except RuntimeError as e:
      raise core.InfraError(str(e))
    ctx.count('cross_process_probes')
    problems, key = [], None
    for a, b, who in ((kids[h1], kids[h2], f'PYTHONHASHSEED={h1} vs PYTHONHASHSEED={h2}'),
                      (mine, kids[h1], f'this process vs a fresh interpreter (PYTHONHASHSEED={h1})')):
      for impl in sorted(a):
        if a[impl] != b.get(impl):
          key = key or 'C08/order/process-dependent'
          problems.append(f'{impl}: the same dataset ({len(spec["table"])} clients, slices {spec["slices"]}) iterates '
                          f'differently in two interpreter processes ({who}), first at '
                          f'{_fd_xproc.first_difference(a[impl], b.get(impl))}: iteration order is not a function of '
                          f'the dataset (it depends on the per-process salt of hash())')
          break
      if problems:
        break
    want = sorted(c for c in (ub(h) for h, _ in spec['table'])
                  if all((s is None or ub(s) <= c) and (e is None or c < ub(e)) for s, e in spec['slices']))
    for impl, rec in sorted(mine.items()):
      ids = sorted(('s:' + c.decode('latin-1')) if impl == 'memstr' else hx(c) for c in want)
      if sorted(rec['client_ids']) != ids or sorted(c for c, _ in rec['clients']) != ids:
        key = key or 'C08/ids'
        problems.append(f'{impl}: sliced view lists {rec["client_ids"]}, expected {ids}')
      n = len(ids)
      if n and any(sorted(rec.get('shuffled', [])[t * n:(t + 1) * n]) != ids for t in range(3)):
        key = key or 'C08/shuffled'
        problems.append(f'{impl}: a pass of shuffled_clients is not every client once: {rec.get("shuffled")}')
      if n and not (rec.get('shuffled_seed0') == rec.get('shuffled_seed0_again') == rec.get('shuffled_seed0_np')):
        key = key or 'C08/shuffled'
        problems.append(f'{impl}: three streams shuffled_clients({spec["buffer"]}, seed) with seed 0, 0 and np.int64(0) '
                        f'differ: {rec.get("shuffled_seed0")} / {rec.get("shuffled_seed0_again")}')
    return Outcome(oracle_fail='; '.join(problems[:3]) or None, key=key, nontrivial=True, tags=tags,
                   detail={'this_process': {k: {f: v[f] for f in ('client_ids', 'shuffled') if f in v}
                                            for k, v in mine.items()}})

  def intersect_case(self, rng):
    pool = [None] + [hx(b) for b in ID_POOL]
    return {'kind': 'intersect', 'quads': [[rng.choice(pool) for _ in range(4)] for _ in range(60)]}

  def exhaustive(self):
    ids = [b'a', b'a\x00', b'b']
    bounds = [None, 'a'.encode().hex(), b'a\x00'.hex(), b'b'.hex(), b'c'.hex()]
    slices = [[0, s, e] for s in bounds for e in bounds]
    others = [[1, [hx(b'a')], 'gen'], [1, [], 'iter'], [1, [hx(b'a\x00'), hx(b'b')], 'base_ids_filter'],
              [1, [hx(b'b'), hx(b'a\x00'), hx(b'b')], 'islice'], [2, 0], [2, 7], [3, 1]]
    for mask in range(8):
      big = [[hx(c), [10 * j + 1 + r for r in range(j + 1)], bool(mask >> j & 1)] for j, c in enumerate(ids)]
      big.reverse()
      seqs = [[]] + [[a] for a in slices + others] + [[a, b] for a in slices for b in slices[::3] + others]
      seqs += [[a, b] for a in others for b in slices[1::3]]
      for ops in seqs:
        yield {'kind': 'ops', 'big': big, 'ops': ops, 'req': [hx(b'b'), hx(b'a'), hx(b'zz'), hx(b'a')],
               'probes': [hx(b'a'), hx(b'a\x00'), hx(b'c')], 'shuffle': [2, 0 if len(ops) % 2 else 5],
               'init': [None, {'c': [1], 'b': []}, {'c': [3, 0], 'b': [2]}][(mask + len(ops) + (ops[0][0] if ops else 0)) % 3],
               'root_container': CONTAINERS[(mask + len(ops)) % len(CONTAINERS)]}
    pool = [None] + [hx(b) for b in [b'', b'a', b'a\x00', b'b', b'\xff']]
    quads = [list(q) for q in itertools.product(pool, repeat=4)]
    for i in range(0, len(quads), 200):
      yield {'kind': 'intersect', 'quads': quads[i:i + 200]}

  def shrink(self, case):
    if case['kind'] == 'bshuffle':
      for k, lo in (('n', 0), ('B', 1), ('seed', 0)):
        if case[k] > lo:
          yield {**case, k: case[k] // 2 if case[k] // 2 >= lo else lo}
          yield {**case, k: case[k] - 1}
      return
    if case['kind'] == 'xproc':
      sp = case['spec']
      t = sp['table']
      if len(sp['slices']) > 1:
        yield {**case, 'spec': {**sp, 'slices': sp['slices'][:1]}}
      if len(t) > 4:
        yield {**case, 'spec': {**sp, 'table': t[:len(t) // 2 + 1]}}
        yield {**case, 'spec': {**sp, 'table': t[len(t) // 2 - 1:]}}
        yield {**case, 'spec': {**sp, 'table': t[:-1]}}
      return
    if case['kind'] == 'intersect':
      q = case['quads']
      if len(q) > 1:
        yield {**case, 'quads': q[:len(q) // 2]}
        yield {**case, 'quads': q[len(q) // 2:]}
      return
    ops = case['ops']
    init = case.get('init')
    if init:
      yield {**case, 'init': None}
      for f in ('c', 'b'):
        for i in range(len(init[f])):
          yield {**case, 'init': {**init, f: init[f][:i] + init[f][i + 1:]}}
    for i in range(len(ops)):
      yield {**case, 'ops': ops[:i] + ops[i + 1:]}
    big = case['big']
    for i in range(len(big)):
      yield {**case, 'big': big[:i] + big[i + 1:]}
    for i, (h, r, s) in enumerate(big):
      if len(r) > 1:
        yield {**case, 'big': big[:i] + [[h, r[:1], s]] + big[i + 1:]}
        yield {**case, 'big': big[:i] + [[h, r[:-1], s]] + big[i + 1:]}
    for k in ('req', 'probes'):
      if case[k]:
        yield {**case, k: []}
        for i in range(len(case[k])):
          yield {**case, k: case[k][:i] + case[k][i + 1:]}
    for i, op in enumerate(ops):
      if op[0] == 0:
        for j in (1, 2):
          if op[j] is not None:
            yield {**case, 'ops': ops[:i] + [[0] + [None if jj == j else op[jj] for jj in (1, 2)]] + ops[i + 1:]}
      if op[0] == 1 and len(op[1]) > 0:
        yield {**case, 'ops': ops[:i] + [[1, op[1][1:]] + op[2:]] + ops[i + 1:]}
      if op[0] == 1 and len(op) > 2 and op[2] != 'list':
        yield {**case, 'ops': ops[:i] + [[1, op[1], 'list']] + ops[i + 1:]}
    if case.get('root_container', 'list') != 'list':
      yield {**case, 'root_container': 'list'}

  # ---------------------------------------------------------------- evaluation
  def evaluate(self, case, ctx):
    if case['kind'] == 'bshuffle':
      return self._eval_bshuffle(case, ctx)
    if case['kind'] == 'intersect':
      return self._eval_intersect(case, ctx)
    if case['kind'] == 'xproc':
      return self._eval_xproc(case, ctx)
    big, ops, req, probes = case['big'], case['ops'], case['req'], case['probes']
    table = [(h, r) for h, r, s in big if s]
    problems, corr, corr_known, key = [], [], [], None
    found = []          # (classifier key, message) of every oracle failure of this case

    def fail(k, msg):
      found.append((k, msg))

    # ---- expected mapping after every prefix (plain dict/set code)
    spec = PySpec(table)
    init_ops = self.init_ops(case)
    for op in init_ops:          # the chains the dataset was constructed with were registered first
      spec.apply(op)
    expected = []

    def snapshot():
      if spec.error:
        return {'error': spec.error}
      ds = {c: spec.dataset(c) for c in spec.cur}
      return {'error': None, 'ids': sorted(hx(c) for c in spec.cur),
              'clients': sorted([hx(c), ds[c][0], ds[c][1], True] for c in spec.cur),
              'stored': {hx(c): len(v) for c, v in spec.cur.items()}, 'ds': {hx(c): list(ds[c]) for c in ds}}
    expected.append(snapshot())
    for op in ops:
      spec.apply(op)
      expected.append(snapshot())
    # a subset whose ids are not all in the view is outside the property (the documented behaviour is a
    # ValueError from the validating constructor): whatever an implementation does there is recorded, not judged
    ood_step = next((i for i, e in enumerate(expected) if e['error']), None)
    shuffle_seed = self.shuffle_seed(case)

    # ---- the four implementations, observed after every prefix
    impl_obs = {k: [] for k in KINDS}
    views = {k: [] for k in KINDS}
    for kind in KINDS:
      fd, state = None, None
      try:
        fd = self.root(kind, big, case.get('root_container', 'list'), case.get('init'))
      except Exception as e:
        state = 'ERR:' + exc_name(e)
      for step in range(len(ops) + 1):
        if ood_step is not None and step >= ood_step and state is None:
          try:
            self.apply_op(fd, ops[step - 1])
            state = 'OUT-OF-DOMAIN:view'
          except Exception as e:
            state = 'OUT-OF-DOMAIN:' + exc_name(e)
          ctx.count('subset_with_outside_ids/' + state.split(':', 1)[1])
        if step > 0 and state is None:
          try:
            fd = self.apply_op(fd, ops[step - 1])
          except Exception as e:
            state = 'ERR:' + exc_name(e)
        if state is not None:
          impl_obs[kind].append(state)
          views[kind].append(None)
          continue
        try:
          o = self.observe(fd, req, probes)
          o['interleave'] = self.interleave(fd, o, req, shuffle_seed)
          prev = views[kind][-1] if views[kind] else None
          o['parent_child'] = (self.parent_child(prev, impl_obs[kind][-1], fd, o)
                               if prev is not None and prev is not fd else [])
          # derive the same child again while the parent is being read: must be the same view
          if prev is not None and step > 0:
            pit = prev.clients()
            next(pit, None)
            try:
              twin = self.apply_op(prev, ops[step - 1])
              tw = self.observe(twin, [], [], light=True)
              bad = [k for k in ('num', 'ids', 'sizes', 'clients') if tw[k] != o[k]]
              if bad:
                o['parent_child'].append('the same operation applied a second time, while the parent was being '
                                         f'iterated, gives a view that differs on {bad}: '
                                         f'{ {k: tw[k] for k in bad} } vs { {k: o[k] for k in bad} }')
            except Exception as e:
              o['parent_child'].append(f'deriving the view while the parent was being iterated raised {exc_name(e)}')
            rest = [self.ds_obs(c, d) for c, d in pit]
            if impl_obs[kind][-1]['clients'][1:] != rest:
              o['parent_child'].append('the parent clients() iterator changed because a view was derived meanwhile')
          impl_obs[kind].append(o)
          views[kind].append(fd)
        except Exception as e:
          impl_obs[kind].append('OBS-ERR:' + exc_name(e))
          views[kind].append(None)

    # ---- independent oracle
    reached_empty = False
    for step, exp in enumerate(expected):
      where = f'after {step} ops'
      sizes_seen = {}
      for kind in KINDS:
        o = impl_obs[kind][step]
        if exp['error']:
          continue          # outside the property (see ood_step)
        if isinstance(o, str):
          empty = not exp['ids']
          if empty and 'IndexError' in o and kind in ('mem', 'submem'):
            k = 'C08/mem/empty-view' if expected[0]['ids'] else 'C08/mem/empty-dataset'
          else:
            k = 'C08/exception'
          fail(k, f'{kind} {where}: raised {o} but the view is the mapping with ids {exp["ids"]}')
          continue
        if o['num'] != len(exp['ids']):
          fail('C08/count', f'{kind} {where}: num_clients {o["num"]} != {len(exp["ids"])}')
        if sorted(o['ids']) != exp['ids']:
          fail('C08/ids', f'{kind} {where}: client_ids {sorted(o["ids"])} != ids inside every requested range and '
                          f'subset {exp["ids"]}')
        if sorted(o['clients']) != exp['clients']:
          fail('C08/clients', f'{kind} {where}: clients() {sorted(o["clients"])[:3]} != expected {exp["clients"][:3]}')
        for msg in o.get('interleave', [])[:2]:
          fail('C08/interleave', f'{kind} {where}: {msg}')
        for msg in o.get('parent_child', [])[:2]:
          fail('C08/parent-child-interleave', f'{kind} {where}: {msg}')
        for msg in o.get('getN_forms', [])[:2]:
          fail('C08/get_clients/iterable', f'{kind} {where}: {msg}')
        if not o['repeat_ok']:
          fail('C08/determinism', f'{kind} {where}: a second iteration differs from the first')
        if sorted(c for c, _ in o['sizes']) != exp['ids'] or len(o['sizes']) != len(exp['ids']):
          fail('C08/sizes/ids', f'{kind} {where}: client_sizes lists {o["sizes"]} for ids {exp["ids"]}')
        sizes_seen[kind] = sorted(map(tuple, o['sizes']))
        # bulk get: request order, lazily, KeyError at the first id outside the view
        want, werr = [], None
        for h in req:
          if h in exp['ds']:
            want.append([h] + exp['ds'][h] + [True])
          else:
            werr = 'KeyError'
            break
        # (with an id outside the view the property fixes the KeyError and the order, not how many of the earlier
        # clients are handed out before it is raised: any prefix of the valid prefix is accepted)
        ok_items = (o['getN'] == want) if werr is None else (o['getN'] == want[:len(o['getN'])])
        if not ok_items or o['getN_err'] != werr:
          fail('C08/get_clients', f'{kind} {where}: get_clients({req}) gave {o["getN"]} / {o["getN_err"]}, '
                                  f'expected {want} / {werr}')
        for h, (sz, ds) in zip(probes, o['probes']):
          if h in exp['ds']:
            if ds != [h] + exp['ds'][h] + [True]:
              fail('C08/get_client', f'{kind} {where}: get_client({h}) = {ds}, expected {exp["ds"][h]}')
            if not isinstance(sz, int):
              fail('C08/client_size', f'{kind} {where}: client_size({h}) raised {sz} for an id of the view')
            else:
              sizes_seen.setdefault(kind + '/point', []).append((h, sz))
          else:
            if ds != 'KeyError' or sz != 'KeyError':
              fail('C08/keyerror', f'{kind} {where}: id {h} is outside the view but client_size/get_client gave '
                                   f'{sz} / {ds if isinstance(ds, str) else "a dataset"}')
      # sizes: identical across implementations (bulk and point)
      bulk = {k: v for k, v in sizes_seen.items() if '/' not in k}
      if len({tuple(v) for v in bulk.values()}) > 1:
        fail('C08/sizes/preprocessed-vs-stored' if self._only_preprocessing_explains(bulk, exp) else 'C08/sizes',
             f'{where}: implementations disagree on client_sizes: {bulk}')
      for k, v in sizes_seen.items():
        if '/' in k:
          base = dict(bulk.get(k.split('/')[0], []))
          for h, sz in v:
            if base.get(h, sz) != sz:
              fail('C08/sizes', f'{k} {where}: client_size({h}) = {sz} but client_sizes says {base.get(h)}')
      if not exp['error'] and not exp['ids']:
        reached_empty = True

    # ---- parents unchanged (monitor on the real objects)
    for kind in KINDS:
      for step, fd in enumerate(views[kind]):
        if fd is None or step == len(ops):
          continue
        try:
          again = self.observe(fd, [], [], light=True)
        except Exception as e:
          again = 'OBS-ERR:' + exc_name(e)
        first = impl_obs[kind][step]
        if isinstance(again, str) or any(again[k] != first[k] for k in ('num', 'ids', 'sizes', 'clients')):
          fail('C08/parent-changed', f'{kind}: the view after {step} ops changed after deriving further views from it')

    # ---- shuffled iteration on the final view (non-empty only)
    final = expected[-1]
    if not final['error'] and final['ids']:
      buf, seed = case['shuffle'][0], shuffle_seed
      for kind in KINDS:
        fd = views[kind][-1]
        if fd is None:
          continue
        if not impl_obs[kind][-1]['clients']:
          # the view wrongly exposes no clients (already reported above); its stream would never yield
          fail('C08/shuffled', f'{kind}: shuffled_clients not observed: clients() of the view is empty')
          continue
        try:
          p1, p2, again = self.observe_shuffle(fd, len(final['ids']), buf, seed)
        except Exception as e:
          fail('C08/shuffled', f'{kind}: shuffled_clients raised {exc_name(e)}')
          continue
        if sorted(p1) != final['clients'] or sorted(p2) != final['clients']:
          fail('C08/shuffled', f'{kind}: a pass of shuffled_clients({buf}, {seed}) is not every client exactly once: '
                               f'{[p[0] for p in p1]} / {[p[0] for p in p2]}')
        if again != p1:
          fail('C08/shuffled', f'{kind}: shuffled_clients({buf}, {seed}) is not deterministic in its seed')
        ctx.count('shuffled_passes', 2)
        if len(p1) >= 5 and buf >= 2:
          ctx.count('shuffle_passes_big')
          if [p[0] for p in p1] == [c[0] for c in impl_obs[kind][-1]['clients']]:
            ctx.count('shuffle_passes_big_unshuffled')

    # ---- correspondence with the Lean models (each implementation's model, and the specification)
    big_enc = [[ids_enc(ub(h)), r] for h, r, _ in big]
    sel_enc = [ids_enc(ub(h)) for h, _ in table]

    def op_enc(op):
      if op[0] == 0:
        return [0, None if op[1] is None else ids_enc(ub(op[1])), None if op[2] is None else ids_enc(ub(op[2]))]
      if op[0] == 1:
        return [1, [ids_enc(ub(h)) for h in op[1]]]
      return [op[0], op[1]]
    lines, idx = [], []
    req_enc = [ids_enc(ub(h)) for h in req]
    pr_enc = [ids_enc(ub(h)) for h in probes]
    for kind in KINDS + ['spec']:
      for step in range(len(ops) + 1):
        lines.append(line('c08.obs', kind, big_enc, sel_enc, [op_enc(o) for o in init_ops + ops[:step]], req_enc,
                          pr_enc))
        idx.append((kind, step))
    answers = ctx.drv.ask(lines)

    def dec_ds(d):
      return [bytes(d[0]).hex(), d[1], d[2], True]

    def dec_obs(a):
      if isinstance(a, str):
        return 'ERR:' + a
      num, ids, sizes, clients, clerr, getn, gnerr, pr = a
      return {'num': num, 'ids': sorted(bytes(i).hex() for i in ids),
              'sizes': sorted([bytes(i).hex(), n] for i, n in sizes),
              'clients': sorted(dec_ds(d) for d in clients), 'clerr': clerr,
              'getN': [dec_ds(d) for d in getn], 'getN_err': 'KeyError' if gnerr else None,
              'probes': [[s, d if isinstance(d, str) else dec_ds(d)] for s, d in pr]}
    model = {}
    for (kind, step), a in zip(idx, answers):
      model[(kind, step)] = dec_obs(a)
    for kind in KINDS:
      for step in range(len(ops) + 1):
        m, o, sp = model[(kind, step)], impl_obs[kind][step], model[('spec', step)]
        if m != sp:
          corr.append(f'model of {kind} differs from the specification model after {step} ops: {m} vs {sp}')
        if ood_step is not None and step >= ood_step:
          continue          # outside the property: not compared
        if isinstance(m, str) or isinstance(o, str):
          if m != o:
            corr.append(f'{kind} after {step} ops: impl {o if isinstance(o, str) else "view"} vs model '
                        f'{m if isinstance(m, str) else "view"}')
          continue
        canon = {'num': o['num'], 'ids': sorted(o['ids']), 'sizes': sorted(o['sizes']),
                 'clients': sorted(o['clients']), 'clerr': False, 'getN': o['getN'], 'getN_err': o['getN_err'],
                 'probes': o['probes']}
        if canon['getN_err'] and m['getN_err'] == canon['getN_err'] and canon['getN'] == m['getN'][:len(canon['getN'])]:
          canon['getN'] = m['getN']     # fewer clients handed out before the KeyError than the lazy model: allowed
        if canon != m:
          diff = [k for k in canon if canon[k] != m[k]]
          text = (f'{kind} after {step} ops: impl and model differ on {diff}: '
                  f'{ {k: canon[k] for k in diff} } vs { {k: m[k] for k in diff} }')
          # the recorded finding (in-memory sizes count preprocessed rows) shows up here as a size-only difference
          if (kind in ('mem', 'submem') and set(diff) <= {'sizes', 'probes'} and
              len(canon['probes']) == len(m['probes']) and
              all(a[1] == b[1] for a, b in zip(canon['probes'], m['probes']))):
            corr_known.append(text)
          else:
            corr.append(text)
        if any(len(d) > 3 and d[3] is not True for d in o['clients']):
          corr.append(f'{kind} after {step} ops: second feature lost its rows/dtype/shape')

    removed = any(len(expected[i + 1].get('ids', [])) < len(expected[i].get('ids', []))
                  for i in range(len(ops)) if not expected[i + 1]['error'] and not expected[i]['error'])
    tags = [f'clients={min(len(table), 4)}', f'ops={min(len(ops), 4)}']
    if reached_empty:
      tags.append('empty-view')
    if any(e['error'] for e in expected):
      tags.append('subset-ValueError')
    if any(op[0] == 0 and op[1] is not None and op[2] is not None and ub(op[1]) > ub(op[2]) for op in ops):
      tags.append('start>stop')
    kinds_seq = [op[0] for op in ops]
    if 0 in kinds_seq and 1 in kinds_seq:
      tags.append('subset-of-slice' if kinds_seq.index(0) < len(kinds_seq) - 1 - kinds_seq[::-1].index(1) else 'slice-of-subset')
    if kinds_seq.count(0) >= 2:
      tags.append('nested-slices')
    if any(op == [2, 0] for op in ops):
      tags.append('row-dropping-preprocessor')
    if any(h.endswith('00') for h, _ in table):
      tags.append('trailing0-ids')
    if any(not isinstance(o, str) and o['getN_err'] for o in impl_obs['sql']):
      tags.append('bulk-get-KeyError')
    # classification: a failure other than the recorded size finding always takes precedence, and a
    # disagreement that the recorded finding does not explain is never hidden behind it
    other = [(k, m) for k, m in found if k != KNOWN_SIZE_KEY]
    sized = [(k, m) for k, m in found if k == KNOWN_SIZE_KEY]
    if other:
      key = other[0][0]
      problems = [m for _, m in other] + [m for _, m in sized]
      corr = corr + corr_known
    elif sized:
      if corr:
        problems, key = [], None        # report the unexplained disagreement; the finding is hit by other cases
      else:
        key = KNOWN_SIZE_KEY
        problems = [m for _, m in sized]
        corr = corr_known
    else:
      corr = corr + corr_known
    return Outcome(oracle_fail='; '.join(problems[:4]) or None, corr_fail='; '.join(corr[:3]) or None, key=key,
                   nontrivial=len(table) >= 2 and len(ops) >= 2 and removed, tags=tuple(tags),
                   detail={'impl_final': {k: impl_obs[k][-1] for k in KINDS}, 'expected_final': {
                       k: v for k, v in expected[-1].items() if k != 'ds'}, 'model_final': model[('spec', len(ops))]})

  @staticmethod
  def _only_preprocessing_explains(bulk, exp):
    """True iff every implementation reports, per id, either the stored size or the size after preprocessing."""
    for v in bulk.values():
      for h, n in v:
        if h not in exp['stored'] or n not in (exp['stored'][h], len(exp['ds'][h][0])):
          return False
    return True

  def _eval_bshuffle(self, case, ctx):
    n, B, seed = case['n'], case['B'], case['seed']
    rng = RecRng(seed)
    out = [int(v) for v in self.cds.buffered_shuffle(list(range(n)), B, rng)]
    problems, corr = [], []
    if sorted(out) != list(range(n)):
      problems.append(f'buffered_shuffle(range({n}), {B}) emitted {out}: not every item exactly once')
    perm = rng.perm if rng.perm is not None else []
    if rng.perm is not None and sorted(perm) != list(range(min(n, B))):
      corr.append(f'numpy shuffle oracle is not a permutation of the initial buffer: {perm}')
    if rng.perm is None:
      perm = list(range(min(n, B)))
    ans = ctx.drv.ask([line('c08.bshuffle', B, perm, rng.swaps, n)])[0]
    # how buffered_shuffle consumes its rng is not fixed by the property (only "every item exactly once"); the model
    # is one admissible behaviour for the draws it recorded (the exact tie is C15's). Agreement is recorded.
    ctx.count('bshuffle_model_agrees' if ans == out and not rng.other_draws else 'bshuffle_model_differs')
    return Outcome(oracle_fail='; '.join(problems) or None, corr_fail='; '.join(corr) or None,
                   key='C08/shuffled' if problems else None, nontrivial=n > B >= 2,
                   tags=('bshuffle', 'n>B' if n > B else 'n<=B'), detail={'impl': out, 'model': ans})

  def _eval_intersect(self, case, ctx):
    f = self.fdm.intersect_slice_ranges
    probe_ids = ID_POOL + [b'c', b'a\x00\x00\x00']
    problems, corr = [], []

    def inr(s, e, x):
      return (s is None or s <= x) and (e is None or x < e)
    quads = [[ub(h) for h in q] for q in case['quads']]
    ans = ctx.drv.ask([line('c08.intersect', *[None if v is None else ids_enc(v) for v in q]) for q in quads])
    for q, a in zip(quads, ans):
      s, e = f(*q)
      for x in probe_ids:
        if inr(s, e, x) != (inr(q[0], q[1], x) and inr(q[2], q[3], x)):
          problems.append(f'intersect_slice_ranges{tuple(q)} = {(s, e)}: id {x} is '
                          f'{"in" if inr(s, e, x) else "not in"} it, but the two ranges say otherwise')
          break
      m = [None if v is None else bytes(v) for v in a]
      if m != [s, e]:
        corr.append(f'intersect model {m} vs impl {(s, e)} on {q}')
    ctx.count('intersect_quads', len(quads))
    return Outcome(oracle_fail='; '.join(problems[:3]) or None, corr_fail='; '.join(corr[:3]) or None,
                   key='C08/intersect' if problems else None, tags=('intersect',), nontrivial=False)

  def finish(self, ctx):
    big = ctx.stats.get('shuffle_passes_big', 0)
    same = ctx.stats.get('shuffle_passes_big_unshuffled', 0)
    if big >= 8 and same * 2 > big:
      return [Outcome(corr_fail=f'shuffled_clients left {same} of {big} passes (>= 5 clients, buffer >= 2) in '
                                f'iteration order: not shuffling', tags=('run-level',), nontrivial=False)]
    return []


PROPERTY = C08
