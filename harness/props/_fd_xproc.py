"""Cross-process probe shared by C08 and C13: the same federated dataset views and samplers in fresh
interpreters that differ only in PYTHONHASHSEED (what happens whenever a job is restarted in a new process).

`run_spec(spec)` builds, from a JSON spec, an in-memory / SQLite / subset-wrapped dataset, slices it by id range
and records every order-bearing observation: listings, `clients()`, passes of `shuffled_clients(buffer, seed)`,
rounds of `UniformShuffledClientSampler` over that stream (from round 0 and restarted at r0) and rounds of
`UniformGetClientSampler`.  `probe(spec, hashseeds)` runs it in child interpreters and returns their records.
Nothing here judges anything; the property checks compare the records.
"""
import json
import os
import subprocess
import sys
import tempfile

IMPLS = ['mem', 'memstr', 'sql', 'submem']


def _key(k):
  import jax
  import numpy as np
  a = np.asarray(k)
  if a.dtype != np.uint32:
    a = np.asarray(jax.random.key_data(k))
  return [int(v) for v in a.ravel()]


def run_spec(spec, tmpdir=None):
  import itertools
  import numpy as np
  from fedjax.core import client_samplers as cs
  from fedjax.core import federated_data as fdm
  from fedjax.core import in_memory_federated_data as mem
  from fedjax.core import sqlite_federated_data as sql

  table = [(bytes.fromhex(h), rows) for h, rows in spec['table']]     # insertion order as given

  def ex(rows):
    return {'x': np.array(rows, dtype=np.int32)}

  def name(c):
    return c.hex() if isinstance(c, bytes) else 's:' + c

  own_tmp = tmpdir or tempfile.mkdtemp(prefix='fdx_')
  out = {}
  for impl in spec.get('impls', IMPLS):
    conv = (lambda b: b.decode('latin-1')) if impl == 'memstr' else (lambda b: b)
    if impl in ('mem', 'memstr'):
      fd = mem.InMemoryFederatedData({conv(c): ex(r) for c, r in table})
    elif impl == 'sql':
      path = os.path.join(own_tmp, f'x{os.getpid()}_{len(out)}.sqlite')
      with sql.SQLiteFederatedDataBuilder(path) as b:
        b.add_many([(c, ex(r)) for c, r in table])
      fd = sql.SQLiteFederatedData.new(path)
    else:
      fd = fdm.SubsetFederatedData(mem.InMemoryFederatedData({c: ex(r) for c, r in table}), [c for c, _ in table])
    for s, e in spec['slices']:
      fd = fd.slice(None if s is None else conv(bytes.fromhex(s)), None if e is None else conv(bytes.fromhex(e)))
    rec = {}
    rec['client_ids'] = [name(c) for c in fd.client_ids()]
    rec['client_sizes'] = [[name(c), int(n)] for c, n in fd.client_sizes()]
    rec['clients'] = [[name(c), [int(v) for v in d.all_examples()['x']]] for c, d in fd.clients()]
    n = len(rec['client_ids'])
    if n and rec['clients']:      # (a stream over a view without clients never yields)
      buf, seed = spec['buffer'], spec['seed']
      rec['shuffled'] = [name(c) for c, _ in itertools.islice(fd.shuffled_clients(buf, seed), 3 * n)]
      # legal seeds that look falsy must seed the stream like any other
      rec['shuffled_seed0'] = [name(c) for c, _ in itertools.islice(fd.shuffled_clients(buf, 0), 2 * n)]
      rec['shuffled_seed0_again'] = [name(c) for c, _ in itertools.islice(fd.shuffled_clients(buf, 0), 2 * n)]
      rec['shuffled_seed0_np'] = [name(c) for c, _ in itertools.islice(fd.shuffled_clients(buf, np.int64(0)), 2 * n)]
    if n and rec['clients'] and spec.get('samplers', True):
      buf, seed = spec['buffer'], spec['seed']
      k, r0, rounds = spec['cohort'], spec['r0'], spec['rounds']
      a = cs.UniformShuffledClientSampler(fd.shuffled_clients(buf, seed), k, 0)
      rec['stream_from0'] = [[[name(c), _key(key)] for c, _, key in a.sample()] for _ in range(rounds)]
      b = cs.UniformShuffledClientSampler(fd.shuffled_clients(buf, seed), k, r0)
      rec['stream_from_r0'] = [[[name(c), _key(key)] for c, _, key in b.sample()] for _ in range(max(0, rounds - r0))]
      g = cs.UniformGetClientSampler(fd, min(k, n), spec['gseed'], 0)
      rec['get'] = [[[name(c), _key(key)] for c, _, key in g.sample()] for _ in range(rounds)]
    if impl == 'sql':
      try:
        fd._connection.close()
      except Exception:
        pass
    out[impl] = rec
  return out


def child_main(spec_path, out_path):
  spec = json.load(open(spec_path))
  res = run_spec(spec, tmpdir=os.path.dirname(out_path))
  with open(out_path, 'w') as fh:
    json.dump(res, fh)


def probe(spec, hashseeds, harness_dir, repo, tmpdir, timeout=600):
  """Runs `spec` in one fresh interpreter per hash seed (in parallel). Returns {hashseed: record} or raises
  RuntimeError with the child's log."""
  work = tempfile.mkdtemp(prefix='fdx_', dir=tmpdir)
  spath = os.path.join(work, 'spec.json')
  with open(spath, 'w') as fh:
    json.dump(spec, fh)
  boot = ('import sys; sys.path[:0] = [%r, %r]; from props import _fd_xproc; '
          '_fd_xproc.child_main(sys.argv[1], sys.argv[2])' % (harness_dir, repo))
  procs = []
  for hs in hashseeds:
    env = dict(os.environ, PYTHONHASHSEED=str(hs))
    opath = os.path.join(work, f'out_{hs}.json')
    log = open(os.path.join(work, f'log_{hs}.txt'), 'w')
    procs.append((hs, opath, log, subprocess.Popen([sys.executable, '-c', boot, spath, opath], env=env, stdout=log,
                                                  stderr=subprocess.STDOUT)))
  results = {}
  for hs, opath, log, p in procs:
    try:
      p.wait(timeout=timeout)
    except subprocess.TimeoutExpired:
      p.kill()
      raise RuntimeError('cross-process probe timed out')
    log.close()
    if p.returncode != 0 or not os.path.exists(opath):
      raise RuntimeError('cross-process probe failed: ' + open(log.name).read()[-800:])
    results[hs] = json.load(open(opath))
  return results


def first_difference(a, b, path=''):
  """Human-readable first difference of two JSON records."""
  if type(a) != type(b):
    return f'{path}: {a!r} vs {b!r}'
  if isinstance(a, dict):
    for k in sorted(set(a) | set(b)):
      if a.get(k) != b.get(k):
        return first_difference(a.get(k), b.get(k), f'{path}/{k}')
  if isinstance(a, list):
    if len(a) != len(b):
      return f'{path}: lengths {len(a)} vs {len(b)}'
    for i, (x, y) in enumerate(zip(a, b)):
      if x != y:
        if isinstance(x, list) and x and isinstance(x[0], list):
          return first_difference(x, y, f'{path}[{i}]')
        return f'{path}[{i}]: {x!r} vs {y!r}'
  return f'{path}: {a!r} vs {b!r}'
