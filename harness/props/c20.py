"""C20 — packaged dataset preprocessors and models agree with each other.

Case kinds (all JSON, all randomness from the run's PRNG):
  shk_table   the real TABLE/VOCAB_SIZE/PAD/BOS/EOS/OOV constants and `_build_look_up_table`
  shk         real `shakespeare.preprocess_client` on a snippet list vs the Lean tokeniser model
  emnist_sweep / emnist_id   real `emnist.domain_id` vs the Lean model (exhaustive 0..9999 x 2 formats)
  cifar       real `cifar100.preprocess_image_tff` vs `tf.image.per_image_standardization` of the
              (centre / some in-range) window, vs a float64 statement of the definition, vs the model
  cifar_pt    `cifar100.preprocess_image` (pytorch-style): training crops are sub-windows (oracle only)
  labels      ids assumed by a packaged model's metrics vs ids its tokeniser produces: the driver
              evaluates `labelsAgree` on introspected constants; the oracle evaluates the model's real
              eval metrics on real tokeniser output against by-name reference metrics
  loss        train losses of the packaged models (StackOverflow with/without expected_length, Shakespeare,
              the EMNIST/CIFAR classifiers, and every fedjax.training.tasks configuration built with the
              download functions stubbed by synthetic in-memory clients): equal to an independent numpy
              reference that ignores the dataset's PAD positions, unchanged when the predictions at PAD
              positions change, zero on all-PAD rows, row independent; the reduction of the per-token
              losses (mask, sum/mean, 1/expected_length) is also compared with the exact Lean model
  so_tok      several StackOverflow preprocessors created from ONE tokenizer with different max_length
              values in various create/use interleavings (directly, through the raw tf.function, and
              lazily through an SQLite-backed FederatedData): every output has its OWN max_length and
              is the BOS/words/EOS/PAD layout of an independent reference tokenisation (= Lean model),
              and the packaged model's token-count / truncation / OOV metrics agree
  rowindep    metamorphic row-independence of the packaged haiku/stax models (monitor only)
"""
import inspect
import math

import numpy as np

from vlib import core
from vlib.core import Outcome, line

IMG_TYPES = ('random', 'low', 'const', 'onepix', 'gradient', 'half')
ROW_MODELS = ('emnist_conv', 'emnist_dense', 'emnist_logistic', 'emnist_stax_dense',
              'cifar100_logistic', 'shakespeare_lstm', 'stackoverflow_lstm', 'stackoverflow_lstm_shared')


def make_image(spec):
  """Deterministic uint8 [32,32,3] image from a small JSON spec."""
  t, seed, base, spread = spec['t'], spec.get('seed', 0), spec.get('base', 0), spec.get('spread', 1)
  rs = np.random.RandomState(seed)
  if t == 'random':
    img = rs.randint(0, 256, size=(32, 32, 3))
  elif t == 'low':
    img = base + rs.randint(0, spread + 1, size=(32, 32, 3))
  elif t == 'const':
    img = np.full((32, 32, 3), base)
  elif t == 'onepix':
    img = np.full((32, 32, 3), base)
    i, j, c = rs.randint(8, 24), rs.randint(8, 24), rs.randint(3)
    img[i, j, c] = base + spread
  elif t == 'gradient':
    i, j, c = np.meshgrid(np.arange(32), np.arange(32), np.arange(3), indexing='ij')
    img = (i * 7 + j * 3 + c * 40 + base)
  elif t == 'half':
    img = np.zeros((32, 32, 3), dtype=np.int64)
    img[:, 16:, :] = 255
  else:
    raise ValueError(t)
  return np.clip(img, 0, 255).astype(np.uint8)


def std_ref64(win, floor='rsqrt'):
  """The definition, in float64: (x - mean) / max(std, 1/sqrt(n)) per image over the last 3 axes."""
  w = win.astype(np.float64)
  n = float(np.prod(w.shape[-3:]))
  mu = w.mean(axis=(-1, -2, -3), keepdims=True)
  sd = w.std(axis=(-1, -2, -3), keepdims=True)
  fl = 1.0 / math.sqrt(n) if floor == 'rsqrt' else math.sqrt(n)
  adj = np.maximum(sd, fl)
  return (w - mu) / adj, adj


def std_tol(ref, adj):
  return 2e-4 / adj + 2e-5 * np.abs(ref) + 1e-5


def exc_enum(e):
  for t in (KeyError, ValueError, TypeError, ZeroDivisionError, IndexError):
    if isinstance(e, t):
      return t.__name__
  return 'other:' + type(e).__name__


def safe_div(a, b):
  return float(a) / float(b) if b else 0.0


class C20(core.Property):
  ID = 'C20'
  LEVEL = 'proof'
  RULE = ('cases by kind: shk (snippet lists with empty snippets / OOV bytes / joined length around multiples of L, '
          'L>=2; exhaustive small scopes in the thorough tier), emnist (every 4-digit number x both id formats, '
          'malformed lengths), cifar (random / low-contrast / constant / one-pixel / gradient images x crop sizes '
          '1..32 x eval|train), labels (packaged tokeniser output fed to the packaged model\'s metrics), rowindep; '
          'non-trivial: shk = at least one snippet; cifar = window not constant; labels = targets contain EOS and a '
          'non-special label; distinct by case digest')
  TRUSTED = ['tf.image.per_image_standardization / resize_with_crop_or_pad are the reference the property names',
             'Lean Float (double) evaluates sqrt in the driver; the theorems take sqrt as a parameter with '
             '0 <= sqrt x and sqrt x * sqrt x = x (instantiated with Real.sqrt)',
             'row independence of the haiku/stax networks is NOT modelled: metamorphic monitor only (partial)',
             'label agreement is a finite configuration comparison (decidable predicate evaluated by the driver) '
             'plus a behavioural oracle through the real metrics; no theorem about the networks']
  ASSUMPTIONS = ['client ids are well-formed (ASCII digits in the numeric field) or have a rejected length',
                 'images are uint8 [N,32,32,3]; crop sizes 1..32; sequence length >= 2']
  QUICK_BUDGET_S = 150
  THOROUGH_BUDGET_S = 600

  # ------------------------------------------------------------------------------------------
  def setup(self, ctx):
    import jax
    import jax.numpy as jnp
    import tensorflow as tf
    from fedjax.core import metrics, models as core_models
    from fedjax.datasets import cifar100, emnist, shakespeare, stackoverflow
    from fedjax.models import cifar100 as m_cifar, emnist as m_emnist, shakespeare as m_shk, stackoverflow as m_so
    self.jax, self.jnp, self.tf = jax, jnp, tf
    self.metrics, self.core_models = metrics, core_models
    self.cifar100, self.emnist, self.shk, self.so = cifar100, emnist, shakespeare, stackoverflow
    self.m_cifar, self.m_emnist, self.m_shk, self.m_so = m_cifar, m_emnist, m_shk, m_so
    self._models = {}
    self._tokenizers = {}
    self.table = [int(v) for v in np.asarray(shakespeare.TABLE).tolist()]
    # The Lean tokeniser model uses PAD/BOS/EOS = 0/1/2 and character labels in [3, V).  The property
    # does not fix the numeric values of the reserved labels, so implementation labels are compared
    # through the order-preserving relabelling that sends the dataset's PAD, BOS, EOS (public module
    # constants) to 0, 1, 2 and the remaining labels to 3.. (the identity for the present values).
    V = int(shakespeare.VOCAB_SIZE)
    sp = [int(shakespeare.PAD), int(shakespeare.BOS), int(shakespeare.EOS)]
    self.sigma = None
    if len(set(sp)) == 3 and all(0 <= v < V for v in sp):
      sig = {v: i for i, v in enumerate(sp)}
      for k, v in enumerate(v for v in range(V) if v not in sp):
        sig[v] = 3 + k
      self.sigma = np.array([sig[v] for v in range(V)], dtype=np.int64)
    tf.get_logger().setLevel('ERROR')   # re-tracing notices of the tokenizer's tf.function

  # ------------------------------------------------------------------------------------------
  def gen_cases(self, rng, tier):
    quick = tier == 'quick'
    yield {'kind': 'shk_table', 'seed': rng.randrange(10**6)}
    # every byte value, inside one snippet and as 256 one-byte snippets (all out-of-vocabulary and
    # control bytes, including the values of the reserved labels themselves)
    yield {'kind': 'shk', 'L': rng.choice([2, 7, 50]), 'snips': [bytes(range(256)).hex()]}
    yield {'kind': 'shk', 'L': rng.choice([2, 3, 5]), 'snips': [bytes([b]).hex() for b in range(256)]}
    for lo in range(0, 10000, 1000):
      yield {'kind': 'emnist_sweep', 'lo': lo, 'hi': lo + 1000, 'salt': rng.randrange(10**6)}
    for _ in range(40 if quick else 200):
      yield self._gen_emnist_id(rng)
    # label agreement first among the expensive ones: it is a configuration property
    for i in range(20 if quick else 160):
      yield self._gen_labels(rng, 'shakespeare' if i % 2 == 0 else 'stackoverflow')
    for c in self._gen_loss(rng, quick):
      yield c
    for i in range(10 if quick else 60):
      yield self._gen_so_tok(rng)
    for i in range(70 if quick else 150):
      yield self._gen_cifar(rng)
    if not quick:
      # every crop size pair, eval and train
      for h in range(1, 33):
        for w in range(1, 33):
          for distort in (False, True):
            c = self._gen_cifar(rng)
            c['h'], c['w'], c['distort'] = h, w, distort
            c['imgs'] = c['imgs'][:2]
            yield c
    for _ in range(6 if quick else 30):
      yield {'kind': 'cifar_pt', 'train': rng.random() < 0.7, 'np_seed': rng.randrange(2**31),
             'imgs': [self._gen_img(rng) for _ in range(rng.randrange(1, 3))]}
    if not quick:
      # exhaustive small scopes of the tokeniser: <=3 snippets of length <=3, L in 2..5
      lens = [()] + [(a,) for a in range(4)] + [(a, b) for a in range(4) for b in range(4)] + \
             [(a, b, c) for a in range(3) for b in range(3) for c in range(3)]
      for L in range(2, 6):
        for ls in lens:
          yield {'kind': 'shk', 'L': L,
                 'snips': [bytes(rng.choice(b'ab Z\x00\xff9\r') for _ in range(n)).hex() for n in ls]}
    for _ in range(300 if quick else 4000):
      yield self._gen_shk(rng)
    for i in range(16 if quick else 96):
      yield {'kind': 'rowindep', 'model': ROW_MODELS[i % len(ROW_MODELS)], 'seed': rng.randrange(10**6),
             'B': 4 if quick else rng.choice([2, 4, 5]), 'row': rng.randrange(0, 4), 'L': 3 if quick else rng.choice([2, 3, 5])}

  def _gen_shk(self, rng):
    kind = rng.randrange(25)
    if kind == 0:  # outside the domain (nothing is demanded; the harness must cope)
      L = rng.choice([0, 1])
    else:
      L = rng.choice([2, 2, 3, 4, 5, 7, 8, 16, 50])
    nsn = rng.choice([0, 1, 1, 2, 3, 5])
    snips = []
    for _ in range(nsn):
      n = rng.choice([0, 0, 1, 2, 3, rng.randrange(0, 20)])
      alphabet = rng.choice([b'abc', bytes(range(256)), b'\x00\xff\x80', b'The quick brown\r\n9', b'\x00\x01\x02\x03a'])
      snips.append(bytes(rng.choice(alphabet) for _ in range(n)))
    if snips and L >= 2 and rng.random() < 0.5:
      # force the joined length next to a multiple of L: J - 1 in {kL - 1, kL, kL + 1}
      J = sum(len(s) + 2 for s in snips)
      want = (-(-(J - 1) // L)) * L + rng.choice([-1, 0, 1]) + 1
      if want > J:
        snips[-1] = snips[-1] + bytes(rng.choice(b'xyz') for _ in range(want - J))
    return {'kind': 'shk', 'L': L, 'snips': [s.hex() for s in snips]}

  def _gen_emnist_id(self, rng):
    k = rng.choice([0, 0, 0, 1, 1, 1, 1, 2, 3, 4])   # 2..4: malformed, outside the domain
    n = rng.choice([2099, 2100, 2101, 2599, 2600, 0, 9999, rng.randrange(10000)])
    tail = b'f%04d_%02d' % (n, rng.randrange(100))
    if k == 0:
      cid = tail
    elif k == 1:
      cid = bytes(rng.choice(b'0123456789abcdef') for _ in range(16)) + b':' + tail
    elif k == 2:   # rejected lengths
      cid = bytes(rng.choice(b'0123456789abcdef:f_') for _ in range(rng.choice([0, 1, 7, 9, 24, 26, 30])))
    elif k == 3:   # a letter in the numeric field
      t = bytearray(tail)
      t[rng.randrange(1, 5)] = rng.choice(b'xyzabc:')
      cid = bytes(t)
    else:          # any prefix bytes, right length
      cid = bytes(rng.randrange(256) for _ in range(17)) + tail
    return {'kind': 'emnist_id', 'id': cid.hex()}

  def _gen_img(self, rng):
    t = rng.choice(IMG_TYPES + ('low', 'low', 'onepix'))
    return {'t': t, 'seed': rng.randrange(10**6), 'base': rng.choice([0, 1, 100, 128, 200, 250, 255]),
            'spread': rng.choice([1, 1, 2, 3, 5, 9, 20, 60])}

  def _gen_cifar(self, rng):
    k = rng.randrange(20)
    if k == 0:     # outside the domain (nothing is demanded; the harness must cope)
      h, w = rng.choice([(0, 5), (5, 0), (33, 5), (5, 33), (-1, 4)])
    elif k <= 4:
      h = w = 24
    elif k <= 8:
      h, w = rng.choice([1, 2, 32]), rng.choice([1, 2, 32])
    else:
      h, w = rng.randrange(1, 33), rng.randrange(1, 33)
    return {'kind': 'cifar', 'h': h, 'w': w, 'distort': rng.random() < 0.5, 'np_seed': rng.randrange(2**31),
            'imgs': [self._gen_img(rng) for _ in range(rng.choice([1, 1, 2, 3]))]}

  def _gen_labels(self, rng, task):
    if task == 'shakespeare':
      alphabet = b'abcXYZ 019\r\r\n\x00'   # '\r' and '9' carry the two largest in-vocabulary labels
      snips = [bytes(rng.choice(alphabet) for _ in range(rng.randrange(0, 7))).hex()
               for _ in range(rng.randrange(1, 4))]
      return {'kind': 'labels', 'task': task, 'L': rng.choice([2, 3, 4, 6]), 'snips': snips,
              'pred': rng.choice(['synthetic', 'synthetic', 'model']), 'seed': rng.randrange(10**6)}
    nv = rng.choice([2, 9])   # few distinct shapes: every new (rows, L, V) costs XLA compilations
    sents = []
    for _ in range(rng.randrange(1, 4)):
      words = [rng.choice(['w%d' % rng.randrange(nv), 'w%d' % rng.randrange(nv), 'zzz']) for _ in range(rng.randrange(1, 9))]
      sents.append(' '.join(words))
    return {'kind': 'labels', 'task': task, 'nv': nv, 'L': rng.choice([3, 6]), 'sents': sents,
            'pred': rng.choice(['synthetic', 'synthetic', 'model']), 'seed': rng.randrange(10**6)}

  def _gen_loss(self, rng, quick):
    from fedjax.training import tasks as tasks_mod
    for name in tasks_mod.ALL_TASKS:
      for _ in range(1 if quick else 4):
        yield {'kind': 'loss', 'what': 'task', 'task': name, 'seed': rng.randrange(10**6)}
    els = [13.3, None, 2.5, 13.3, 1.0, None, 20.0, 13.3, 0.5, None] if quick else [13.3, None, 2.5, 1.0, 20.0] * 6
    for el in els:
      nv = rng.choice([2, 9])
      sents = []
      for _ in range(rng.randrange(1, 5)):
        words = [rng.choice(['w%d' % rng.randrange(nv), 'zzz']) for _ in range(rng.choice([1, 1, 2, 3, 5, 8]))]
        sents.append(' '.join(words))
      yield {'kind': 'loss', 'what': 'so', 'nv': nv, 'L': rng.choice([3, 6]), 'sents': sents, 'el': el,
             'seed': rng.randrange(10**6)}
    for _ in range(3 if quick else 15):
      snips = [bytes(rng.choice(b'abc XYZ\r9\x00') for _ in range(rng.randrange(0, 7))).hex()
               for _ in range(rng.randrange(1, 4))]
      yield {'kind': 'loss', 'what': 'shk', 'L': rng.choice([2, 3, 4, 6]), 'snips': snips, 'seed': rng.randrange(10**6)}
    # (the quick tier reaches the other classifiers through their fedjax.training.tasks configurations)
    for name in (('emnist_stax_dense',) if quick else
                 ('emnist_conv', 'emnist_dense', 'emnist_logistic', 'emnist_stax_dense', 'cifar100_logistic')):
      for _ in range(1 if quick else 3):
        yield {'kind': 'loss', 'what': 'cls', 'model': name, 'seed': rng.randrange(10**6)}

  def _gen_so_tok(self, rng):
    nv = rng.choice([2, 9])
    sents = []
    for _ in range(rng.randrange(1, 5)):
      n = rng.choice([0, 1, 1, 2, 3, 5, 8, 11])
      words = [rng.choice(['w%d' % rng.randrange(nv), 'w%d' % rng.randrange(nv), 'zzz', '']) if rng.random() < 0.9
               else 'W0' for _ in range(n)]
      sents.append(' '.join(words))
    k = rng.choice([1, 2, 2, 3, 3])
    lengths = [rng.choice([1, 2, 3, 4, 6, 9]) for _ in range(k)]
    if k > 1 and rng.random() < 0.8:
      lengths = rng.sample([1, 2, 3, 4, 6, 9], k)
    pat = rng.randrange(4)
    idx = list(range(k))
    if pat == 0:      # create, use, create, use, ... then the first one again
      ops = [o for i in idx for o in (['c', i], ['u', i])] + [['u', 0]]
    elif pat == 1:    # all created first (the load_data pattern), used in creation order
      ops = [['c', i] for i in idx] + [['u', i] for i in idx]
    elif pat == 2:    # all created first, used in another order, twice
      order = idx[:]
      rng.shuffle(order)
      ops = [['c', i] for i in idx] + [['u', i] for i in reversed(idx)] + [['u', i] for i in order]
    else:             # random valid interleaving
      ops, created, pending = [], [], idx[:]
      while pending or rng.random() < 0.5:
        if pending and (not created or rng.random() < 0.5):
          i = pending.pop(0)
          created.append(i)
          ops.append(['c', i])
        elif created:
          ops.append(['u', rng.choice(created)])
        if len(ops) > 10:
          break
      ops += [['c', i] for i in pending] + [['u', i] for i in idx]
    return {'kind': 'so_tok', 'nv': nv, 'sents': sents, 'lengths': lengths, 'ops': ops,
            'via': rng.choice(['direct', 'direct', 'sqlite', 'sqlite', 'token_fn'])}

  # ------------------------------------------------------------------------------------------
  def shrink(self, case):
    k = case.get('kind')
    if k == 'loss':
      if case['what'] == 'so':
        st = case['sents']
        for i in range(len(st)):
          if len(st) > 1:
            yield {**case, 'sents': st[:i] + st[i + 1:]}
        for i, t in enumerate(st):
          ws = t.split(' ')
          if len(ws) > 1:
            yield {**case, 'sents': st[:i] + [' '.join(ws[:-1])] + st[i + 1:]}
        if case['nv'] != 2:
          yield {**case, 'nv': 2, 'sents': [' '.join('w0' if w != 'zzz' else w for w in t.split(' ')) for t in st]}
        if case['L'] != 3:
          yield {**case, 'L': 3}
      elif case['what'] == 'shk':
        sn = case['snips']
        for i in range(len(sn)):
          if len(sn) > 1:
            yield {**case, 'snips': sn[:i] + sn[i + 1:]}
        for i, t in enumerate(sn):
          if len(t) >= 2:
            yield {**case, 'snips': sn[:i] + [t[:-2]] + sn[i + 1:]}
      if case.get('seed', 0) > 3:
        yield {**case, 'seed': case['seed'] % 3}
      return
    if k == 'so_tok':
      ops, lens, st = case['ops'], case['lengths'], case['sents']
      if case['via'] != 'direct':
        yield {**case, 'via': 'direct'}
      for i in range(len(lens)):      # drop preprocessor i entirely
        if len(lens) > 1:
          ren = {j: (j if j < i else j - 1) for j in range(len(lens)) if j != i}
          yield {**case, 'lengths': lens[:i] + lens[i + 1:],
                 'ops': [[o, ren[j]] for o, j in ops if j != i]}
      for n in range(len(ops)):       # drop one use
        if ops[n][0] == 'u' and sum(1 for o in ops if o[0] == 'u') > 1:
          yield {**case, 'ops': ops[:n] + ops[n + 1:]}
      for i in range(len(st)):
        if len(st) > 1:
          yield {**case, 'sents': st[:i] + st[i + 1:]}
      for i, t in enumerate(st):
        ws = t.split(' ')
        if len(ws) > 1:
          yield {**case, 'sents': st[:i] + [' '.join(ws[:-1])] + st[i + 1:]}
      return
    if k == 'shk' or (k == 'labels' and 'snips' in case):
      sn = case['snips']
      for i in range(len(sn)):
        yield {**case, 'snips': sn[:i] + sn[i + 1:]}
      for i, s in enumerate(sn):
        if len(s) >= 2:
          yield {**case, 'snips': sn[:i] + [s[:len(s) // 4 * 2]] + sn[i + 1:]}
          yield {**case, 'snips': sn[:i] + [s[:-2]] + sn[i + 1:]}
          yield {**case, 'snips': sn[:i] + [s[2:]] + sn[i + 1:]}
      if case['L'] > 2:
        yield {**case, 'L': 2}
        yield {**case, 'L': case['L'] - 1}
      if k == 'labels' and case.get('pred') != 'synthetic':
        yield {**case, 'pred': 'synthetic'}
    elif k == 'labels':
      st = case['sents']
      for i in range(len(st)):
        if len(st) > 1:
          yield {**case, 'sents': st[:i] + st[i + 1:]}
      for i, s in enumerate(st):
        ws = s.split(' ')
        if len(ws) > 1:
          yield {**case, 'sents': st[:i] + [' '.join(ws[:-1])] + st[i + 1:]}
      if case['nv'] > 1:
        yield {**case, 'nv': 1, 'sents': [' '.join('w0' if w != 'zzz' else w for w in s.split(' ')) for s in st]}
      if case['L'] > 3:
        yield {**case, 'L': case['L'] - 1}
      if case.get('pred') != 'synthetic':
        yield {**case, 'pred': 'synthetic'}
    elif k in ('cifar', 'cifar_pt'):
      im = case['imgs']
      if len(im) > 1:
        for i in range(len(im)):
          yield {**case, 'imgs': [im[i]]}
      if k == 'cifar':
        if case['distort']:
          yield {**case, 'distort': False}
        for key in ('h', 'w'):
          v = case[key]
          for c in sorted({1, 2, v // 2, v - 1}):
            if 1 <= c < v:
              yield {**case, key: c}
      for i, s in enumerate(im):
        if s['t'] not in ('low', 'const'):
          yield {**case, 'imgs': im[:i] + [{**s, 't': 'low'}] + im[i + 1:]}
        if s.get('spread', 1) > 1:
          yield {**case, 'imgs': im[:i] + [{**s, 'spread': s['spread'] // 2}] + im[i + 1:]}
        if s.get('seed', 0) > 3:
          yield {**case, 'imgs': im[:i] + [{**s, 'seed': s['seed'] % 3}] + im[i + 1:]}
    elif k == 'emnist_sweep':
      lo, hi = case['lo'], case['hi']
      if hi - lo > 1:
        mid = (lo + hi) // 2
        yield {**case, 'hi': mid}
        yield {**case, 'lo': mid}
    elif k == 'rowindep':
      if case['B'] > 2:
        yield {**case, 'B': 2}
      if case['L'] > 2:
        yield {**case, 'L': 2}

  # ------------------------------------------------------------------------------------------
  def evaluate(self, case, ctx):
    import time
    t = time.time()
    try:
      return getattr(self, '_eval_' + case['kind'])(case, ctx)
    finally:
      k = 'wall_s:' + case['kind']
      ctx.stats[k] = round(ctx.stats.get(k, 0.0) + time.time() - t, 2)

  # ---- Shakespeare -------------------------------------------------------------------------
  def _eval_shk_table(self, case, ctx):
    shk = self.shk
    problems, corr = [], []
    t = self.table
    V = int(shk.VOCAB_SIZE)
    if len({int(shk.PAD), int(shk.BOS), int(shk.EOS)}) != 3:
      problems.append('PAD/BOS/EOS not distinct')
    specials = {int(shk.PAD), int(shk.BOS), int(shk.EOS)}
    if len(t) != 256 or any(v in specials for v in t):
      problems.append('TABLE maps a byte to a reserved label')
    if any(not (0 <= v < V) for v in t) or any(not (0 <= v < V) for v in specials):
      problems.append('TABLE value / reserved label outside [0, VOCAB_SIZE)')
    inv = [b for b in range(256) if t[b] != shk.OOV]
    if len({t[b] for b in inv}) != len(inv):
      problems.append('two in-vocabulary bytes share a label')
    # documented behaviour of the table builder on random vocabularies -- a private helper: checked
    # only while a function of that name exists (a renamed/inlined helper is not a violation)
    build = getattr(shk, '_build_look_up_table', None)
    if build is None:
      ctx.count('skipped:private _build_look_up_table absent')
    else:
      rs = np.random.RandomState(case['seed'])
      for _ in range(5):
        vocab = bytes(rs.randint(0, 256, size=rs.randint(0, 12)).tolist())
        nr = int(rs.randint(0, 5))
        try:
          tab, vs = build(vocab, nr)
        except TypeError:
          ctx.count('skipped:private _build_look_up_table has another signature')
          break
        want = [nr + len(vocab)] * 256
        for i, c in enumerate(vocab):
          want[c] = nr + i
        if vs != nr + len(vocab) + 1 or [int(v) for v in tab] != want:
          problems.append(f'_build_look_up_table({vocab!r}, {nr}) deviates from its documentation')
    if self.sigma is None or problems:
      corr.append('reserved labels / TABLE do not admit the canonical relabelling used for the model comparison')
    else:
      ok = ctx.drv.ask([line('c20.shk_table', [int(self.sigma[v]) for v in t], V)])[0]
      if ok is not True:
        corr.append('the real TABLE does not meet the hypothesis of the tokeniser theorems (character labels '
                    'disjoint from PAD/BOS/EOS and below VOCAB_SIZE)')
    return Outcome(oracle_fail='; '.join(problems[:3]) or None, corr_fail='; '.join(corr) or None,
                   key='C20/shakespeare/table', tags=('shk_table',))

  def _run_shk(self, snips, L):
    arr = np.empty([len(snips)], dtype=object)
    for i, s in enumerate(snips):
      arr[i] = s
    try:
      out = self.shk.preprocess_client(b'client', {'snippets': arr}, L)
    except Exception as e:  # pylint: disable=broad-except
      return ('err', exc_enum(e))
    return ('ok', out)

  def _eval_shk(self, case, ctx):
    shk = self.shk
    L = case['L']
    snips = [bytes.fromhex(s) for s in case['snips']]
    problems, corr = [], []
    status, out = self._run_shk(snips, L)
    tags = ['shk', f'L={"<2" if L < 2 else ("2" if L == 2 else ">2")}', f'snips={min(len(snips), 3)}']
    if L < 2:
      # outside the property's domain (sequence lengths >= 2): an exception and any result are both
      # acceptable; nothing is compared
      ctx.count('out_of_domain:shk L<2')
      return Outcome(nontrivial=False, tags=tuple(tags + ['out-of-domain', 'raises' if status == 'err' else 'returns']),
                     key='C20/shakespeare/tokeniser')
    if status == 'err':
      return Outcome(oracle_fail=f'preprocess_client raised {out} for sequence_length={L}, snippets {snips!r}',
                     nontrivial=False, tags=tuple(tags + ['raises']), key='C20/shakespeare/tokeniser')
    x, y = out['x'], out['y']
    impl = [x.tolist(), y.tolist()]
    V_ = int(shk.VOCAB_SIZE)
    in_range = x.size == 0 or (min(x.min(), y.min()) >= 0 and max(x.max(), y.max()) < V_)
    if self.sigma is None or not in_range:
      ans = 'not-comparable'
      corr.append('labels outside [0, VOCAB_SIZE) or reserved labels not distinct: no model comparison')
    else:
      ans = ctx.drv.ask([line('c20.shk', [int(self.sigma[v]) for v in self.table], V_, L, [list(s) for s in snips])])[0]
      canon = [self.sigma[x].tolist() if x.size else x.tolist(), self.sigma[y].tolist() if y.size else y.tolist()]
      if ans == 'err' or ans == 'bad-table':
        corr.append(f'model answers {ans}, impl returned arrays')
      elif ans != canon:
        corr.append(f'tokeniser model {str(ans)[:200]} vs impl (reserved labels canonicalised) {str(canon)[:200]}')
    if L >= 2:
      # independent statement of the property on the real output
      PAD, BOS, EOS, V = int(shk.PAD), int(shk.BOS), int(shk.EOS), int(shk.VOCAB_SIZE)
      stream = []
      for s in snips:
        stream.append(BOS)
        stream.extend(self.table[b] for b in s)
        stream.append(EOS)
      J = len(stream)
      if x.dtype != np.int32 or y.dtype != np.int32:
        problems.append(f'dtypes {x.dtype}/{y.dtype}')
      if x.ndim != 2 or y.shape != x.shape or x.shape[1] != L:
        problems.append(f'shapes {x.shape}/{y.shape} for L={L}')
      else:
        def strip(a):
          a = a.reshape(-1).tolist()
          while a and a[-1] == PAD:
            a.pop()
          return a
        xs, ys = strip(x), strip(y)
        if xs != stream[:-1]:
          problems.append(f'x without padding {xs[:30]} != label stream[:-1] {stream[:-1][:30]}')
        if ys != stream[1:]:
          problems.append(f'y without padding {ys[:30]} != label stream[1:] {stream[1:][:30]}')
        want_rows = -(-max(J - 1, 0) // L)
        if x.shape[0] != want_rows:
          problems.append(f'{x.shape[0]} rows, expected ceil({max(J - 1, 0)}/{L}) = {want_rows}')
        xf, yf = x.reshape(-1), y.reshape(-1)
        for t in range(max(J - 2, 0)):
          if t + 1 < len(xf) and yf[t] != xf[t + 1]:
            problems.append(f'y[{t}] = {yf[t]} != x[{t + 1}] = {xf[t + 1]}')
            break
        if x.size and (x.min() < 0 or y.min() < 0 or x.max() >= V or y.max() >= V):
          problems.append('label outside [0, VOCAB_SIZE)')
        # lossless: the snippets (with out-of-vocabulary bytes collapsed) can be read back
        inv = {}
        for b in range(256):
          inv.setdefault(self.table[b], b)
        full = ([int(xf[0])] if len(xf) else []) + ys
        back, cur = [], None
        for v in full:
          if v == BOS:
            cur = []
          elif v == EOS:
            back.append(cur)
            cur = None
          elif cur is not None:
            cur.append(v)
        want_back = [[self.table[b] for b in s] for s in snips]
        if back != want_back:
          problems.append('snippets cannot be read back from the labels')
    return Outcome(oracle_fail='; '.join(problems[:3]) or None, corr_fail='; '.join(corr[:2]) or None,
                   nontrivial=len(snips) > 0 and L >= 2, tags=tuple(tags), key='C20/shakespeare/tokeniser',
                   detail={'impl': str(impl)[:600], 'model': str(ans)[:600]})

  # ---- EMNIST ------------------------------------------------------------------------------
  def _domain(self, cid):
    try:
      return int(self.emnist.domain_id(cid))
    except Exception as e:  # pylint: disable=broad-except
      return 'err' if isinstance(e, ValueError) else 'other:' + type(e).__name__

  def _eval_emnist_sweep(self, case, ctx):
    rs = np.random.RandomState(case['salt'])
    ids = []
    for n in range(case['lo'], case['hi']):
      tail = b'f%04d_%02d' % (n, int(rs.randint(100)))
      h = bytes(rs.choice(list(b'0123456789abcdef'), size=16).tolist())
      ids.append((n, tail))
      ids.append((n, h + b':' + tail))
    ans = ctx.drv.ask([line('c20.emnist', list(c)) for _, c in ids])
    problems, corr = [], []
    for (n, cid), a in zip(ids, ans):
      got = self._domain(cid)
      want = 0 if 2100 <= n <= 2599 else 1
      if got != want:
        problems.append(f'domain_id({cid!r}) = {got}, documented ranges say {want}')
      if got != a:
        corr.append(f'domain_id({cid!r}): impl {got} vs model {a}')
    # preprocess_client attaches the id to every example
    ex = {'pixels': np.zeros((3, 28, 28), np.float32), 'label': np.array([5, 7, 9], np.int32)}
    for n in (case['lo'], case['hi'] - 1):
      cid = b'f%04d_07' % n
      out = self.emnist.preprocess_client(cid, ex)
      want = 0 if 2100 <= n <= 2599 else 1
      if out['domain_id'].tolist() != [want] * 3 or out['domain_id'].dtype != np.int32:
        problems.append(f'preprocess_client({cid!r}) domain_id feature {out["domain_id"]}')
    ctx.count('emnist_ids_exhaustive', len(ids))
    return Outcome(oracle_fail='; '.join(problems[:3]) or None, corr_fail='; '.join(corr[:3]) or None,
                   tags=('emnist_sweep',), key='C20/emnist/domain')

  def _eval_emnist_id(self, case, ctx):
    import re
    cid = bytes.fromhex(case['id'])
    got = self._domain(cid)
    m = re.fullmatch(rb'(?:[0-9a-f]{16}:)?f(\d{4})_\d{2}', cid)
    if m is None:
      # not a well-formed EMNIST client id: outside the property's domain, any exception or result is acceptable
      ctx.count('out_of_domain:emnist malformed id')
      return Outcome(nontrivial=False, tags=('emnist_id', 'out-of-domain', 'raises' if not isinstance(got, int) else 'returns'),
                     key='C20/emnist/domain')
    a = ctx.drv.ask([line('c20.emnist', list(cid))])[0]
    problems, corr = [], []
    n = int(m.group(1))
    want = 0 if 2100 <= n <= 2599 else 1
    if got != want:
      problems.append(f'domain_id({cid!r}) = {got}, documented ranges say {want}')
    if got != a:
      corr.append(f'domain_id({cid!r}): impl {got} vs model {a}')
    return Outcome(oracle_fail='; '.join(problems) or None, corr_fail='; '.join(corr) or None,
                   tags=('emnist_id', 'len=%d' % len(cid), f'res={got}'), key='C20/emnist/domain')

  # ---- CIFAR-100 ---------------------------------------------------------------------------
  def _eval_cifar(self, case, ctx):
    cifar, tf = self.cifar100, self.tf
    h, w, distort = case['h'], case['w'], case['distort']
    batch = np.stack([make_image(s) for s in case['imgs']])
    snap = batch.copy()
    problems, corr = [], []
    key = 'C20/cifar/standardise'
    tags = ['cifar', 'train' if distort else 'eval']
    valid = 1 <= h <= 32 and 1 <= w <= 32
    np.random.seed(case['np_seed'])
    try:
      out = cifar.preprocess_image_tff(batch, h, w, distort)
      status = 'ok'
    except Exception as e:  # pylint: disable=broad-except
      out, status = None, exc_enum(e)
    if not valid:
      # crop sizes outside 1..32 are outside the property's domain: an exception and any result are acceptable
      ctx.count('out_of_domain:cifar crop size')
      return Outcome(nontrivial=False, tags=tuple(tags + ['out-of-domain', 'raises' if status != 'ok' else 'returns']),
                     key='C20/cifar/crop')
    if status != 'ok':
      return Outcome(oracle_fail=f'preprocess_image_tff raised {status} for crop {h}x{w}', nontrivial=False,
                     tags=tuple(tags + ['raises']), key='C20/cifar/crop')
    if not np.array_equal(batch, snap):
      problems.append('input images mutated')
    if out.shape != (len(batch), h, w, 3) or out.dtype != np.float32:
      problems.append(f'output shape/dtype {out.shape}/{out.dtype} for crop {h}x{w}')
      return Outcome(oracle_fail='; '.join(problems), tags=tuple(tags), key='C20/cifar/crop')
    # also through the batch wrapper: judged by the same oracle on its own output (its random draws need
    # not coincide with those of another call), y passed through
    np.random.seed(case['np_seed'])
    yb = np.arange(len(batch), dtype=np.int32)
    wrapped = cifar.preprocess_batch_tff({'x': batch, 'y': yb}, crop_height=h, crop_width=w, distort=distort)
    wx = np.asarray(wrapped['x'])
    if not np.array_equal(wrapped['y'], yb):
      problems.append('preprocess_batch_tff does not pass y through')
    sources = [('preprocess_image_tff', out, True)]
    if wx.shape != out.shape or wx.dtype != np.float32:
      problems.append(f'preprocess_batch_tff output shape/dtype {wx.shape}/{wx.dtype} for crop {h}x{w}')
    elif not np.array_equal(wx, out):   # identical arrays get the identical verdict
      sources.append(('preprocess_batch_tff', wx, False))

    nontrivial = False
    lines, expect = [], []
    detail = {}
    for src, arr, with_model in sources:
      for n, img in enumerate(batch):
        o = arr[n].astype(np.float64)
        if not distort:
          win_tf = tf.image.resize_with_crop_or_pad(img[None], h, w).numpy()[0]
          oi, oj = (32 - h) // 2, (32 - w) // 2
          win = img[oi:oi + h, oj:oj + w, :]
          if not np.array_equal(win, win_tf):
            raise core.InfraError('centre-crop convention of the harness differs from TensorFlow')
          cands = [(oi, oj, False, win)]
        else:
          cands = []
          for oi in range(0, 32 - h + 1):
            for oj in range(0, 32 - w + 1):
              win = img[oi:oi + h, oj:oj + w, :]
              cands.append((oi, oj, False, win))
              cands.append((oi, oj, True, win[:, ::-1, :]))
        stack = np.stack([c[3] for c in cands])
        ref, adj = std_ref64(stack)
        okm = np.all(np.abs(ref - o[None]) <= std_tol(ref, adj), axis=(1, 2, 3))
        hit = int(np.argmax(okm)) if okm.any() else None
        if hit is None:
          bad, badadj = std_ref64(stack, floor='sqrt')
          if np.all(np.abs(bad - o[None]) <= std_tol(bad, badadj), axis=(1, 2, 3)).any():
            key = 'C20/cifar/std-floor'
          if not detail:
            detail = {'image': n, 'impl_first_values': o.reshape(-1)[:6].tolist(),
                      'standardised_centre_or_first_window_first_values': ref[0].reshape(-1)[:6].tolist(),
                      'window_first_values': stack[0].reshape(-1)[:6].tolist(),
                      'window_std': float(stack[0].std()), 'rsqrt_n': 1 / math.sqrt(h * w * 3)}
          if not distort:
            dev = float(np.abs(ref[0] - o).max())
            problems.append(f'{src}: image {n} ({case["imgs"][n]["t"]}): eval output deviates from per-image standardisation of '
                            f'the centre crop by {dev:.4g} (std of the crop {float(stack[0].std()):.4g}, '
                            f'1/sqrt(n) = {1 / math.sqrt(h * w * 3):.4g})')
          else:
            problems.append(f'{src}: image {n} ({case["imgs"][n]["t"]}): training output is not the standardised {h}x{w} '
                            f'sub-window at any offset/flip')
          continue
        oi, oj, flip, win = cands[hit]
        # TensorFlow itself on the identified window
        tfref = tf.image.per_image_standardization(tf.constant(win)).numpy().astype(np.float64)
        if np.any(np.abs(tfref - o) > 2 * std_tol(ref[hit], adj[hit])):
          problems.append(f'{src}: image {n}: deviates from tf.image.per_image_standardization by '
                          f'{float(np.abs(tfref - o).max()):.4g}')
        nontrivial = nontrivial or bool(win.min() != win.max())
        if with_model:
          tags.append('floor' if float(win.std()) < 1 / math.sqrt(win.size) else 'std')
        if n < 2 and with_model:
          lines.append(line('c20.tff', h, w, [oi, oj, flip] if distort else None, img.tolist()))
          expect.append((n, o, ref[hit], adj[hit]))
    for (n, o, ref, adj), a in zip(expect, ctx.drv.ask(lines)):
      if a == 'err' or not isinstance(a, list):
        corr.append(f'model answers {str(a)[:40]}')
        continue
      m = np.array([float(v) for v in a], dtype=np.float64).reshape(o.shape)
      if np.any(np.abs(m - o) > 2 * std_tol(ref, adj)):
        corr.append(f'image {n}: model vs impl max deviation {float(np.abs(m - o).max()):.4g}')
    ctx.count('cifar_images', len(batch))
    return Outcome(oracle_fail='; '.join(problems[:3]) or None, corr_fail='; '.join(corr[:3]) or None,
                   nontrivial=nontrivial, tags=tuple(sorted(set(tags))), key=key, detail=detail or None)

  def _eval_cifar_pt(self, case, ctx):
    cifar = self.cifar100
    batch = np.stack([make_image(s) for s in case['imgs']])
    np.random.seed(case['np_seed'])
    out = cifar.preprocess_image(batch, case['train'])
    problems = []
    if out.shape != batch.shape or out.dtype != np.float32:
      problems.append(f'shape/dtype {out.shape}/{out.dtype}')
    else:
      mean = np.asarray(cifar.CIFAR100_PIXELS_MEAN, np.float64)
      inv = np.asarray(cifar.CIFAR100_PIXELS_INVERSE_STDDEV, np.float64)
      for n, img in enumerate(batch):
        if case['train']:
          pad = np.pad(img, [(4, 4), (4, 4), (0, 0)])
          wins = [pad[i:i + 32, j:j + 32, :][:, ::(-1 if f else 1), :] for i in range(9) for j in range(9) for f in (0, 1)]
        else:
          wins = [img]
        refs = (np.stack(wins).astype(np.float64) / 255 - mean) * inv
        if not np.all(np.abs(refs - out[n][None]) <= 1e-5 + 1e-5 * np.abs(refs), axis=(1, 2, 3)).any():
          problems.append(f'image {n}: output is not the normalised ' +
                          ('32x32 sub-window of the zero-padded image at any offset/flip' if case['train'] else 'image'))
    return Outcome(oracle_fail='; '.join(problems[:2]) or None, tags=('cifar_pt', 'train' if case['train'] else 'eval'),
                   key='C20/cifar/pytorch-style')

  # ---- label conventions -------------------------------------------------------------------
  def _model(self, name, **kw):
    k = (name, tuple(sorted(kw.items())))
    if k not in self._models:
      jax = self.jax
      if name == 'shakespeare_lstm':
        m = self.m_shk.create_lstm_model(lstm_hidden_size=8, lstm_num_layers=1, **kw)
      elif name == 'shakespeare_default':
        m = self.m_shk.create_lstm_model()
      elif name == 'stackoverflow_lstm':
        m = self.m_so.create_lstm_model(embed_size=4, lstm_hidden_size=8, **kw)
      elif name == 'emnist_conv':
        m = self.m_emnist.create_conv_model(only_digits=False)
      elif name == 'emnist_dense':
        m = self.m_emnist.create_dense_model(only_digits=False)
      elif name == 'emnist_logistic':
        m = self.m_emnist.create_logistic_model(only_digits=False)
      elif name == 'emnist_stax_dense':
        m = self.m_emnist.create_stax_dense_model(only_digits=False)
      elif name == 'cifar100_logistic':
        m = self.m_cifar.create_logistic_model()
      else:
        raise ValueError(name)
      params = m.init(jax.random.PRNGKey(len(self._models) + 7)) if name != 'shakespeare_default' else None
      self._models[k] = (m, params)
    return self._models[k]

  def _tokenizer(self, nv):
    if nv not in self._tokenizers:
      self._tokenizers[nv] = self.so.StackoverflowTokenizer(vocab=['w%d' % i for i in range(nv)])
    return self._tokenizers[nv]

  def _so_preprocess(self, nv, L):
    k = ('pre', nv, L)
    if k not in self._tokenizers:
      self._tokenizers[k] = self._tokenizer(nv).as_preprocess_batch(L)
    return self._tokenizers[k]

  @staticmethod
  def _introspect(model):
    rows, names = [], []
    for name in sorted(model.eval_metrics):
      m = model.eval_metrics[name]
      if not hasattr(m, 'masked_target_values'):
        continue
      lm = getattr(m, 'logits_mask', None)
      lm_enc = None if lm is None else [len(lm), [i for i, v in enumerate(lm) if v < -1e30]]
      oov = getattr(m, 'oov_target_values', None)
      eos = getattr(m, 'eos_target_value', None)
      rows.append([[int(v) for v in m.masked_target_values], lm_enc,
                   None if oov is None else [int(v) for v in oov], None if eos is None else int(eos)])
      names.append(name)
    return names, rows

  def _eval_labels(self, case, ctx):
    jnp, metrics = self.jnp, self.metrics
    task, L = case['task'], case['L']
    problems, corr = [], []
    if task == 'shakespeare':
      shk = self.shk
      snips = [bytes.fromhex(s) for s in case['snips']]
      status, out = self._run_shk(snips, L)
      if status != 'ok':
        return Outcome(oracle_fail=f'preprocess_client raised {out}', key='C20/shakespeare/tokeniser', tags=('labels',))
      batch = {'x': out['x'], 'y': out['y']}
      ids = (int(shk.PAD), int(shk.BOS), int(shk.EOS), [int(shk.OOV)], int(shk.VOCAB_SIZE))
      ds_enc_early = dict(zip(('PAD', 'BOS', 'EOS', 'OOV', 'VOCAB_SIZE'), ids))
      model, params = self._model('shakespeare_lstm')
      default_model, _ = self._model('shakespeare_default')
      # constants vs what the tokeniser really emits
      st2, probe = self._run_shk([b'\x00a'], 4)
      if st2 == 'ok' and (probe['x'][0].tolist() != [ids[1], ids[3][0], self.table[ord('a')], ids[0]] or
                          probe['y'][0].tolist() != [ids[3][0], self.table[ord('a')], ids[2], ids[0]]):
        problems.append(f'PAD/BOS/EOS/OOV constants differ from what the tokeniser emits: snippets [b"\\x00a"], '
                        f'sequence_length 4 give x={probe["x"].tolist()}, y={probe["y"].tolist()}; expected '
                        f'x=[[BOS, OOV, label(a), PAD]], y=[[OOV, label(a), EOS, PAD]] with {ds_enc_early}')
      described = f'snippets {snips!r}, sequence_length {L}'
    else:
      so = self.so
      nv = case['nv']
      tok = self._tokenizer(nv)
      toks = np.empty([len(case['sents'])], dtype=object)
      for i, s in enumerate(case['sents']):
        toks[i] = s.encode()
      out = self._so_preprocess(nv, L)({'tokens': toks})
      batch = {'x': out['x'], 'y': out['y']}
      ids = (int(tok.PAD), int(tok.BOS), int(tok.EOS), [nv + 3], nv + 4)
      model, params = self._model('stackoverflow_lstm', vocab_size=nv)
      default_model = None
      probe = self._so_preprocess(nv, 4)({'tokens': np.array([b'zzz w0'], dtype=object)})
      if (probe['x'][0].tolist() != [ids[1], ids[3][0], 3, ids[0]] or
          probe['y'][0].tolist() != [ids[3][0], 3, ids[2], ids[0]]):
        problems.append('PAD/BOS/EOS/OOV conventions differ from what the tokeniser emits')
      pm = inspect.signature(self.m_so.create_lstm_model).parameters.get('vocab_size')
      pt = inspect.signature(so.StackoverflowTokenizer.__init__).parameters.get('default_vocab_size')
      d_model = pm.default if pm is not None else None
      d_tok = pt.default if pt is not None else None
      if d_model is None or d_tok is None or d_model is inspect.Parameter.empty or d_tok is inspect.Parameter.empty:
        ctx.count('skipped:default vocabulary sizes not readable from the signatures')
      elif d_model != d_tok:
        problems.append(f'default vocabulary sizes differ: model {d_model}, tokenizer {d_tok}')
      described = f'sentences {case["sents"]!r}, max_length {L}, vocab w0..w{nv - 1}'
    pad, bos, eos, oovs, V = ids
    y = np.asarray(batch['y'])
    M = y.shape[0]

    # ---- configuration predicate (driver) on the introspected model objects
    ds_enc = [pad, bos, eos, oovs, V]
    cfg_lines, cfg_names = [], []
    for mdl, label in ((model, 'model'), (default_model, 'default-arguments model')):
      if mdl is None:
        continue
      names, rows = self._introspect(mdl)
      if label == 'model':
        width = int(np.asarray(mdl.apply_for_eval(params, {'x': np.zeros((1, 2), np.int32),
                                                            'y': np.zeros((1, 2), np.int32)})).shape[-1])
      else:
        lms = [r[1][0] for r in rows if r[1] is not None]
        width = lms[0] if lms else V
      cfg_lines.append(line('c20.labels', ds_enc, width, rows))
      cfg_names.append((label, names))
    agree_all = True
    for (label, names), a in zip(cfg_names, ctx.drv.ask(cfg_lines)):
      if a[0] is not True:
        agree_all = False
        bad = [n for n, ok in zip(names, a[2]) if not ok] + ([] if a[1] else ['output width'])
        corr.append(f'labelsAgree is false for the {task} {label}: {bad} do not use the dataset ids {ds_enc}')

    # ---- behavioural oracle: the real metrics on the real tokeniser output vs by-name references
    rs = np.random.RandomState(case['seed'])
    # rows are padded to a fixed count and masked out (as fedjax's padded batches are), so that
    # the jitted metric evaluation / the un-jitted LSTM are compiled for few distinct shapes
    MP = next(m for m in (4, 8, 16, 32, 64, 128, 1 << 20) if m >= M)

    def padrows(a):
      a = np.asarray(a)
      return np.concatenate([a, np.zeros((MP - M,) + a.shape[1:], a.dtype)], axis=0)

    logit_sets = []
    if M > 0 and case['pred'] == 'model':
      try:
        logits = np.asarray(model.apply_for_eval(params, {k: padrows(v) for k, v in batch.items()}),
                            dtype=np.float32)[:M]
      except Exception as e:  # pylint: disable=broad-except
        logits = np.zeros((0,))
        problems.append(f'{task} model raises {exc_enum(e)} on the tokeniser output of {described}')
      if problems:
        pass
      elif logits.shape != (M, L, V):
        problems.append(f'model output shape {logits.shape}, tokeniser vocabulary size {V}')
      else:
        logit_sets.append(logits)
    elif M > 0:
      # four synthetic prediction draws: the arg-max is pushed towards the target / the special labels /
      # the largest in-vocabulary labels, so that masks and masked targets matter
      cand = sorted({pad, bos, eos, oovs[0], V - 2, V - 3} & set(range(V)))
      for _ in range(4):
        logits = rs.normal(size=(M, L, V)).astype(np.float32)
        for i in range(M):
          for t in range(L):
            r = rs.randint(4)
            if r == 0:
              logits[i, t, y[i, t]] += 12
            elif r == 1:
              logits[i, t, cand[rs.randint(len(cand))]] += 12
            elif r == 2:
              logits[i, t, y[i, t]] += 12
              logits[i, t, cand[rs.randint(len(cand))]] += 14
        logit_sets.append(logits)
    nontrivial = bool(np.any(y == eos) and np.any((y != pad) & (y != eos) & (y != bos)))
    detail = {}
    for draw, logits in enumerate(logit_sets):
      if problems:
        break
      lg = logits.astype(np.float64)
      nonpad = y != pad
      mx = lg.max(-1, keepdims=True)
      lse = (mx + np.log(np.exp(lg - mx).sum(-1, keepdims=True)))[..., 0]
      ce = lse - np.take_along_axis(lg, y[..., None].astype(np.int64), -1)[..., 0]
      pred_all = lg.argmax(-1)
      lgm = lg.copy()
      lgm[..., sorted({pad, bos, eos, *oovs})] = -np.inf
      pred_iv = lgm.argmax(-1)
      w_acc = nonpad & (y != eos)
      nonempty = nonpad.any(-1)
      ref = {
          'accuracy_no_eos': safe_div(((pred_all == y) & w_acc).sum(), w_acc.sum()),
          'accuracy_in_vocab': safe_div(((pred_iv == y) & w_acc).sum(), w_acc.sum()),
          'num_tokens': float(nonpad.sum()),
          'sequence_length': safe_div(nonpad.sum(), nonempty.sum()),
          'sequence_loss': safe_div((ce * nonpad).sum(), nonempty.sum()),
          'token_loss': safe_div((ce * nonpad).sum(), nonpad.sum()),
          'token_oov_rate': safe_div((np.isin(y, oovs) & nonpad).sum(), nonpad.sum()),
          'truncation_rate': safe_div((nonempty & ~(y == eos).any(-1)).sum(), nonempty.sum()),
      }
      jb = {'x': jnp.asarray(padrows(batch['x'])), 'y': jnp.asarray(padrows(batch['y']))}
      jl = jnp.asarray(padrows(logits))
      jmask = jnp.arange(MP) < M
      detail = {'prediction_draw': draw, 'targets': y.tolist(), 'predicted_labels': pred_all.tolist()}
      for name in sorted(model.eval_metrics):
        if name not in ref:
          ctx.count('metric_without_reference:' + name)
          continue
        try:
          got = float(metrics.evaluate_batch(model.eval_metrics[name], jb, jl, jmask).result())
        except Exception as e:  # pylint: disable=broad-except
          problems.append(f'{task} metric {name} raises {exc_enum(e)} on the tokeniser output of {described} '
                          f'(vocabulary size {V}): {str(e)[:120]}')
          continue
        detail[name] = [got, ref[name]]
        if not abs(got - ref[name]) <= 1e-4 * (1 + abs(ref[name])):
          problems.append(f'{task} metric {name} = {got:.6g} on the tokeniser output of {described} (targets '
                          f'{y.tolist()}, predicted labels {pred_all.tolist()}); with the dataset ids (pad {pad}, '
                          f'bos {bos}, eos {eos}, oov {oovs}) it is {ref[name]:.6g}')
      # per-example training loss ignores exactly the dataset's PAD
      try:
        tl = np.asarray(model.train_loss(jb, jl), dtype=np.float64)[:M]
      except Exception as e:  # pylint: disable=broad-except
        problems.append(f'{task} train_loss raises {exc_enum(e)} on the tokeniser output of {described}')
        continue
      want_tl = (ce * nonpad).mean(-1) if task == 'shakespeare' else (ce * nonpad).sum(-1)
      if tl.shape != want_tl.shape or np.any(np.abs(tl - want_tl) > 1e-4 * (1 + np.abs(want_tl))):
        problems.append(f'{task} train_loss does not mask the dataset PAD id on {described}')
      ctx.count('metric_evaluations', len(detail) - 3)
    if problems and agree_all:
      pass  # behaviour fails although the configuration agrees: still a property failure
    return Outcome(oracle_fail='; '.join(problems[:2]) or None, corr_fail='; '.join(corr[:2]) or None,
                   nontrivial=nontrivial, tags=('labels', task, 'pred=' + case['pred']),
                   key=f'C20/labels/{task}', detail=detail or None)

  # ---- train losses follow the dataset's conventions --------------------------------------------
  def _task(self, name):
    """fedjax.training.tasks.get_task(name) with the download functions stubbed by in-memory clients."""
    k = ('task', name)
    if k in self._models:
      return self._models[k]
    import fedjax
    from fedjax import datasets
    from fedjax.training import tasks as tasks_mod

    def obj(l):
      a = np.empty([len(l)], dtype=object)
      for i, v in enumerate(l):
        a[i] = v
      return a

    rs = np.random.RandomState(11)
    raw = {
        'emnist': {b'0123456789abcdef:f2100_07': {'pixels': rs.rand(3, 28, 28).astype(np.float32),
                                                  'label': np.array([1, 61, 0], np.int32)},
                   b'0123456789abcdef:f3000_01': {'pixels': rs.rand(4, 28, 28).astype(np.float32),
                                                  'label': np.array([7, 7, 33, 10], np.int32)}},
        'shakespeare': {b'c0': {'snippets': obj([b'To be\r\n' * 12, b'', b'or not \x00 to be, that is the question 9' * 3])},
                        b'c1': {'snippets': obj([b'a'])}},
        'stackoverflow': {b'c0': {'tokens': obj([b'w0 zzz w1', b'w1', b' '.join([b'w0'] * 25)]),
                                  'type': obj([b'question', b'answer', b'answer'])},
                          b'c1': {'tokens': obj([b'w2 w2 zzz zzz w1 w0 w0', b'zzz']), 'type': obj([b'answer', b'question'])}},
        'cifar100': {b'c0': {'image': rs.randint(0, 256, size=(3, 32, 32, 3)).astype(np.uint8),
                             'label': np.array([5, 99, 0], np.int64), 'coarse_label': np.array([1, 2, 3], np.int64)}},
    }
    saved = {n: getattr(datasets, n).load_split for n in raw}
    saved_vocab = datasets.stackoverflow.default_vocab
    try:
      for n in raw:
        getattr(datasets, n).load_split = (lambda nn: (lambda *a, **kw: fedjax.InMemoryFederatedData(raw[nn])))(n)
      datasets.stackoverflow.default_vocab = lambda n: ['w0', 'w1', 'w2']
      train, test, model = tasks_mod.get_task(name)
    finally:
      for n in raw:
        getattr(datasets, n).load_split = saved[n]
      datasets.stackoverflow.default_vocab = saved_vocab
    self._models[k] = (train, test, model)
    return self._models[k]

  @staticmethod
  def _ce(logits, y):
    lg = np.asarray(logits, np.float64)
    mx = lg.max(-1, keepdims=True)
    lse = (mx + np.log(np.exp(lg - mx).sum(-1, keepdims=True)))[..., 0]
    return lse - np.take_along_axis(lg, np.asarray(y)[..., None].astype(np.int64), -1)[..., 0]

  def _loss_checks(self, model, batch, V, rs, where, problems, ctx, pad=None, reduce=None, scale=None, lean=None,
                   corr=None):
    """reference equality, PAD-position invariance, all-PAD rows, row independence of model.train_loss."""
    jnp = self.jnp
    y = np.asarray(batch['y'])
    B = y.shape[0]
    jb = {k: jnp.asarray(v) for k, v in batch.items()}

    def loss(lg, b=jb):
      return np.asarray(model.train_loss(b, jnp.asarray(lg)), np.float64)

    def close(u, v):
      return u.shape == v.shape and bool(np.all(np.abs(u - v) <= 1e-4 * (1 + np.abs(v))))

    logits = (3 * rs.normal(size=y.shape + (V,))).astype(np.float32)
    try:
      got = loss(logits)
    except Exception as e:  # pylint: disable=broad-except
      problems.append(f'{where}: train_loss raises {exc_enum(e)}: {str(e)[:120]}')
      return None
    if got.shape != (B,):
      problems.append(f'{where}: train_loss has shape {got.shape} for a batch of {B}')
      return None
    ce = self._ce(logits, y)
    if pad is None:
      masked = ce
    else:
      nonpad = y != pad
      masked = (ce * nonpad).mean(-1) if reduce == 'mean' else (ce * nonpad).sum(-1)
    if scale is not None:
      want = masked * scale
      if not close(got, want):
        problems.append(f'{where}: train_loss = {got.round(5).tolist()} on targets {y.tolist()}; the reference that '
                        f'ignores PAD={pad} positions gives {want.round(5).tolist()}')
    else:
      # unknown constant factor (task configuration): rows must be proportional to the masked sum
      nz = np.abs(masked) > 1e-9
      ratios = got[nz] / masked[nz]
      if nz.any() and (np.any(ratios <= 0) or np.any(np.abs(ratios - ratios[0]) > 1e-4 * abs(ratios[0]))):
        problems.append(f'{where}: train_loss {got.round(5).tolist()} is not a constant multiple of the PAD-masked '
                        f'cross-entropy sums {masked.round(5).tolist()} (targets {y.tolist()})')
      if np.any(np.abs(got[~nz]) > 1e-6):
        problems.append(f'{where}: train_loss {got.round(5).tolist()} is non-zero on rows without any non-PAD target')
    if lean is not None and corr is not None and pad is not None:
      # the exact Lean reduction (Model/Loss.lean) on the per-token cross entropies of the oracle
      kind, el = lean
      rows = [[[int(t) for t in y[r]], [float(c) for c in ce[r]]] for r in range(B)]
      a = ctx.drv.ask([line('c20.loss', kind, pad, el, rows)])[0]
      if not isinstance(a, list) or len(a) != B:
        corr.append(f'{where}: loss model answers {str(a)[:60]}')
      else:
        m = np.array([float(v) for v in a])
        if not close(got, m):
          corr.append(f'{where}: train_loss {got.round(5).tolist()} vs Lean reduction {m.round(5).tolist()}')
      ctx.count('loss_model_comparisons')
    if pad is not None:
      ispad = y == pad
      if ispad.any():
        l2 = logits.copy()
        l2[ispad] = (7 * rs.normal(size=(int(ispad.sum()), V)) + 5).astype(np.float32)
        got2 = loss(l2)
        if not close(got2, got):
          problems.append(f'{where}: train_loss changes from {got.round(5).tolist()} to {got2.round(5).tolist()} when only '
                          f'the predictions at PAD target positions change (targets {y.tolist()})')
        ctx.count('loss_pad_invariance_checks')
      allpad = ispad.reshape(B, -1).all(-1)
      if allpad.any() and np.any(np.abs(got[allpad]) > 1e-6):
        problems.append(f'{where}: train_loss {got.round(5).tolist()} is non-zero on all-PAD rows {np.where(allpad)[0].tolist()}')
    # row independence: reverse the rows; replace all rows but one
    if B > 1:
      rev = {k: jnp.asarray(np.asarray(v)[::-1].copy()) for k, v in batch.items()}
      got3 = loss(logits[::-1].copy(), rev)[::-1]
      if not close(got3, got):
        problems.append(f'{where}: train_loss of a row depends on its position in the batch')
      r = int(rs.randint(B))
      l4 = (3 * rs.normal(size=logits.shape)).astype(np.float32)
      l4[r] = logits[r]
      b4 = {k: np.asarray(v).copy() for k, v in batch.items()}
      for k in b4:
        b4[k][np.arange(B) != r] = np.roll(np.asarray(batch[k]), 1, axis=0)[np.arange(B) != r] if B > 2 else b4[k][np.arange(B) != r]
      got4 = loss(l4, {k: jnp.asarray(v) for k, v in b4.items()})
      if abs(got4[r] - got[r]) > 1e-4 * (1 + abs(got[r])):
        problems.append(f'{where}: train_loss of row {r} changes when the other rows (targets and predictions) are replaced')
    ctx.count('loss_checks')
    return got

  def _eval_loss(self, case, ctx):
    what = case['what']
    rs = np.random.RandomState(case['seed'])
    problems, corr = [], []
    MP = 4

    def padrows(a):
      a = np.asarray(a)
      n = max(MP - a.shape[0], 0)
      return np.concatenate([a, np.zeros((n,) + a.shape[1:], a.dtype)], axis=0)

    tags = ['loss', what]
    if what == 'so':
      nv, L, el = case['nv'], case['L'], case['el']
      toks = np.empty([len(case['sents'])], dtype=object)
      for i, t in enumerate(case['sents']):
        toks[i] = t.encode()
      out = self._so_preprocess(nv, L)({'tokens': toks})
      batch = {'x': padrows(out['x']), 'y': padrows(out['y'])}
      model, _ = self._model('stackoverflow_lstm', vocab_size=nv, expected_length=el)
      where = (f'stackoverflow create_lstm_model(vocab_size={nv}, expected_length={el}) on the tokeniser output of '
               f'{case["sents"]!r} (max_length {L}, batch padded to {MP} rows)')
      self._loss_checks(model, batch, nv + 4, rs, where, problems, ctx, pad=int(self._tokenizer(nv).PAD),
                        reduce='sum', scale=1.0 if el is None else 1.0 / el, lean=('so', el), corr=corr)
      tags.append('expected_length=' + ('none' if el is None else 'set'))
    elif what == 'shk':
      snips = [bytes.fromhex(t) for t in case['snips']]
      st, out = self._run_shk(snips, case['L'])
      if st != 'ok':
        return Outcome(oracle_fail=f'preprocess_client raised {out}', key='C20/shakespeare/tokeniser', tags=tuple(tags))
      batch = {'x': padrows(out['x']), 'y': padrows(out['y'])}
      model, _ = self._model('shakespeare_lstm')
      where = f'shakespeare create_lstm_model on the tokeniser output of {snips!r} (sequence_length {case["L"]})'
      self._loss_checks(model, batch, int(self.shk.VOCAB_SIZE), rs, where, problems, ctx, pad=int(self.shk.PAD),
                        reduce='mean', scale=1.0, lean=('shk', None), corr=corr)
    elif what == 'cls':
      name = case['model']
      model, params = self._model(name)
      batch = {k: np.asarray(v) for k, v in self._row_batch(name, rs, MP, 2).items()}
      V = int(np.asarray(model.apply_for_eval(params, batch)).shape[-1])
      self._loss_checks(model, batch, V, rs, f'{name} on a batch of its packaged preprocessing', problems, ctx, scale=1.0)
      tags.append(name)
    else:
      name = case['task']
      try:
        train, test, model = self._task(name)
      except Exception as e:  # pylint: disable=broad-except
        # the task cannot be built offline through the stubbed public loaders (load_split / default_vocab):
        # an environment limit of this harness, not a statement of the property
        ctx.count(f'skipped:task {name} not buildable offline ({exc_enum(e)})')
        return Outcome(nontrivial=False, tags=tuple(tags + [name, 'skipped']), key=f'C20/loss/task/{name}')
      data = train if case['seed'] % 2 == 0 else test
      cids = sorted(data.client_ids())
      cid = cids[case['seed'] % len(cids)]
      batch = {k: np.asarray(v) for k, v in next(iter(data.get_client(cid).padded_batch(batch_size=MP))).items()}
      where = f'fedjax.training.tasks {name} model on a padded batch of synthetic client {cid!r}'
      lms = [m.logits_mask for m in model.eval_metrics.values() if getattr(m, 'logits_mask', None) is not None]
      if batch['y'].ndim == 2:
        pad = int(self.shk.PAD) if 'SHAKESPEARE' in name else int(self.so.DefaultWordTokenizer.PAD)
        V = len(lms[0]) if lms else int(batch['y'].max()) + 1
        if int(batch['y'].max()) >= V:
          problems.append(f'{where}: the pipeline emits label {int(batch["y"].max())}, the model has {V} outputs')
        else:
          self._loss_checks(model, batch, V, rs, where, problems, ctx, pad=pad,
                            reduce='mean' if 'SHAKESPEARE' in name else 'sum',
                            scale=1.0 if 'SHAKESPEARE' in name else None,
                            lean=('shk', None) if 'SHAKESPEARE' in name else None, corr=corr)
      else:
        try:
          params = self._models.setdefault(('task-params', name), model.init(self.jax.random.PRNGKey(3)))
          V = int(np.asarray(model.apply_for_eval(params, batch)).shape[-1])
        except Exception as e:  # pylint: disable=broad-except
          problems.append(f'{where}: the model raises {exc_enum(e)} on the pipeline\'s batch: {str(e)[:120]}')
          V = None
        if V is not None:
          if int(batch['y'].max()) >= V:
            problems.append(f'{where}: label {int(batch["y"].max())} but {V} classes')
          else:
            self._loss_checks(model, batch, V, rs, where, problems, ctx, scale=1.0)
      tags.append(name)
    return Outcome(oracle_fail='; '.join(problems[:2]) or None, corr_fail='; '.join(corr[:2]) or None, tags=tuple(tags),
                   key='C20/loss/' + (case.get('task') or case.get('model') or what))

  # ---- StackOverflow tokeniser: one tokenizer, several preprocessors ---------------------------
  def _eval_so_tok(self, case, ctx):
    import shutil
    import tempfile
    so, tf, jnp, metrics = self.so, self.tf, self.jnp, self.metrics
    nv, lengths, ops, via = case['nv'], case['lengths'], case['ops'], case['via']
    sents = [t.encode() for t in case['sents']]
    N = len(sents)
    vocab = ['w%d' % i for i in range(nv)]
    PAD, BOS, EOS, OOV, V = 0, 1, 2, nv + 3, nv + 4
    problems, corr = [], []
    toks = np.empty([N], dtype=object)
    for i, t in enumerate(sents):
      toks[i] = t
    dom = np.arange(N, dtype=np.int32) % 2

    # independent reference tokenisation (documented layout); look-up results go to the Lean model
    looked = [[(vocab.index(w) if w in vocab else None) for w in t.decode().split(' ')] for t in sents]

    def reference(L):
      xs, ys = [], []
      for ws in looked:
        ids = [BOS] + [(OOV if i is None else i + 3) for i in ws] + [EOS]
        x, y = ids[:-1][:L], ids[1:][:L]
        xs.append(x + [PAD] * (L - len(x)))
        ys.append(y + [PAD] * (L - len(y)))
      return np.array(xs, np.int32).reshape(N, L), np.array(ys, np.int32).reshape(N, L)

    tok = so.StackoverflowTokenizer(vocab=vocab)   # ONE tokenizer for all preprocessors of the case
    if (tok.PAD, tok.BOS, tok.EOS) != (PAD, BOS, EOS):
      problems.append('tokenizer PAD/BOS/EOS are not 0/1/2')
    tmp, fd = None, None
    made = {}
    model, _ = self._model('stackoverflow_lstm', vocab_size=nv)
    lines, pending = [], []
    try:
      if via == 'sqlite':
        from fedjax.core import sqlite_federated_data as sfd
        tmp = tempfile.mkdtemp(prefix='c20so')
        path = tmp + '/so.sqlite'
        with sfd.SQLiteFederatedDataBuilder(path) as b:
          b.add_many([(b'c0', {'tokens': toks, 'type': np.array([b'answer' if d else b'question' for d in dom],
                                                                dtype=object)})])
        fd = sfd.SQLiteFederatedData.new(path).preprocess_client(so.preprocess_client)
      for step, (o, i) in enumerate(ops):
        L = lengths[i]
        if o == 'c':
          if via == 'direct':
            made[i] = tok.as_preprocess_batch(L)
          elif via == 'token_fn':
            made[i] = tok.create_token_to_ids_fn(L)
          else:
            made[i] = fd.preprocess_batch(tok.as_preprocess_batch(L))
          continue
        where = f'preprocessor #{i} (max_length={L}) of one tokenizer, step {step} of {ops}, via {via}'
        try:
          if via == 'direct':
            out = made[i]({'tokens': toks, 'domain_id': dom})
            gx, gy, gd = np.asarray(out['x']), np.asarray(out['y']), out.get('domain_id')
          elif via == 'token_fn':
            tx, ty = made[i](tf.constant([t for t in sents], dtype=tf.string))
            gx, gy, gd = tx.numpy(), ty.numpy(), dom
          else:
            out = made[i].get_client(b'c0').all_examples()
            gx, gy, gd = np.asarray(out['x']), np.asarray(out['y']), out.get('domain_id')
        except Exception as e:  # pylint: disable=broad-except
          problems.append(f'{where}: raises {exc_enum(e)}: {str(e)[:120]}')
          continue
        rx, ry = reference(L)
        if gx.shape != (N, L) or gy.shape != (N, L):
          problems.append(f'{where}: x has shape {gx.shape}, y {gy.shape}; its own max_length demands {(N, L)}')
        elif gx.dtype != np.int32 or gy.dtype != np.int32:
          problems.append(f'{where}: dtypes {gx.dtype}/{gy.dtype}')
        elif not (np.array_equal(gx, rx) and np.array_equal(gy, ry)):
          problems.append(f'{where}: sentences {sents!r} give x={gx.tolist()} y={gy.tolist()}; the BOS/words/EOS/PAD '
                          f'layout is x={rx.tolist()} y={ry.tolist()}')
        else:
          # consequences of the layout, stated separately: shift and range
          for r in range(N):
            n = min(len(looked[r]), L - 1)
            if gy[r, :n].tolist() != gx[r, 1:n + 1].tolist():
              problems.append(f'{where}: y is not x shifted by one in row {r}')
          if gx.size and (min(gx.min(), gy.min()) < 0 or max(gx.max(), gy.max()) >= V):
            problems.append(f'{where}: label outside [0, {V})')
        if gd is None or np.asarray(gd).tolist() != dom.tolist():
          problems.append(f'{where}: domain_id not passed through')
        # the packaged model's metrics on this output vs the same quantities of the reference labels
        if gy.ndim == 2 and gy.shape[0] == N and N > 0 and gy.shape[1] > 0:
          nonpad = ry != PAD
          nonempty = nonpad.any(-1)
          want = {'num_tokens': float(nonpad.sum()),
                  'truncation_rate': safe_div((nonempty & ~(ry == EOS).any(-1)).sum(), nonempty.sum()),
                  'token_oov_rate': safe_div(((ry == OOV) & nonpad).sum(), nonpad.sum())}
          MP = 4
          pad_rows = lambda a: np.concatenate([a, np.zeros((MP - N,) + a.shape[1:], a.dtype)], axis=0)
          jb = {'x': jnp.asarray(pad_rows(gx)), 'y': jnp.asarray(pad_rows(gy))}
          jl = jnp.zeros((MP, gy.shape[1], V), jnp.float32)
          for name in sorted(want):
            if name not in model.eval_metrics:
              continue
            try:
              got = float(metrics.evaluate_batch(model.eval_metrics[name], jb, jl, jnp.arange(MP) < N).result())
            except Exception as e:  # pylint: disable=broad-except
              problems.append(f'{where}: model metric {name} raises {exc_enum(e)}')
              continue
            if abs(got - want[name]) > 1e-5 * (1 + abs(want[name])):
              problems.append(f'{where}: the packaged model sees {name} = {got:.6g}; the reference labels for '
                              f'max_length={L} give {want[name]:.6g}')
            ctx.count('so_metric_evaluations')
        lines.append(line('c20.so', nv, L, looked))
        pending.append((where, gx, gy))
        ctx.count('so_preprocessor_uses')
    finally:
      if tmp:
        shutil.rmtree(tmp, ignore_errors=True)
    for (where, gx, gy), a in zip(pending, ctx.drv.ask(lines)):
      if not isinstance(a, list) or a != [gx.tolist(), gy.tolist()]:
        corr.append(f'{where}: tokeniser model {str(a)[:160]} vs impl {str([gx.tolist(), gy.tolist()])[:160]}')
    order = ''.join(o for o, _ in ops)
    pattern = 'create-use' if 'cc' not in order else 'created-before-first-use'
    trunc = any(len(ws) + 1 > L for ws in looked for L in lengths)
    return Outcome(oracle_fail='; '.join(problems[:3]) or None, corr_fail='; '.join(corr[:2]) or None,
                   nontrivial=len(set(lengths)) > 1 and N > 0,
                   tags=('so_tok', 'via=' + via, pattern, 'truncating' if trunc else 'no-truncation'),
                   key='C20/stackoverflow/tokeniser')

  # ---- row independence (monitor) ------------------------------------------------------------
  def _row_batch(self, name, rs, B, L):
    if name.startswith('emnist'):
      ex = {'pixels': rs.rand(B, 28, 28).astype(np.float32), 'label': rs.randint(0, 62, size=B).astype(np.int32)}
      ex = self.emnist.preprocess_client(b'f2100_00', ex)
      return self.emnist.preprocess_batch(ex)
    if name == 'cifar100_logistic':
      raw = {'image': rs.randint(0, 256, size=(B, 32, 32, 3)).astype(np.uint8),
             'label': rs.randint(0, 100, size=B).astype(np.int64), 'coarse_label': np.zeros(B, np.int64)}
      return self.cifar100.preprocess_batch_tff(self.cifar100.preprocess_client(b'c', raw))
    if name == 'shakespeare_lstm':
      # B rows of exactly L labels each: one snippet of B*L - 1 bytes
      s = bytes(rs.choice(list(b'abc xyz.\r9\x00'), size=B * L - 1).tolist())
      st, out = self._run_shk([s], L)
      return {'x': out['x'][:B], 'y': out['y'][:B]}
    nv = 5
    toks = np.empty([B], dtype=object)
    for i in range(B):
      toks[i] = ' '.join(rs.choice(['w0', 'w1', 'w2', 'w3', 'w4', 'zz'], size=rs.randint(1, L + 2)).tolist()).encode()
    return self._so_preprocess(nv, L)({'tokens': toks})

  def _eval_rowindep(self, case, ctx):
    jnp, metrics, jax = self.jnp, self.metrics, self.jax
    name, B, L = case['model'], case['B'], case['L']
    r = min(case['row'], B - 1)
    rs = np.random.RandomState(case['seed'])
    if name == 'stackoverflow_lstm':
      model, params = self._model('stackoverflow_lstm', vocab_size=5)
    elif name == 'stackoverflow_lstm_shared':
      model, params = self._model('stackoverflow_lstm', vocab_size=5, share_input_output_embeddings=True)
    else:
      model, params = self._model(name)
    bname = 'stackoverflow' if name.startswith('stackoverflow') else name
    a = self._row_batch(bname, rs, B, L)
    o = self._row_batch(bname, rs, B, L)
    a = {k: np.asarray(v) for k, v in a.items()}
    o = {k: np.asarray(v) for k, v in o.items()}
    if any(a[k].shape != o[k].shape for k in a):
      return Outcome(tags=('rowindep', 'skipped'), nontrivial=False)
    # same position, all other rows replaced
    b = {k: o[k].copy() for k in a}
    for k in a:
      b[k][r] = a[k][r]
    # alone, and at another position of a batch of another size
    c = {k: a[k][r:r + 1] for k in a}
    d = {k: np.concatenate([o[k][:1], o[k][:1], a[k][r:r + 1], o[k]], axis=0) for k in a}
    problems = []

    def close(u, v):
      u, v = np.asarray(u, np.float64), np.asarray(v, np.float64)
      return u.shape == v.shape and bool(np.all(np.abs(u - v) <= 1e-4 * (1 + np.abs(v))))

    try:
      self._rowindep_checks(model, params, name, a, b, c, d, r, B, case, problems, close)
    except core.InfraError:
      raise
    except Exception as e:  # pylint: disable=broad-except
      problems.append(f'{name}: raises {exc_enum(e)} on a batch produced by its packaged preprocessing: {str(e)[:160]}')
    ctx.count('rowindep_checks')
    return Outcome(oracle_fail='; '.join(problems[:3]) or None, tags=('rowindep', name), key=f'C20/rowindep/{name}')

  def _rowindep_checks(self, model, params, name, a, b, c, d, r, B, case, problems, close):
    jnp, metrics, jax = self.jnp, self.metrics, self.jax
    pa = np.asarray(model.apply_for_eval(params, a))
    if pa.shape[0] != B:
      problems.append(f'{name}: prediction has {pa.shape[0]} rows for a batch of {B}')
    else:
      for lab, bb, pos in (('other rows replaced', b, r), ('row alone', c, 0), ('other batch size/position', d, 2)):
        pb = np.asarray(model.apply_for_eval(params, bb))
        if not close(pb[pos], pa[r]):
          problems.append(f'{name}: eval prediction of row {r} changes when {lab} '
                          f'(max diff {float(np.abs(pb[pos] - pa[r]).max()):.3g})')
          continue
        ta = np.asarray(model.train_loss({k: jnp.asarray(v) for k, v in a.items()}, jnp.asarray(pa)))
        tb = np.asarray(model.train_loss({k: jnp.asarray(v) for k, v in bb.items()}, jnp.asarray(pb)))
        if not close(tb[pos], ta[r]):
          problems.append(f'{name}: train_loss of row {r} changes when {lab}')
        for mname in (sorted(model.eval_metrics) if bb is b else ()):
          ma = jnp.arange(B) == r
          mb = jnp.arange(pb.shape[0]) == pos
          sa = metrics.evaluate_batch(model.eval_metrics[mname], {k: jnp.asarray(v) for k, v in a.items()}, jnp.asarray(pa), ma)
          sb = metrics.evaluate_batch(model.eval_metrics[mname], {k: jnp.asarray(v) for k, v in bb.items()}, jnp.asarray(pb), mb)
          if not close(sb.result(), sa.result()):
            problems.append(f'{name}: metric {mname} of row {r} changes when {lab}')
      # training mode: same position, same rng, other rows replaced
      key = jax.random.PRNGKey(case['seed'] % 1000)
      ta_ = np.asarray(model.apply_for_train(params, a, key))
      tb_ = np.asarray(model.apply_for_train(params, b, key))
      if not close(tb_[r], ta_[r]):
        problems.append(f'{name}: training-mode prediction of row {r} changes when the other rows are replaced')

  def extra_coverage(self, ctx):
    return {'exhaustive': {'emnist': 'every n in 0..9999 x both id formats (random hash/suffix)',
                           'cifar (thorough)': 'every crop size pair 1..32 x 1..32',
                           'shakespeare (thorough)': '<=3 snippets of length <=3, L in 2..5'},
            'stackoverflow tokeniser': 'one tokenizer, 1..3 preprocessors with different max_length, create/use '
                                       'interleavings (create-use, all-created-first, reordered, random), direct / '
                                       'raw tf.function / lazy SQLite-backed FederatedData',
            'train losses': 'all fedjax.training.tasks configurations (downloads stubbed), StackOverflow with '
                            'expected_length in {None, 0.5, 1, 2.5, 13.3, 20}, Shakespeare, classifiers: reference, '
                            'PAD-position invariance, all-PAD rows, row independence',
            'partial': 'row independence monitored by metamorphic tests only; label agreement = decidable '
                       'configuration predicate + behavioural oracle'}


PROPERTY = C20
