"""C09 — an interrupted experiment resumes to the uninterrupted result.

Real code: fedjax.training.federated_experiment.run_federated_experiment + training/checkpoint.py +
core/serialization.py save_state/load_state, run on a real temp directory with a toy round-deterministic
algorithm and the real UniformGetClientSampler.  `tf.io.gfile.GFile/rename/remove/glob`, the sampler,
the algorithm, the evaluation functions and `Logger.log` (TensorBoard is absent from the sandbox: an
environment limit, stubbed) are wrapped so that every file-system effect and every step is a numbered
crash point; a write can be cut after any byte prefix.

For a configuration the harness enumerates every single crash point (and sampled sequences of
crashes), compares the directory listing after each crash with the Lean model (`Model/Experiment.lean`,
stutter-equivalent traces / membership), re-runs the same call and compares the returned state, the
`.tsv` output and the final listing with the model.  The independent oracle states the property on the
real outputs: the re-run completes, returns the state of a never-interrupted run and writes the same
final-evaluation output; every visible `checkpoint_<8 digits>` unpickles to the state of that round;
`load_latest_checkpoint` returns the numerically newest; every completed `save_checkpoint` leaves
exactly the newest `keep`.
"""
import collections
import json
import os
import pickle
import re
import shutil
import subprocess
import sys
import tempfile

import numpy as np

from vlib import core
from vlib.core import Outcome, line
from vlib.crash import Crash, InjectedIOError, Injector, WFile, hard_points, is_under, mkdtemp, prefixes

CKPT_RE = re.compile(r'^checkpoint_[0-9]{8}$')
JUNK = {'checkpoint_123': b'junk', 'checkpoint_000000099': b'\x80\x04junk', 'checkpoint_0000000a': b'',
        'xcheckpoint_00000077': b'junk', 'notes.txt': b'hello'}
KIND_ORDER = {'ckpt': 0, 'tmp': 1, 'tsv': 2}
NUM_CLIENTS = 3
FS_KINDS = ('open', 'write', 'rename', 'remove')


def dedup(seq):
  out = []
  for x in seq:
    if not out or out[-1] != x:
      out.append(x)
  return out


def canon(listing):
  return sorted([list(e) for e in listing], key=lambda e: (KIND_ORDER.get(e[0], 9), e[1]))


def obs(listing):
  """Observation function of the experiment directory — what C09 fixes and nothing below it:
  the files under FINAL checkpoint names (checkpoint_<8 digits>: complete? which state?) and the COMPLETE
  final-evaluation outputs under their final names (<name>.tsv).  Temp files of any name, a `.tsv` that is
  still being written (in place or under a staging name), left-over partial files and the order of the
  file-system effects are the implementation's freedom (kept as diagnostics only)."""
  return canon([e for e in listing if e[0] == 'ckpt' or (e[0] == 'tsv' and len(e) > 2 and e[2] == 'out')])


def newest(listing):
  """round of the numerically newest visible checkpoint (what a re-run resumes from), None if there is none"""
  rs = [e[1] for e in listing if e[0] == 'ckpt']
  return max(rs) if rs else None


def frac_of(c, n):
  """smallest per-10000 fraction that maps back to index c among n+1 crash points."""
  f = -(-c * 10001 // (n + 1))
  while (f * (n + 1)) // 10001 < c:
    f += 1
  return f


class C09(core.Property):
  ID = 'C09'
  RULE = ('cases = experiment configuration (num_rounds, checkpoint_frequency, num_checkpoints_to_keep >= 1, '
          'eval_frequency, number of final evaluation functions, periodic evaluation on/off, state size, junk files '
          'with near-miss checkpoint names, server state = dict | bare numpy/jax vector | bare Python / 0-d counter that '
          'is exactly 0 at a chosen round) x either the exhaustive enumeration of every single crash point '
          '(event index x byte prefix of each write) or a sampled sequence of 1-3 crashes; every crash is followed by '
          'a completed re-run; non-trivial = the configuration checkpoints and at least one crash happened after the '
          'first file-system effect; distinct by case digest')
  TRUSTED = ['POSIX rename atomicity (tf.io.gfile.rename); pickle round-trip of the state; tf.io.gfile semantics',
             'crashes are simulated by unwinding the call with a BaseException after flushing a byte prefix (every '
             'on-disk state a real crash can leave is such a prefix state); the thorough tier additionally kills a '
             'real subprocess with os._exit at sampled crash points',
             'TensorBoard is missing from the sandbox: Logger.log is replaced by a recording stub']
  ASSUMPTIONS = ['the algorithm is round-deterministic and the sampler is a pure function of the round number '
                 '(C13); the toy algorithm used here is; keep >= 1',
                 'the experiment directory is only modified by the experiment itself']
  QUICK_BUDGET_S = 150
  THOROUGH_BUDGET_S = 700

  # ------------------------------------------------------------------------------------------
  def setup(self, ctx):
    from fedjax.core import client_samplers, federated_algorithm, in_memory_federated_data
    from fedjax.training import checkpoint, federated_experiment
    from fedjax.training import logging as fj_logging
    from fedjax.core import serialization, util
    if not os.path.abspath(federated_experiment.__file__).startswith(os.path.abspath(core.REPO)):
      raise core.InfraError(f'fedjax imported from {federated_experiment.__file__}, expected {core.REPO}')
    self.fx, self.ckpt, self.ser, self.fjlog = federated_experiment, checkpoint, serialization, fj_logging
    self.samplers, self.fa = client_samplers, federated_algorithm
    self.tf = util.import_tf()
    self.gfile = self.tf.io.gfile
    self.fd = in_memory_federated_data.InMemoryFederatedData(
        {f'c{i:02d}'.encode(): {'x': np.arange(i % 3 + 1, dtype=np.int32)} for i in range(12)})
    self.cur = None          # current injector
    self._worlds = {}
    prop = self

    class CountingSampler(client_samplers.ClientSampler):

      def __init__(self, inner):
        self._inner = inner

      def sample(self):
        prop.cur.event('step', 'sample')
        return self._inner.sample()

      def set_round_num(self, round_num):
        return self._inner.set_round_num(round_num)

    class RoundSampler(client_samplers.ClientSampler):
      """A cheap round-indexed sampler (pure function of (seed, round)); the real
      UniformGetClientSampler is used in the other cases."""

      def __init__(self, fd, seed):
        self._fd, self._seed, self._round_num = fd, seed, 0

      def sample(self):
        ids = prop.cheap_ids(self._seed, self._round_num)
        key = np.array([0, self._round_num], dtype=np.uint32)
        clients = [(cid, ds, key) for cid, ds in self._fd.get_clients(ids)]
        self._round_num += 1
        return clients

      def set_round_num(self, round_num):
        self._round_num = round_num

    self.RoundSampler = RoundSampler

    class FinalEval(federated_experiment.EvaluationFn):

      def __init__(self, e):
        self._e = e

      def __call__(self, state, round_num):
        prop.cur.event('step', f'final_eval{self._e}')
        return collections.OrderedDict([
            ('eval', self._e), ('hist', prop.hist_str(state)), ('vecsum', prop.vecsum(state)),
            ('round', int(round_num)), ('zz_end', 'END')])

    class PeriodicEval(federated_experiment.EvaluationFn):

      def __call__(self, state, round_num):
        prop.cur.event('step', 'periodic_eval')
        return {'n': len(prop.hist_str(state)), 'round': round_num}

    class TrainEval(federated_experiment.TrainClientsEvaluationFn):

      def __call__(self, state, round_num, train_clients):
        prop.cur.event('step', 'train_eval')
        return {'k': len(train_clients)}

    self.CountingSampler, self.FinalEval, self.PeriodicEval, self.TrainEval = (
        CountingSampler, FinalEval, PeriodicEval, TrainEval)

  # ------------------------------------------------------------------------------------------
  # the toy algorithm and its independent reference
  # The server state is an arbitrary pytree for run_federated_experiment.  Kinds used here:
  #   dict    {'vec': int vector, 'hist': tuple of sampled-client tuples}   (records which rounds were applied)
  #   array   a bare numpy vector        jax     a bare jax vector
  #   scalar  a bare Python int counter  zerod   a bare 0-d numpy array
  # (the counters start at cfg['zero_at'] and lose 1 per round: exactly 0 after round `zero_at`)
  @staticmethod
  def is_bare(state):
    return not isinstance(state, dict)

  @staticmethod
  def hist_str(state):
    if isinstance(state, dict):
      return 'h:' + '|'.join(','.join(c.decode() for c in ids) for ids in state['hist'])
    return 'v:' + '.'.join(str(int(x)) for x in np.asarray(state).ravel())

  @staticmethod
  def vecsum(state):
    return int(np.sum(np.asarray(state['vec'] if isinstance(state, dict) else state)))

  @staticmethod
  def fold(state, ids):
    h = sum((i + 1) * int.from_bytes(c, 'big') for i, c in enumerate(ids)) % 1000003
    if isinstance(state, dict):
      vec = (state['vec'] * 31 + h + np.arange(len(state['vec']), dtype=np.int64)) % 1000003
      return {'vec': vec, 'hist': state['hist'] + (tuple(ids),)}
    if isinstance(state, (int, np.integer)) and not isinstance(state, bool):
      return int(state) - 1
    arr = np.asarray(state)
    if arr.ndim == 0:
      return np.array(int(arr) - 1, dtype=arr.dtype)
    new = ((arr.astype(np.int64) * 31 + h + np.arange(arr.shape[0], dtype=np.int64)) % 1000003).astype(arr.dtype)
    if isinstance(state, np.ndarray):
      return new
    import jax.numpy as jnp
    return jnp.asarray(new)

  @staticmethod
  def ids_ext(clients):
    """sampled client ids + a fingerprint of the first client's rng (unique per round)."""
    ids = tuple(c for c, _, _ in clients)
    key = np.asarray(clients[0][2]).ravel() if clients else []
    return ids + (('k' + '.'.join(str(int(x)) for x in key)).encode(),)

  @staticmethod
  def init_state(cfg):
    kind, vec = cfg.get('state', 'dict'), cfg['vec']
    if kind == 'dict':
      return {'vec': np.arange(vec, dtype=np.int64) % 7, 'hist': ()}
    if kind == 'array':
      return np.arange(max(vec, 2), dtype=np.int64) % 7
    if kind == 'jax':
      import jax.numpy as jnp
      return jnp.asarray(np.arange(max(vec, 2), dtype=np.int32) % 7)
    if kind == 'scalar':
      return int(cfg.get('zero_at', 1))
    if kind == 'zerod':
      return np.array(int(cfg.get('zero_at', 1)), dtype=np.int64)
    raise ValueError(kind)

  @staticmethod
  def cheap_ids(seed, r):
    import random as _random
    rnd = _random.Random(seed * 1000003 + r)
    return [f'c{i:02d}'.encode() for i in rnd.sample(range(12), NUM_CLIENTS)]

  def world(self, cfg, maxr):
    """Independent reference: clients of round r (fresh sampler), states S[0..maxr]."""
    seed, kind = cfg['seed'], cfg.get('sampler', 'uniform')
    key = (seed, cfg['vec'], kind, cfg.get('state', 'dict'), cfg.get('zero_at', 1))
    w = self._worlds.get(key)
    if w is None or len(w['S']) <= maxr + 1:
      ids_of, S = {}, [self.init_state(cfg)]
      for r in range(1, maxr + 3):
        if kind == 'uniform':
          smp = self.samplers.UniformGetClientSampler(self.fd, NUM_CLIENTS, seed)
        else:
          smp = self.RoundSampler(self.fd, seed)
        smp.set_round_num(r)
        ids = self.ids_ext(smp.sample())
        ids_of[r] = ids
        S.append(self.fold(S[-1], ids))
      id2round = {}
      for r, ids in ids_of.items():
        id2round.setdefault(ids, r)
      sig2round = {}
      for r, st in enumerate(S):
        sig2round.setdefault(self.hist_str(st), r)
      w = {'ids_of': ids_of, 'S': S, 'id2round': id2round, 'sig2round': sig2round,
           'distinct': len(id2round) == len(ids_of) and len(sig2round) == len(S)}
      if len(self._worlds) > 30:
        self._worlds.clear()
      self._worlds[key] = w
    return w

  @staticmethod
  def state_eq(a, b):
    if isinstance(a, dict) or isinstance(b, dict):
      return (isinstance(a, dict) and isinstance(b, dict) and set(a) == set(b) == {'vec', 'hist'} and
              np.array_equal(a['vec'], b['vec']) and np.asarray(a['vec']).dtype == np.asarray(b['vec']).dtype and
              tuple(a['hist']) == tuple(b['hist']))
    try:
      x, y = np.asarray(a), np.asarray(b)
      return x.shape == y.shape and x.dtype.kind == y.dtype.kind and bool(np.array_equal(x, y))
    except Exception:   # pylint: disable=broad-except
      return False

  def rounds_of(self, state, w):
    """the rounds whose clients went into `state` (model state), 0 = not a round of this experiment"""
    if isinstance(state, dict):
      return [w['id2round'].get(tuple(ids), 0) for ids in state['hist']]
    r = w['sig2round'].get(self.hist_str(state))
    return [0] if r is None else list(range(1, r + 1))

  # ------------------------------------------------------------------------------------------
  # patched invocation
  def invoke(self, root, cfg, inj, saves=None):
    """One real call of run_federated_experiment with every effect routed through `inj`.
    Returns ('ok', state) | ('crash', None) | ('raise', 'ExcName: msg')."""
    prop = self
    gfile = self.gfile
    real = {k: getattr(gfile, k) for k in ('GFile', 'glob', 'rename', 'remove')}
    real_log = self.fjlog.Logger.log
    real_save = self.ckpt.save_checkpoint
    RealGFile = real['GFile']

    def GFileW(name, mode='r'):
      base = os.path.basename(os.fspath(name))
      if any(ch in mode for ch in 'wa') and is_under(name, root):
        inj.event('open', base)
        return WFile(RealGFile(name, mode), inj, base, flush_on_write=not getattr(prop, 'no_flush', False))
      if is_under(name, root):
        inj.event('step', 'read ' + base)
      return RealGFile(name, mode)

    def w_glob(pattern, *a, **k):
      inj.event('step', 'glob')
      return real['glob'](pattern, *a, **k)

    def w_rename(src, dst, *a, **k):
      inj.event('rename', (os.path.basename(os.fspath(src)), os.path.basename(os.fspath(dst))))
      return real['rename'](src, dst, *a, **k)

    def w_remove(path, *a, **k):
      inj.event('remove', os.path.basename(os.fspath(path)))
      return real['remove'](path, *a, **k)

    def w_log(self_, *a, **k):
      inj.event('step', 'log')

    def w_save(root_dir, state, round_num=0, keep=1):
      before = prop.visible_rounds(root_dir)
      real_save(root_dir, state, round_num, keep)
      if saves is not None:
        saves.append((before, int(round_num), int(keep), prop.visible_rounds(root_dir)))

    def apply(state, clients):
      inj.event('step', 'apply')
      return prop.fold(state, prop.ids_ext(clients)), None

    algorithm = self.fa.FederatedAlgorithm(init=lambda: None, apply=apply)
    if cfg.get('sampler', 'uniform') == 'uniform':
      sampler = self.CountingSampler(self.samplers.UniformGetClientSampler(self.fd, NUM_CLIENTS, cfg['seed']))
    else:
      sampler = self.CountingSampler(self.RoundSampler(self.fd, cfg['seed']))
    config = self.fx.FederatedExperimentConfig(
        root_dir=root, num_rounds=cfg['R'], checkpoint_frequency=cfg['freq'],
        num_checkpoints_to_keep=cfg['keep'], eval_frequency=cfg['evalFreq'])
    periodic = collections.OrderedDict([('pe', self.PeriodicEval()), ('te', self.TrainEval())]) if cfg.get('periodic') else None
    final = collections.OrderedDict((f'fe{e}', self.FinalEval(e)) for e in range(cfg['nFinal']))
    self.cur = inj
    gfile.GFile, gfile.glob, gfile.rename, gfile.remove = GFileW, w_glob, w_rename, w_remove
    self.fjlog.Logger.log = w_log
    self.ckpt.save_checkpoint = w_save
    try:
      state = self.fx.run_federated_experiment(algorithm, self.init_state(cfg), sampler, config,
                                               periodic, final if final else None)
      return ('ok', state)
    except Crash:
      return ('crash', None)
    except InjectedIOError:
      return ('crash', None)
    except Exception as e:   # pylint: disable=broad-except
      return ('raise', f'{type(e).__name__}: {str(e)[:120]}')
    finally:
      for k, v in real.items():
        setattr(gfile, k, v)
      self.fjlog.Logger.log = real_log
      self.ckpt.save_checkpoint = real_save
      self.cur = None

  @staticmethod
  def visible_rounds(root):
    return sorted(int(fn[-8:]) for fn in os.listdir(root) if CKPT_RE.match(fn))

  # ------------------------------------------------------------------------------------------
  # observation
  def classify_pickle(self, data, w):
    try:
      st = pickle.loads(data)
      if (isinstance(st, dict) and 'hist' in st and 'vec' in st) or (
          not isinstance(st, dict) and self.is_bare(w['S'][0]) and np.asarray(st).dtype.kind in 'iu'):
        return ['full', self.rounds_of(st, w)], st
    except Exception:   # pylint: disable=broad-except
      pass
    return ['part'], None

  def classify_tsv(self, data, w):
    try:
      text = data.decode()
      if text.endswith('END'):
        head, vals = text.split('\n')
        d = dict(zip(head.split('\t'), vals.split('\t')))
        if d['hist'].startswith('v:'):
          r = w['sig2round'].get(d['hist'])
          return ['out', [0] if r is None else list(range(1, r + 1)), int(d['round'])]
        hs = d['hist'][2:]
        hist = [tuple(c.encode() for c in part.split(',')) for part in hs.split('|')] if hs else []
        return ['out', [w['id2round'].get(ids, 0) for ids in hist], int(d['round'])]
    except Exception:   # pylint: disable=broad-except
      pass
    return ['outPart']

  def observe(self, root, w, junk):
    entries, other, states = [], [], {}
    for fn in sorted(os.listdir(root)):
      p = os.path.join(root, fn)
      if fn in junk:
        continue
      if os.path.isdir(p):
        other.append(fn)
        continue
      with open(p, 'rb') as f:
        data = f.read()
      if CKPT_RE.match(fn):
        c, st = self.classify_pickle(data, w)
        entries.append(['ckpt', int(fn[-8:])] + c)
        states[int(fn[-8:])] = (st, len(data))
      elif fn.endswith('.tsv') and re.fullmatch(r'fe[0-9]+\.tsv', fn):
        entries.append(['tsv', int(fn[2:-4])] + self.classify_tsv(data, w))
      else:
        m = re.search(r'[0-9]{8}', fn)
        c, _ = self.classify_pickle(data, w)
        entries.append(['tmp', int(m.group()) if m else 0] + c)
    return canon(entries), other, states

  def read_tsvs(self, root, cfg):
    out = {}
    for e in range(cfg['nFinal']):
      p = os.path.join(root, f'fe{e}.tsv')
      out[e] = open(p, 'rb').read() if os.path.exists(p) else None
    return out

  # ------------------------------------------------------------------------------------------
  # independent oracle pieces
  def oracle_crashed_dir(self, root, cfg, w, junk, states):
    """After a crash: visible checkpoints complete + right state; newest wins; junk untouched."""
    probs = []
    for r, (st, nbytes) in sorted(states.items()):
      if st is None:
        probs.append(('C09/visible-checkpoint-incomplete',
                      f'checkpoint_{r:08d} is visible but is a truncated/unloadable pickle ({nbytes} bytes)'))
      elif r >= len(w['S']) or not self.state_eq(st, w['S'][r]):
        probs.append(('C09/visible-checkpoint-wrong-state', f'checkpoint_{r:08d} does not hold the state after round {r}'))
    if not probs:
      try:
        latest = self.ckpt.load_latest_checkpoint(root)
        if states:
          rmax = max(states)
          if latest is None or latest[1] != rmax or not self.state_eq(latest[0], w['S'][rmax]):
            probs.append(('C09/newest-does-not-win',
                          f'load_latest_checkpoint returned round {None if latest is None else latest[1]}, newest visible is {rmax}'))
        elif latest is not None:
          probs.append(('C09/newest-does-not-win', f'load_latest_checkpoint returned round {latest[1]} from a directory without checkpoints'))
      except Exception as e:   # pylint: disable=broad-except
        probs.append(('C09/visible-checkpoint-not-loadable', f'load_latest_checkpoint raised {type(e).__name__}'))
    for fn, data in junk.items():
      p = os.path.join(root, fn)
      if not os.path.exists(p) or open(p, 'rb').read() != data:
        probs.append(('C09/foreign-file-touched', f'file {fn} (not a checkpoint name) was removed or changed'))
    return probs

  def oracle_saves(self, saves):
    probs = []
    for before, r, keep, after in saves:
      if keep < 1:
        continue
      want = sorted(set(before) | {r})[-keep:]
      if after != want:
        probs.append(('C09/retention', f'save_checkpoint(round {r}, keep {keep}) with {before} visible left {after}, expected {want}'))
    return probs

  def oracle_completed(self, res, root, cfg, w, ref, saves):
    """The re-run after the crashes: completes, same state, same final-evaluation output."""
    probs = []
    if res[0] != 'ok':
      exc = res[1].split(':')[0] if res[1] else 'crash'
      probs.append((f'C09/rerun-dies/{exc}', f're-running the same call raised {res[1]}'))
      return probs
    if not self.state_eq(res[1], ref['state']):
      probs.append(('C09/resumed-state-differs',
                    f're-run returned state after rounds {self.rounds_of(res[1], w)} ({self.hist_str(res[1])[:60]}), '
                    f'uninterrupted run {self.rounds_of(ref["state"], w)}'))
    tsv = self.read_tsvs(root, cfg)
    for e in range(cfg['nFinal']):
      if tsv[e] != ref['tsv'][e]:
        probs.append(('C09/final-eval-output-differs', f'fe{e}.tsv after the re-run {tsv[e]!r} != uninterrupted {ref["tsv"][e]!r}'))
    probs += self.oracle_saves(saves)
    if saves and cfg['keep'] >= 1 and len(self.visible_rounds(root)) > cfg['keep']:
      probs.append(('C09/retention', f'{len(self.visible_rounds(root))} checkpoints after a run that saved, keep={cfg["keep"]}'))
    return probs

  # ------------------------------------------------------------------------------------------
  def gen_cases(self, rng, tier):
    def cfg(R, freq, keep, ev, nf=1, periodic=None, vec=3, seed=0, sampler='uniform', state='dict', zero_at=1):
      c = {'R': R, 'freq': freq, 'keep': keep, 'evalFreq': ev, 'nFinal': nf,
           'periodic': bool(ev) if periodic is None else periodic, 'vec': vec, 'seed': seed, 'sampler': sampler}
      if state != 'dict':
        c['state'] = state          # the server state is a bare array / a bare scalar (any pytree is allowed)
        c['zero_at'] = zero_at      # counters: exactly 0 after this round
      return c
    # restart after a clean finish / defects known from reading, first
    yield {'cfg': cfg(2, 1, 1, 0), 'junk': False, 'enumerate': True}
    yield {'cfg': cfg(3, 2, 2, 1, nf=2), 'junk': True, 'enumerate': True}
    # name ordering across 9 -> 10 (99 -> 100 in the thorough tier) and a multi-frame pickle
    yield {'cfg': cfg(11, 1, 2, 0, seed=1, sampler='cheap'), 'junk': True, 'enumerate': True, 'from': 9}
    yield {'cfg': cfg(2, 1, 1, 0, vec=40000, sampler='cheap'), 'junk': False, 'enumerate': True}
    # server states that are not containers: a bare vector, a bare counter that is exactly 0 at a checkpointed round
    yield {'cfg': cfg(2, 1, 1, 0, sampler='cheap', state='array'), 'junk': False, 'enumerate': True}
    yield {'cfg': cfg(3, 1, 2, 0, sampler='cheap', state='scalar', zero_at=2), 'junk': False, 'enumerate': True}
    yield {'cfg': cfg(3, 2, 1, 0, nf=2, sampler='cheap', state='zerod', zero_at=2), 'junk': False,
           'sched': [[9000, 0, 0], [9900, 0, 2]]}
    yield {'cfg': cfg(2, 1, 1, 0, sampler='cheap', state='jax'), 'junk': False, 'sched': [[6000, 500, 0]]}
    # a real kill and a real restart: two fresh interpreter processes with different hash seeds
    yield {'cfg': cfg(4, 1, 1, 0, sampler='uniform', seed=3), 'junk': False, 'xproc': [5500]}
    if tier == 'thorough':
      yield {'cfg': cfg(5, 2, 2, 1, nf=2, sampler='uniform', seed=1), 'junk': True, 'xproc': [3000, 8000]}
      yield {'cfg': cfg(101, 50, 2, 0, seed=2, sampler='cheap'), 'junk': True, 'enumerate': True, 'from': 99}
      for i in range(6):
        c = self._random_sched(rng, cfg)
        c['hard'] = True
        yield c
    grid = []
    rounds = (0, 1, 3) if tier == 'quick' else range(0, 7)
    evs = (0, 2) if tier == 'quick' else (0, 1, 2)
    for R in rounds:
      for freq in range(0, 4):
        for keep in (1, 2, 3):
          for ev in evs:
            if freq == 0 and keep > 1:
              continue
            if tier == 'quick' and (R + freq + keep) % 2 != (1 if ev else 0):
              continue     # quick: eval_frequency alternates over the grid instead of multiplying it
            grid.append((R, freq, keep, ev))
    rng.shuffle(grid)
    for i, (R, freq, keep, ev) in enumerate(grid):
      yield {'cfg': cfg(R, freq, keep, ev, nf=(i % 3), seed=i % 4, sampler='uniform' if i % 4 == 0 else 'cheap'),
             'junk': i % 5 == 0, 'enumerate': True}
      if i % 3 == 0:
        yield self._random_sched(rng, cfg)
    n = 15 if tier == 'quick' else 250
    for _ in range(n):
      yield self._random_sched(rng, cfg)

  @staticmethod
  def _random_sched(rng, cfg):
    R = rng.choice([1, 2, 3, 4, 5, 6, 10])
    c = cfg(R, rng.choice([1, 1, 2, 3, 4]), rng.choice([1, 1, 2, 3]), rng.choice([0, 1, 2]),
            nf=rng.choice([0, 1, 1, 2]), vec=rng.choice([3, 3, 3, 17000]), seed=rng.randrange(6),
            sampler=rng.choice(['uniform', 'cheap', 'cheap']))
    if rng.random() < 0.25:
      c = cfg(R, c['freq'], c['keep'], c['evalFreq'], nf=c['nFinal'], vec=3, seed=c['seed'], sampler=c['sampler'],
              state=rng.choice(['array', 'scalar', 'zerod', 'scalar']), zero_at=rng.randrange(0, R + 1))
    sched = [[rng.randrange(0, 10001), rng.randrange(0, 1001), rng.choice([0, 0, 0, 1, 2, 3])]
             for _ in range(rng.randrange(1, 4))]
    return {'cfg': c, 'junk': rng.random() < 0.3, 'sched': sched}

  def shrink(self, case):
    cfg = case['cfg']
    if 'xproc' in case:
      if len(case['xproc']) > 1:
        for i in range(len(case['xproc'])):
          yield {**case, 'xproc': case['xproc'][:i] + case['xproc'][i + 1:]}
      return
    if 'enumerate' in case:
      hit = getattr(self, '_last_fail', {}).get(core.case_digest(case))
      if hit and hit[0] == 'hard':
        _, c, f, n = hit
        yield {'cfg': cfg, 'junk': case['junk'], 'sched': [[frac_of(c, n), 0, 2 if f == 0 else 3]]}
        return
      if hit and not case.get('from'):
        c, p, n, m = hit
        pf = 0 if not m else min(1000, -(-p * 1000 // m))
        yield {'cfg': cfg, 'junk': False, 'sched': [[frac_of(c, n), pf, 0]]}
        yield {'cfg': cfg, 'junk': case['junk'], 'sched': [[frac_of(c, n), pf, 0]]}
      return
    if case.get('junk'):
      yield {**case, 'junk': False}
    sched = case['sched']
    if len(sched) > 1:
      for i in range(len(sched)):
        yield {**case, 'sched': sched[:i] + sched[i + 1:]}
    for k, lo in (('vec', 3), ('nFinal', 0), ('evalFreq', 0), ('keep', 1), ('seed', 0)):
      if cfg[k] > lo:
        yield {**case, 'cfg': {**cfg, k: lo, 'periodic': cfg['periodic'] and k != 'evalFreq'}}
    if cfg.get('periodic'):
      yield {**case, 'cfg': {**cfg, 'periodic': False}}
    if cfg['nFinal'] > 1:
      yield {**case, 'cfg': {**cfg, 'nFinal': 1}}
    # fewer rounds: keep the crash at the same relative position (fractions)
    for R in sorted({1, 2, cfg['R'] - 1}):
      if 0 < R < cfg['R']:
        yield {**case, 'cfg': {**cfg, 'R': R}}
    if cfg['freq'] > 1:
      yield {**case, 'cfg': {**cfg, 'freq': 1}}
    for i, st in enumerate(sched):
      if st[2] == 1:
        yield {**case, 'sched': sched[:i] + [[st[0], st[1], 0]] + sched[i + 1:]}
      if st[1] not in (0, 500):
        yield {**case, 'sched': sched[:i] + [[st[0], 500 if st[1] > 500 else 0, st[2]]] + sched[i + 1:]}

  # ------------------------------------------------------------------------------------------
  def model_cfg(self, cfg):
    return [cfg['R'], cfg['freq'], cfg['keep'], cfg['evalFreq'], 1, cfg['nFinal'], 1]

  def fresh_dir(self, base, tag, junk, src=None):
    d = os.path.join(base, tag)
    if os.path.exists(d):
      shutil.rmtree(d)
    if src is not None:
      shutil.copytree(src, d)
    else:
      os.makedirs(d)
      for fn, data in junk.items():
        with open(os.path.join(d, fn), 'wb') as f:
          f.write(data)
    return d

  def reference(self, base, cfg, w, junk):
    d = self.fresh_dir(base, 'ref', junk)
    inj = Injector()
    saves = []
    res = self.invoke(d, cfg, inj, saves)
    return {'res': res, 'state': res[1] if res[0] == 'ok' else None, 'tsv': self.read_tsvs(d, cfg),
            'events': inj.events, 'saves': saves, 'listing': self.observe(d, w, junk)[0]}

  def evaluate(self, case, ctx):
    cfg = case['cfg']
    junk = dict(JUNK) if case.get('junk') else {}
    w = self.world(cfg, max(cfg['R'], 1))
    if not w['distinct']:
      return Outcome(nontrivial=False, tags=('skipped:sampler-collision',))
    base = mkdtemp('verif_c09_')
    try:
      ref = self.reference(base, cfg, w, junk)
      probs, corr = [], []
      if ref['res'][0] != 'ok':
        exc = (ref['res'][1] or 'crash').split(':')[0]
        probs.append((f'C09/uninterrupted-run-dies/{exc}', f'a run that is never interrupted raised {ref["res"][1]}'))
      elif not self.state_eq(ref['state'], w['S'][cfg['R']]):
        probs.append(('C09/uninterrupted-state', 'the uninterrupted run does not return the fold of the sampled clients'))
      else:
        probs += self.oracle_saves(ref['saves'])
      if probs:
        return self._outcome(case, probs, corr, {'reference': str(ref['res'])}, False, ctx)
      if 'xproc' in case:
        return self._cross_process(case, ctx, base, cfg, w, junk, ref)
      if 'enumerate' in case:
        return self._enumerate(case, ctx, base, cfg, w, junk, ref)
      return self._schedule(case, ctx, base, cfg, w, junk, ref)
    finally:
      shutil.rmtree(base, ignore_errors=True)

  def _outcome(self, case, probs, corr, detail, nontrivial, ctx, tags=()):
    cfg = case['cfg']
    key = probs[0][0] if probs else None
    tags = tuple(tags) + (f'R={cfg["R"] if cfg["R"] < 7 else "7+"}', f'freq={cfg["freq"]}', f'keep={cfg["keep"]}',
                          f'evalFreq={cfg["evalFreq"]}', f'nFinal={cfg["nFinal"]}',
                          'enumerate' if 'enumerate' in case else f'sched{len(case.get("sched", []))}')
    return Outcome(oracle_fail='; '.join(t for _, t in probs[:3]) or None, corr_fail='; '.join(corr[:3]) or None,
                   key=key, nontrivial=nontrivial, tags=tags, detail=detail)

  def crash_points(self, events, lo=0, fine=False):
    pts = []
    for c in range(lo, len(events) + 1):
      if c < len(events) and events[c][0] == 'write':
        m = events[c][1][1]
        ps = prefixes(m)
        if fine and m > 8:
          ps = sorted(set(ps) | {m // 4, 3 * m // 4})
      else:
        ps = [0]
      pts += [(c, p) for p in ps]
    return pts

  def _model_run(self, ctx, cfg, listings):
    """model: completed invocation from each listing -> [state, evalRound, listing] | 'dies'."""
    uniq = []
    for l in listings:
      if l not in uniq:
        uniq.append(l)
    ans = ctx.drv.ask([line('c09.run', self.model_cfg(cfg), l) for l in uniq]) if uniq else []
    return uniq, ans

  def _compare_completed(self, res, final_listing, cfg, w, model_ans, where, corr):
    if model_ans == 'dies':
      if res[0] == 'ok':
        corr.append(f'{where}: model says the re-run dies, impl completed')
      return
    mstate, mround, mlisting = model_ans
    if res[0] != 'ok':
      corr.append(f'{where}: impl re-run {res}, model completes with state {mstate}')
      return
    rounds = self.rounds_of(res[1], w)
    if rounds != mstate:
      corr.append(f'{where}: re-run state rounds {rounds} vs model {mstate}')
    if obs(mlisting) != obs(final_listing):
      corr.append(f'{where}: checkpoints and final-evaluation outputs after the re-run {obs(final_listing)} vs model '
                  f'{obs(mlisting)}')

  @staticmethod
  def _round_start(events, k):
    """index of the first event of the k-th executed round (0 if k is None): long runs only
    enumerate crash points from there on."""
    if not k:
      return 0
    seen = 0
    for i, e in enumerate(events):
      if e == ('step', 'sample'):
        seen += 1
        if seen == k:
          return i
    return 0

  def _hard_kill_enumeration(self, case, ctx, base, cfg, w, junk, ref, probs):
    """Hard-kill crash points (process death with unflushed data lost; closing a file is a crash
    point of its own), judged by the independent oracle only."""
    d = self.fresh_dir(base, 'hprobe', junk)
    pin = Injector(hard=True)
    self.invoke(d, cfg, pin, [])
    hev = pin.events
    lo = self._round_start(hev, case.get('from'))
    pts = [(c, f) for (c, f) in hard_points(hev, pin.pending_at) if c >= lo]
    limit = 40 if ctx.tier == 'quick' else 400
    if len(pts) > limit:
      step = len(pts) / float(limit)
      pts = [pts[int(i * step)] for i in range(limit)]
    first_bad = None
    for (c, f) in pts:
      d = self.fresh_dir(base, 'run', junk)
      inj = Injector(crash_at=c, hard=True, keep_frac=f)
      self.invoke(d, cfg, inj, [])
      listing, _, states = self.observe(d, w, junk)
      pr = self.oracle_crashed_dir(d, cfg, w, junk, states)
      saves = []
      r2 = self.invoke(d, cfg, Injector(), saves)
      pr += self.oracle_completed(r2, d, cfg, w, ref, saves)
      ctx.count('hard_kill_points')
      ctx.count('reruns')
      if pr and first_bad is None:
        first_bad = {'hard_kill_before_event': c, 'event': [str(x) for x in hev[c]], 'of_events': len(hev),
                     'unflushed_bytes': pin.pending_at[c], 'fraction_of_unflushed_bytes_on_disk': f,
                     'listing_after_kill': listing, 'rerun': str(r2[0] == 'ok' or r2[1])}
        self._last_fail = {core.case_digest(case): ('hard', c, f, len(hev))}
      for key, txt in pr:
        probs.append((key, f'process killed before event {c} {hev[c]} of {len(hev)} with {pin.pending_at[c]} unflushed '
                           f'bytes ({int(f * 100)}% of them reached the disk): {txt}'))
      if len(probs) > 4:
        break
    return first_bad

  def _enumerate(self, case, ctx, base, cfg, w, junk, ref):
    events = ref['events']
    lo = self._round_start(events, case.get('from'))
    pts = self.crash_points(events, lo, fine=ctx.tier == 'thorough')
    probs, corr = [], []
    impl_trace, completions = [], []
    first_bad = None
    late = False
    for (c, p) in pts:
      d = self.fresh_dir(base, 'run', junk)
      inj = Injector(crash_at=c, prefix=p)
      r1 = self.invoke(d, cfg, inj, [])
      listing, other, states = self.observe(d, w, junk)
      impl_trace.append(listing)
      if other:
        pass    # sub-directories / other entries are diagnostics only
      if r1[0] == 'raise':
        corr.append(f'crash point {(c, p)}: the interrupted call raised {r1[1]} instead of reaching the crash point')
      pr = self.oracle_crashed_dir(d, cfg, w, junk, states)
      saves = []
      r2 = self.invoke(d, cfg, Injector(), saves)
      final_listing, _, states2 = self.observe(d, w, junk)
      pr += self.oracle_completed(r2, d, cfg, w, ref, saves)
      if not pr and r2[0] == 'ok':
        pr += self.oracle_crashed_dir(d, cfg, w, junk, states2)
      if pr and first_bad is None:
        m = events[c][1][1] if c < len(events) and events[c][0] == 'write' else 0
        first_bad = {'crash_after_events': c, 'plus_bytes_of_next_write': p, 'of_events': len(events),
                     'next_event': [str(x) for x in events[c]] if c < len(events) else 'none (call completed; this is a plain re-run)',
                     'listing_after_crash': listing, 'rerun': str(r2[0] == 'ok' or r2[1])}
        self._last_fail = {core.case_digest(case): (c, p, len(events), m)}
      for key, txt in pr:
        probs.append((key, f'crash after {c} events (+{p} bytes of the next write) of {len(events)}: {txt}'))
      completions.append((listing, r2, final_listing, (c, p)))
      if any(e[0] in FS_KINDS for e in events[:c]) and c < len(events):
        late = True
      ctx.count('crash_points')
      ctx.count('reruns')
      if len(probs) > 6:
        break
    if not probs:
      # correspondence: stutter-equivalent listing traces + completed re-runs
      trace = ctx.drv.ask([line('c09.trace', self.model_cfg(cfg), [])])[0]
      if trace == 'dies':
        corr.append('model: invocation from the empty directory dies')
      else:
        # which checkpoint a re-run would resume from, along the crash points (stutter-equivalent)
        mt = dedup([newest(l) for l in trace])
        it = dedup([newest(l) for l in impl_trace])
        if lo:
          # the enumeration started late: the impl trace must be a suffix of the model trace
          ok = len(it) <= len(mt) and mt[len(mt) - len(it):] == it
        else:
          ok = mt == it
        if not ok:
          k = next((i for i, (a, b) in enumerate(zip(it, mt[len(mt) - len(it):] if lo else mt)) if a != b), min(len(it), len(mt)))
          corr.append(f'newest visible checkpoint along the crash points differs at distinct state #{k}: impl {it[k] if k < len(it) else "<end>"} '
                      f'vs model {(mt[len(mt) - len(it):] if lo else mt)[k] if k < len(mt) else "<end>"} '
                      f'(impl {len(it)} states, model {len(mt)})')
      uniq, ans = self._model_run(ctx, cfg, [obs(x[0]) for x in completions])
      for listing, r2, final_listing, cp in completions:
        self._compare_completed(r2, final_listing, cfg, w, ans[uniq.index(obs(listing))], f'crash {cp}', corr)
        if len(corr) > 3:
          break
    if not probs:
      first_bad = self._hard_kill_enumeration(case, ctx, base, cfg, w, junk, ref, probs)
    detail = {'first_failing': first_bad, 'crash_points': len(pts), 'events': len(events)}
    return self._outcome(case, probs, corr, detail, late and cfg['freq'] > 0, ctx)

  def _schedule(self, case, ctx, base, cfg, w, junk, ref):
    d = self.fresh_dir(base, 'run', junk)
    probs, corr, steps = [], [], []
    late = False
    model_fs = []
    for (cf, pf, mode) in case['sched']:
      probe = self.fresh_dir(base, 'probe', junk, src=d)
      kill = mode in (2, 3) and not case.get('hard')     # hard-kill step: unflushed data is lost
      pin = Injector(hard=kill)
      self.invoke(probe, cfg, pin, [])
      events = pin.events
      c = (cf * (len(events) + 1)) // 10001
      p = (pf * events[c][1][1]) // 1000 if c < len(events) and events[c][0] == 'write' and not kill else 0
      if case.get('hard'):
        r1 = self._hard_crash(d, cfg, c, p, junk)
        fired = r1[0] == 'crash'
      elif kill:
        inj = Injector(crash_at=c, hard=True, keep_frac=0.0 if mode == 2 else 0.5)
        r1 = self.invoke(d, cfg, inj, [])
        fired = inj.fired
        ctx.count('hard_kill_points')
      else:
        inj = Injector(crash_at=c, prefix=p, mode='ioerror' if mode == 1 else 'crash')
        r1 = self.invoke(d, cfg, inj, [])
        fired = inj.fired
      listing, other, states = self.observe(d, w, junk)
      if other:
        pass    # sub-directories / other entries are diagnostics only
      if any(e[0] in FS_KINDS for e in events[:c]) and fired:
        late = True
      pr = self.oracle_crashed_dir(d, cfg, w, junk, states)
      for key, txt in pr:
        probs.append((key, (f'after the process was killed before event {c} (unflushed data lost)' if kill else
                            f'after the crash at event {c} (+{p} bytes)') + f' of invocation {len(steps) + 1}: {txt}'))
      steps.append({'crash_after_events': c, 'plus_bytes': p, 'of_events': len(events), 'fired': fired,
                    'hard_kill': ({'unflushed_bytes': pin.pending_at[c] if c < len(pin.pending_at) else 0,
                                   'fraction_on_disk': 0.0 if mode == 2 else 0.5} if kill else None),
                    'next_event': [str(x) for x in events[c]] if c < len(events) else None,
                    'listing_after': listing, 'result': str(r1[0] if r1[0] != 'raise' else r1[1])})
      if r1[0] == 'raise':
        exc = r1[1].split(':')[0]
        probs.append((f'C09/rerun-dies/{exc}', f'invocation {len(steps)} (after {len(steps) - 1} crashes) raised {r1[1]}'))
        break
      if not probs and not kill:
        trace = ctx.drv.ask([line('c09.trace', self.model_cfg(cfg), model_fs)])[0]
        if trace == 'dies':
          corr.append(f'model: invocation {len(steps)} dies from {model_fs}')
          break
        if newest(listing) not in [newest(l) for l in trace]:
          corr.append(f'invocation {len(steps)}: newest visible checkpoint {newest(listing)} after the crash (visible: '
                      f'{obs(listing)}) is not what a re-run could resume from at any crash point of the model from {model_fs}')
          break
      model_fs = obs(listing)
      ctx.count('crash_points')
    saves = []
    r2 = self.invoke(d, cfg, Injector(), saves)
    ctx.count('reruns')
    final_listing, _, states2 = self.observe(d, w, junk)
    if not any(k.startswith('C09/rerun-dies') for k, _ in probs):
      probs += [(k, 'after the crash schedule: ' + t) for k, t in self.oracle_completed(r2, d, cfg, w, ref, saves)]
    if not probs and r2[0] == 'ok':
      probs += self.oracle_crashed_dir(d, cfg, w, junk, states2)
    if not probs and not corr:
      uniq, ans = self._model_run(ctx, cfg, [model_fs])
      self._compare_completed(r2, final_listing, cfg, w, ans[0], 'after the schedule', corr)
    return self._outcome(case, probs, corr, {'steps': steps, 'rerun': str(r2[0] == 'ok' or r2[1]),
                                             'final_listing': final_listing}, late and cfg['freq'] > 0, ctx,
                         tags=('hard',) if case.get('hard') else ())

  # ------------------------------------------------------------------------------------------
  def _cross_process(self, case, ctx, base, cfg, w, junk, ref):
    """A real kill and a real restart: every interrupted invocation and the final re-run are separate, fresh
    interpreter processes with different PYTHONHASHSEEDs (as after any real crash); the result is compared with
    the never-interrupted run of this process.  Oracle only."""
    d = self.fresh_dir(base, 'run', junk)
    probs, steps = [], []
    for i, cf in enumerate(case['xproc']):
      probe = self.fresh_dir(base, 'probe', junk, src=d)
      pin = Injector()
      self.invoke(probe, cfg, pin, [])
      c = (cf * (len(pin.events) + 1)) // 10001
      r1 = self._hard_crash(d, cfg, c, 0, junk, hashseed=str(101 + i))
      listing, _, states = self.observe(d, w, junk)
      steps.append({'killed_before_event': c, 'of_events': len(pin.events), 'hashseed': 101 + i,
                    'next_event': [str(x) for x in pin.events[c]] if c < len(pin.events) else None,
                    'listing_after': listing, 'result': r1[0]})
      for key, txt in self.oracle_crashed_dir(d, cfg, w, junk, states):
        probs.append((key, f'after process {i + 1} (PYTHONHASHSEED={101 + i}) was killed before event {c}: {txt}'))
      ctx.count('cross_process_kills')
    out = os.path.join(base, 'result.pickle')
    r2 = self._hard_crash(d, cfg, None, 0, junk, hashseed='977', result_path=out)
    res = ('raise', r2[1]) if r2[0] == 'raise' else ('ok', pickle.load(open(out, 'rb')) if os.path.exists(out) else None)
    if not probs:
      probs += [(k + '-across-processes', f'after {len(steps)} real kill(s), the re-run in a fresh interpreter '
                 f'(different PYTHONHASHSEED): ' + t) for k, t in self.oracle_completed(res, d, cfg, w, ref, [])]
    ctx.count('reruns')
    return self._outcome(case, probs, [], {'steps': steps, 'rerun': str(res[0] == 'ok' or res[1])},
                         cfg['freq'] > 0, ctx, tags=('cross-process',))

  def _hard_crash(self, d, cfg, c, p, junk, hashseed=None, result_path=None):
    """Real process death: a child process runs the invocation and calls os._exit at (c, p)
    (c None: it runs to completion and pickles the returned state to result_path)."""
    spec = json.dumps({'root': d, 'cfg': cfg, 'c': c, 'p': p, 'result_path': result_path})
    env = dict(os.environ)
    env['VERIF_REPO'] = core.REPO
    if hashseed is not None:
      env['PYTHONHASHSEED'] = hashseed
    here = os.path.dirname(os.path.dirname(os.path.abspath(__file__)))
    code = ('import sys, os; sys.path.insert(0, %r); sys.path.insert(0, %r); '
            'os.environ.setdefault("JAX_PLATFORMS", "cpu"); '
            'from props import c09; c09.child_main(sys.argv[1])' % (here, core.REPO))
    pr = subprocess.run([sys.executable, '-c', code, spec], capture_output=True, text=True, timeout=300, env=env)
    if pr.returncode == 77:
      return ('crash', None)
    if pr.returncode == 0:
      return ('ok', None)
    if pr.returncode == 3:
      last = [l for l in pr.stdout.splitlines() if l.startswith('RAISED ')]
      return ('raise', last[-1][7:] if last else 'unknown')
    raise core.InfraError(f'hard-crash child failed rc={pr.returncode}: {pr.stderr[-400:]}')


class _ExitInjector(Injector):
  """Injector whose crash is a real process death (no unwinding, no flush)."""

  def _raise(self):
    os._exit(77)


def child_main(spec_json):
  spec = json.loads(spec_json)
  prop = C09()

  class _Ctx:
    tier = 'quick'
    stats = {}

  prop.setup(_Ctx())
  prop.no_flush = True     # let the real buffering decide what is on disk at the moment of death
  inj = _ExitInjector(crash_at=spec['c'], prefix=spec['p'])
  res = prop.invoke(spec['root'], spec['cfg'], inj, [])
  if res[0] == 'ok' and spec.get('result_path'):
    st = res[1]
    if not isinstance(st, (dict, int, np.ndarray, np.generic)):
      st = np.asarray(st)
    with open(spec['result_path'], 'wb') as f:
      pickle.dump(st, f)
  if res[0] == 'raise':
    print('RAISED ' + str(res[1]))
  sys.stdout.flush()
  sys.exit(0 if res[0] == 'ok' else 3)


PROPERTY = C09
