"""C17 — algorithm-specific invariants hold along every training history."""
import sys

import numpy as np

from vlib import core
from vlib.core import Outcome
from props.c01 import Watchdog, close
from props.c12 import np_opt, bits, KIND_CODE, KAPPA

sys.set_int_max_str_digits(0)   # exact rationals of multi-round histories have thousands of digits
TOL = 2e-4
FAMILIES = ('agnostic', 'apfl', 'hyp', 'clip', 'ignore')
OPTS = {
    'A': (['sgd', 0.25, 0.0], ['sgd', 1.0, 0.0]),
    'B': (['sgd', 0.125, 0.0], ['momentum', 0.5, 0.5]),
    'C': (['momentum', 0.125, 0.5], ['sgd', 0.5, 0.0]),
}
BATCHING = {'e1': (2, 1, None, 3), 's3': (2, None, 3, 5), 'e2': (3, 2, None, 11)}
AG_KEY = 'C17/agnostic/absent-domain-nan'
AG_WIN_KEY = 'C17/agnostic/default-window-typeerror'
AG_OVF_KEY = 'C17/agnostic/eg-exp-overflow'
IGNORE_NAMES = [('lin', 'w'), ('lin', 'b'), ('out', 'w'), ('out', 'b')]
IGNORE_SHAPES = {('lin', 'w'): (2, 2), ('lin', 'b'): (2,), ('out', 'w'): (2, 1), ('out', 'b'): (1,)}


def opt_code(spec):
  return [KIND_CODE[spec[0]], spec[1], spec[2]]


class C17(core.Property):
  ID = 'C17'
  RULE = ('five invariant families on multi-round histories (3..6 rounds; small populations with repeated participation): '
          'agnostic FedAvg with 2..3 domains, window 1..3 and rounds in which a domain has no example; APFL with per-leaf '
          'coefficients and learning rates that drive them out of [0,1], training rounds interleaved with calls of the real '
          'evaluation entry point on trained, held-out and mixed client sets (table keys / state unchanged checked after '
          'every step); HypCluster with 2..3 clusters and clusters that get no client, interleaved with HypClusterEvaluator '
          'calls; MimeLite with clip norms around the observed delta norms; ignore_grads_haiku on haiku-shaped trees with '
          'sgd/momentum/adam; non-trivial = the interesting branch is hit (absent domain / coefficient actually clipped and '
          'moved / an empty and a non-empty cluster / a clipped and an unclipped client / frozen and trainable entries with '
          'non-zero gradients); distinct by case digest')
  TRUSTED = ['autodiff, optax optimizers, jax.random, jnp.exp are externals (exp enters the theorems as any positive function)',
             'recorded batches come from the real shuffle_repeat_batch / padded_batch (C03/C04)',
             'the Euclidean norm enters the clip theorem as any function that does not under-estimate it']
  ASSUMPTIONS = ['finite inputs; domain_window_size >= 1; clip norm > 0; cohorts are non-empty',
                 'names passed to ignore_grads_haiku that are not parameters raise KeyError (model: none)']
  QUICK_BUDGET_S = 175
  THOROUGH_BUDGET_S = 900

  # ------------------------------------------------------------------ setup
  def setup(self, ctx):
    import jax
    import jax.numpy as jnp
    from fedjax.algorithms import agnostic_fed_avg, apfl, hyp_cluster, mime_lite
    from fedjax.core import client_datasets, optimizers, models
    self.jax, self.jnp = jax, jnp
    self.mods = dict(agnostic=agnostic_fed_avg, apfl=apfl, hyp=hyp_cluster, mime_lite=mime_lite)
    self.cds, self.optimizers, self.models = client_datasets, optimizers, models
    self._algs = {}

    def vec(params):
      return params['w'] if 'w' in params else jnp.concatenate([params['a'], params['b']])

    def make_pel(keyed):
      def pel(params, batch, rng):
        w = vec(params)
        err = batch['x'] @ w - batch['y']
        loss = 0.5 * err * err
        if keyed:
          loss = loss + KAPPA * jnp.dot(jax.random.normal(rng, w.shape), w)
        return loss
      return pel

    self.pel = {False: make_pel(False), True: make_pel(True)}
    self.grad_fn = {k: models.grad(v) for k, v in self.pel.items()}

    # the real evaluation entry points (APFL personalised evaluation, HypClusterEvaluator) on a Model of the fixture:
    # the sign of the regression output is a two-class prediction, scored by Accuracy against the label y > 0
    from fedjax.core import metrics

    def apply_for_eval(params, batch):
      pred = batch['x'] @ vec(params)
      return jnp.stack([-pred, pred], axis=-1)

    def train_loss(batch, preds):
      return 0.5 * (preds - batch['y']) ** 2

    self.eval_model = models.Model(init=None, apply_for_train=lambda params, batch, rng: batch['x'] @ vec(params),
                                   apply_for_eval=apply_for_eval, train_loss=train_loss,
                                   eval_metrics={'accuracy': metrics.Accuracy()})
    self.apfl_eval = apfl.eval_adaptive_personalized_federated_learning(
        self.eval_model, client_datasets.PaddedBatchHParams(batch_size=2))
    # optional L2 regulariser lam/2*|w|^2, passed through the algorithm's own `regularizer=` argument
    self.reg = {0.0: None, 0.5: (lambda params: 0.25 * jnp.sum(jnp.square(vec(params)))),
                1.0: (lambda params: 0.5 * jnp.sum(jnp.square(vec(params))))}
    self.hyp_eval = {lam: hyp_cluster.HypClusterEvaluator(self.eval_model, reg) for lam, reg in self.reg.items()}

    class RecDataset(client_datasets.ClientDataset):
      def __init__(self, raw, train_log, pad_log):
        super().__init__(raw)
        self._tl, self._pl = train_log, pad_log

      def _wrap(self, view, log):
        class V:
          def __iter__(self_inner):
            log.clear()
            for b in view:
              log.append({k: np.array(v) for k, v in b.items()})
              yield b
        return V()

      def shuffle_repeat_batch(self, hparams=None, **kwargs):
        return self._wrap(super().shuffle_repeat_batch(hparams, **kwargs), self._tl)

      def padded_batch(self, hparams=None, **kwargs):
        return self._wrap(super().padded_batch(hparams, **kwargs), self._pl)

    self.RecDataset = RecDataset

  def mk_opt(self, spec):
    o = self.optimizers
    kind, lr, m = spec
    if kind == 'sgd':
      return o.sgd(lr)
    if kind == 'adam':
      return o.adam(lr)
    if kind == 'sgdw':    # decoupled weight decay: the update depends on the parameter value, not only on its gradient
      import optax
      return o.create_optimizer_from_optax(optax.chain(optax.add_decayed_weights(m), optax.sgd(lr)))
    return o.sgd(lr, momentum=m, nesterov=(kind == 'nesterov'))

  def hparams(self, name):
    bs, ep, st, seed = BATCHING[name]
    return self.cds.ShuffleRepeatBatchHParams(batch_size=bs, num_epochs=ep, num_steps=st, seed=seed)

  def cached(self, key, build):
    if key not in self._algs:
      self._algs[key] = build()
    return self._algs[key]

  # ------------------------------------------------------------------ generation
  def _population(self, rng, n, d, domains=None, sizes=(0, 1, 2, 3, 4, 5), xs=(-1, 0, 1, 2)):
    pop = []
    for c in range(n):
      n_ex = rng.choice(sizes)
      ent = {'id': 10 * rng.randrange(1, 40) + c,
             'x': [[rng.choice(list(xs)) for _ in range(d)] for _ in range(n_ex)],
             'y': [rng.choice([-2, -1, 0, 1, 3]) for _ in range(n_ex)]}
      if domains:
        ent['dom'] = [rng.randrange(domains) for _ in range(n_ex)]
      pop.append(ent)
    return pop

  def gen_cases(self, rng, tier):
    n = 150 if tier == 'quick' else 1200
    yield {'family': 'agnostic_default_window'}
    for i in range(n):
      fam = FAMILIES[i % len(FAMILIES)]
      oname = rng.choice(sorted(OPTS))
      copt, sopt = OPTS[oname]
      base = {'family': fam, 'copt': list(copt), 'sopt': list(sopt), 'batching': rng.choice(['e1', 's3', 'e2']),
              'key_seed': rng.randrange(1000)}
      if fam == 'agnostic':
        # the scaled loss is a *sum* over the batch: keep the effective step size in the stable range
        base['batching'] = rng.choice(['e1', 's3'])
        D = rng.choice([2, 2, 3])
        W = rng.choice([1, 1, 2, 3])
        pop = self._population(rng, 4, 2, domains=D, sizes=(1, 2, 3, 4, 5), xs=(-1, 0, 1))
        rounds = []
        for r in range(rng.choice([3, 4, 5, 6])):
          ids = rng.sample(range(4), rng.choice([1, 2, 2, 3]))
          cohort = [dict(pop[j]) for j in ids]
          if rng.random() < 0.45:       # a round in which some domain receives no example
            gone = rng.randrange(D)
            for c in cohort:
              c['dom'] = [(dd if dd != gone else (gone + 1) % D) for dd in c['dom']]
          rounds.append(cohort)
        init_w = {2: rng.choice([[0.5, 0.5], [0.25, 0.75]]), 3: rng.choice([[0.5, 0.25, 0.25], [0.25, 0.25, 0.5]])}[D]
        yield {**base, 'D': D, 'W': W, 'eta': rng.choice([0.125, 0.5]), 'init_w': init_w,
               'init_window': rng.choice([None, [1.0] * D, [2.0] * D]), 'w0': [rng.choice([-1, 0, 1]) for _ in range(2)],
               'rounds': rounds}
      elif fam == 'apfl':
        pop = self._population(rng, 4, 3, sizes=(0, 2, 3, 4, 5), xs=(-1, 0, 1))
        held_out = self._population(rng, 6, 3, sizes=(2, 3), xs=(-1, 0, 1))[4:]     # never sampled for training
        rounds = [[dict(pop[j]) for j in rng.sample(range(4), rng.choice([1, 2, 3]))]
                  for _ in range(rng.choice([3, 4, 5, 6]))]
        # evaluation calls interleaved with the training rounds: slot k is evaluated before round k (the last slot
        # after the last round), on trained clients, held-out clients, or a mix
        everyone = [c for c in pop + held_out if len(c['y'])]
        evals = [([dict(c) for c in rng.sample(everyone, rng.randrange(1, len(everyone) + 1))]
                  if rng.random() < 0.55 else []) for _ in range(len(rounds) + 1)]
        yield {**base, 'copt': [rng.choice(['sgd', 'momentum']), rng.choice([0.25, 0.5, 0.125]), 0.5],
               'coef0': rng.choice([0.0, 0.25, 0.5, 1.0]), 'w0': [rng.choice([-1, 0, 1, 2]) for _ in range(3)],
               'keyed': rng.random() < 0.4, 'rounds': rounds, 'evals': evals}
      elif fam == 'hyp':
        K = rng.choice([2, 2, 3])
        pop = self._population(rng, 4, 2, sizes=(0, 1, 2, 3, 4))
        rounds = [[dict(pop[j]) for j in rng.sample(range(4), rng.choice([1, 2, 3]))]
                  for _ in range(rng.choice([3, 4, 5]))]
        clusters = [[rng.choice([-2, -1, 0, 1, 2, 3]) for _ in range(2)] for _ in range(K)]
        if rng.random() < 0.3:
          clusters[-1] = [9, -9]       # a cluster far from every client: nobody is assigned to it
        # HypClusterEvaluator calls interleaved with the training rounds (slot k before round k, last slot at the end)
        nonempty = [c for c in pop if len(c['y'])]
        evals = [([dict(c) for c in rng.sample(nonempty, rng.randrange(1, len(nonempty) + 1))]
                  if nonempty and rng.random() < 0.4 else []) for _ in range(len(rounds) + 1)]
        # an L2 regulariser changes which cluster has minimal average loss when the clusters lie at different distances
        # from the origin (the evaluator adds regularizer(cluster params) to every client's average loss)
        lam = rng.choice([0.0, 0.0, 0.5, 1.0])
        if lam and rng.random() < 0.5:
          clusters[0] = [rng.choice([-3, 3, 4]), rng.choice([-4, 3, 4])]     # far from the origin, others near
        case = {**base, 'K': K, 'clusters': clusters, 'rounds': rounds, 'evals': evals, 'lam': lam,
                # the for_each_client backend selected before hyp_cluster() is built
                'backend': rng.choice(['jit', 'jit', 'pmap', 'pmap', 'debug']), 'D': rng.choice([1, 2])}
        if case['backend'] == 'pmap':
          # pmap yields clients sorted by decreasing number of batches: clients with different batch counts
          # (epoch-based batching), half of the time listed smallest first
          case['batching'] = rng.choice(['e1', 'e2'])
          if rng.random() < 0.5:
            case['rounds'] = [sorted(co, key=lambda c: len(c['y'])) for co in rounds]
        yield case
      elif fam == 'clip':
        # 'inf' / 1e30 / 1e39 (= inf in float32): the "no clipping" entries of a sweep — nothing may change
        clip = rng.choice([0.0625, 0.25, 0.5, 1.0, 4.0, 0.0, 0.0625, 0.25, 1.0, 'inf', 1e30, 1e39])
        # bound 0 ("no update may pass") is legal; clients without examples are left out there because a
        # zero delta clipped to 0 is 0/0 in tree_clip_by_global_norm (outside the property, cf. C07)
        pop = self._population(rng, 4, 2, sizes=(0, 1, 2, 3, 5) if clip != 0 else (1, 2, 3, 5))
        rounds = [[dict(pop[j]) for j in rng.sample(range(4), rng.choice([1, 2, 3]))]
                  for _ in range(rng.choice([1, 2, 3]))]
        yield {**base, 'copt': rng.choice([['sgd', 0.25, 0.0], ['momentum', 0.125, 0.5]]), 'lr': rng.choice([1.0, 0.5]),
               'clip': clip, 'w0': [rng.choice([-1, 0, 1, 2]) for _ in range(2)],
               'keyed': rng.random() < 0.3, 'rounds': rounds}
      else:
        names = [n for n in range(4) if rng.random() < 0.5]
        if rng.random() < 0.08:
          names = names + [4]         # ('out', 'zz'): not a parameter
        steps = []
        for _ in range(rng.choice([1, 2, 3, 4])):
          steps.append([[rng.choice([-2, -1, 0.5, 1, 3]) for _ in range(int(np.prod(IGNORE_SHAPES[nm])))]
                        for nm in IGNORE_NAMES])
        yield {'family': 'ignore', 'base': rng.choice([['sgd', 0.25, 0.0], ['momentum', 0.125, 0.5], ['adam', 0.125, 0.0],
                                                       ['sgdw', 0.25, 0.5]]),
               # how the caller hands over the names: the frozen set is the names at the time of the call, whatever
               # the container and whatever the caller does with it afterwards
               'names_form': rng.choice(['list', 'tuple', 'generator', 'zip', 'set', 'list_then_clear',
                                         'list_then_append', 'list_then_replace']),
               'names': names, 'params': [[rng.choice([-1, 0, 1, 2, 5]) for _ in range(int(np.prod(IGNORE_SHAPES[nm])))]
                                          for nm in IGNORE_NAMES], 'steps': steps}

  def shrink(self, case):
    if 'rounds' in case:
      rs = case['rounds']
      ev = case.get('evals')
      if len(rs) > 1:
        yield {**case, 'rounds': rs[:-1], **({'evals': ev[:-1]} if ev else {})}
        yield {**case, 'rounds': rs[1:], **({'evals': ev[1:]} if ev else {})}
      for ri, cohort in enumerate(rs):
        if len(cohort) > 1:
          for ci in range(len(cohort)):
            yield {**case, 'rounds': rs[:ri] + [cohort[:ci] + cohort[ci + 1:]] + rs[ri + 1:]}
    if case.get('evals') and 'rounds' in case and len(case['evals']) == len(case['rounds']) + 1:
      for k, ev in enumerate(case['evals']):
        if ev:
          yield {**case, 'evals': case['evals'][:k] + [[]] + case['evals'][k + 1:]}
          if len(ev) > 1:
            yield {**case, 'evals': case['evals'][:k] + [ev[:-1]] + case['evals'][k + 1:]}
    if case.get('backend', 'jit') != 'jit':
      yield {**case, 'backend': 'jit'}
    if case.get('names_form', 'list') != 'list':
      yield {**case, 'names_form': 'list'}
    if 'steps' in case and len(case['steps']) > 1:
      yield {**case, 'steps': case['steps'][:-1]}

  # ------------------------------------------------------------------ helpers
  def _clients(self, case, ri, d, with_dom=False):
    jax = self.jax
    cohort = case['rounds'][ri]
    keys = jax.random.split(jax.random.PRNGKey(case['key_seed'] + ri), max(1, len(cohort)))
    tl = [[] for _ in cohort]
    pl = [[] for _ in cohort]
    clients = []
    for j, c in enumerate(cohort):
      raw = {'x': np.asarray(c['x'], dtype=np.float32).reshape(len(c['y']), d),
             'y': np.asarray(c['y'], dtype=np.float32)}
      if with_dom:
        raw['domain_id'] = np.asarray(c['dom'], dtype=np.int32)
      clients.append((c['id'], self.RecDataset(raw, tl[j], pl[j]), keys[j]))
    return clients, keys, tl, pl

  def rows(self, b, with_dom=False):
    mask = b.get(self.cds.EXAMPLE_MASK_KEY)
    res = []
    for i in range(b['x'].shape[0]):
      if mask is None or bool(mask[i]):
        r = [float(v) for v in b['x'][i]] + [float(b['y'][i])]
        if with_dom:
          r.append(int(b['domain_id'][i]))
        res.append(r)
    return res

  @staticmethod
  def client_path(j):
    return [True] * j + [False]

  def _normal(self, key, d):
    return KAPPA * np.asarray(self.jax.random.normal(key, (d,)), dtype=np.float64)

  def chain_binary(self, key, path, n, d):
    res = []
    for _ in range(n):
      nxt, use = self.jax.random.split(key)
      res.append((path + [True], self._normal(use, d)))
      key, path = nxt, path + [False]
    return res

  def chain_apfl(self, key, path, n, d):
    res = []
    for _ in range(n):
      nxt, srv, cli = self.jax.random.split(key, 3)
      res.append((path + [False, True], self._normal(srv, d)))
      res.append((path + [True, False], self._normal(cli, d)))
      key, path = nxt, path + [False, False]
    return res

  @staticmethod
  def enc_tab(tab):
    return [[bits(p), [float(v) for v in nz]] for p, nz in tab]

  @staticmethod
  def batch_grad(p, b):
    x, y = np.asarray(b['x'], np.float64), np.asarray(b['y'], np.float64)
    return np.mean((x @ p - y)[:, None] * x, axis=0)

  def trace_of(self, opt_state, d):
    tr = [np.asarray(l, np.float64) for l in self.jax.tree_util.tree_leaves(opt_state) if np.asarray(l).shape == (d,)]
    return tr[0] if tr else None

  # ================================================================== agnostic
  def _agnostic_alg(self, case, init_window):
    key = ('agnostic', case['D'], case['W'], case['eta'], tuple(case['init_w']), tuple(case['copt']),
           tuple(case['sopt']), case['batching'], None if init_window is None else tuple(init_window))
    kw = {} if init_window is None else {'init_domain_window': list(init_window)}
    return self.cached(key, lambda: self.mods['agnostic'].agnostic_federated_averaging(
        self.pel[False], self.mk_opt(case['copt']), self.mk_opt(case['sopt']), self.hparams(case['batching']),
        self.cds.PaddedBatchHParams(batch_size=2), list(case['init_w']), case['eta'], 'eg', case['W'], **kw))

  def eval_default_window(self, case, ctx):
    c = {'D': 2, 'W': 2, 'eta': 0.5, 'init_w': [0.25, 0.75], 'copt': ['sgd', 0.25, 0.0], 'sopt': ['sgd', 1.0, 0.0],
         'batching': 'e1'}
    try:
      alg = self._agnostic_alg(c, None)
      st = alg.init({'w': self.jnp.asarray([1.0, -1.0], dtype=self.jnp.float32)})
      win = [np.asarray(w).tolist() for w in st.domain_window]
    except Exception as e:
      return Outcome(oracle_fail=f'agnostic_federated_averaging(...) without init_domain_window ("Defaults to ones") raised '
                     f'{type(e).__name__}: {str(e)[:120]}', key=AG_WIN_KEY, tags=('family=agnostic_default_window',))
    ok = win == [[1.0, 1.0], [1.0, 1.0]]
    return Outcome(oracle_fail=None if ok else f'default window is {win}, documented: ones, length W=2',
                   nontrivial=False, tags=('family=agnostic_default_window',))

  def eval_agnostic(self, case, ctx):
    D, W, eta = case['D'], case['W'], case['eta']
    tags = ['family=agnostic', f'D={D}', f'W={W}', f'rounds={len(case["rounds"])}',
            f'init_window={"default" if case["init_window"] is None else "given"}']
    init_window = case['init_window']
    try:
      alg = self._agnostic_alg(case, init_window)
    except Exception as e:
      return Outcome(oracle_fail=f'constructing agnostic FedAvg without init_domain_window raised {type(e).__name__}: '
                     f'{str(e)[:120]}', key=AG_WIN_KEY, tags=tuple(tags))
    win0 = [list(map(float, init_window if init_window is not None else [1.0] * D))] * W
    state = alg.init({'w': self.jnp.asarray(case['w0'], dtype=self.jnp.float32)})
    problems, corr, key = [], [], None
    window = [list(r) for r in win0]
    weights = np.asarray(case['init_w'], np.float64)
    absent_seen = False
    mcohorts, impl = [], []
    scale = 1.0 + float(np.max(np.abs(case['w0'])))
    for ri, cohort in enumerate(case['rounds']):
      clients, keys, tl, pl = self._clients(case, ri, 2, with_dom=True)
      w_before = np.asarray(state.params['w'], np.float64)
      absent_in_window = bool(np.any(np.mean(np.asarray(window), axis=0) == 0))
      absent_seen = absent_seen or absent_in_window
      try:
        with Watchdog(30):
          state, _ = alg.apply(state, clients)
      except Exception as e:
        problems.append(f'round {ri}: apply raised {type(e).__name__}: {str(e)[:120]}')
        break
      counts = [float(sum(1 for c in cohort for dd in c['dom'] if dd == k)) for k in range(D)]
      window = window[1:] + [counts]
      p = np.asarray(state.params['w'], np.float64)
      dw = np.asarray(state.domain_weights, np.float64)
      iw = [np.asarray(r, np.float64).tolist() for r in state.domain_window]
      impl.append({'params': p.tolist(), 'weights': dw.tolist(), 'window': iw})
      # ---- the invariants of the property, stated directly on the implementation's state
      if not np.all(np.isfinite(p)):
        problems.append(f'round {ri}: server params {p.tolist()} are not finite')
      if not np.all(np.isfinite(dw)) or np.any(dw < 0) or abs(float(np.sum(dw)) - 1.0) > 1e-5:
        problems.append(f'round {ri}: domain weights {dw.tolist()} are not a probability vector')
      if len(iw) != W:
        problems.append(f'round {ri}: window has length {len(iw)}, configured {W}')
      elif iw != window:
        problems.append(f'round {ri}: window {iw} != the last {W} per-domain counts {window}')
      # L = mean loss per domain at the round's params (float64, independent of the implementation)
      sums, nums = np.zeros(D), np.zeros(D)
      for c in cohort:
        for xr, yv, dd in zip(c['x'], c['y'], c['dom']):
          e = float(np.dot(w_before, xr) - yv)
          sums[dd] += 0.5 * e * e
          nums[dd] += 1
      L = np.where(nums > 0, sums / np.where(nums > 0, nums, 1), 0.0)
      if problems:
        if np.all(np.isfinite(w_before)) and eta * float(np.max(L)) > 80.0:
          key = AG_OVF_KEY      # exp(eta * L) overflows float32: float-range effect, outside the exact model
        elif absent_seen and any('finite' in q or 'probability' in q for q in problems):
          key = AG_KEY
        break
      # ---- the documented update: w * exp(eta * L) renormalised
      u = weights * np.exp(eta * L)
      weights = u / np.sum(u)
      if np.max(np.abs(weights - dw)) > 1e-4:
        problems.append(f'round {ri}: domain weights {dw.tolist()} != exponentiated-gradient update {weights.tolist()}')
        break
      scale = max(scale, float(np.max(np.abs(p))))
      mcohorts.append([[c['id'], len(c['y']), [self.rows(b, True) for b in tl[j]], bits(self.client_path(j)),
                        [list(map(float, xr)) + [float(yv), int(dd)] for xr, yv, dd in zip(c['x'], c['y'], c['dom'])],
                        [float(sum(1 for dd in c['dom'] if dd == k)) for k in range(D)]]
                       for j, c in enumerate(cohort)])
    nontrivial = absent_seen and len(impl) == len(case['rounds'])
    tags.append(f'absent_domain_in_window={absent_seen}')
    if not problems:
      ans = ctx.drv.ask1('c17.agnostic', opt_code(case['copt']), opt_code(case['sopt']), eta,
                         [float(v) for v in case['w0']], [float(v) for v in case['init_w']], win0, mcohorts)
      if ans == 'err':
        corr.append('model: the round does not return, implementation did')
      else:
        for ri, r in enumerate(ans):
          mp, mw, mwin = [float(v) for v in r[0]], [float(v) for v in r[2]], [[float(v) for v in q] for q in r[3]]
          if not close(impl[ri]['params'], mp, scale):
            corr.append(f'round {ri}: model params {mp} vs impl {impl[ri]["params"]}')
            break
          if not close(impl[ri]['weights'], mw, 1.0):
            corr.append(f'round {ri}: model domain weights {mw} vs impl {impl[ri]["weights"]}')
            break
          if mwin != impl[ri]['window']:
            corr.append(f'round {ri}: model window {mwin} vs impl {impl[ri]["window"]}')
            break
      ctx.count('model_agnostic')
    return Outcome(oracle_fail='; '.join(problems[:2]) or None, corr_fail='; '.join(corr[:2]) or None, key=key,
                   nontrivial=nontrivial, tags=tuple(tags), detail={'impl': impl})

  # ================================================================== APFL
  def eval_apfl(self, case, ctx):
    jnp = self.jnp
    keyed = case['keyed']
    tags = ['family=apfl', f'keyed={keyed}', f'coef0={case["coef0"]}', f'rounds={len(case["rounds"])}']
    key = ('apfl', keyed, tuple(case['copt']), tuple(case['sopt']), case['batching'], case['coef0'])
    alg = self.cached(key, lambda: self.mods['apfl'].adaptive_personalized_federated_learning(
        self.grad_fn[keyed], self.mk_opt(case['copt']), self.mk_opt(case['sopt']), self.hparams(case['batching']),
        case['coef0']))
    w0 = case['w0']
    state = alg.init({'a': jnp.asarray(w0[:2], dtype=jnp.float32), 'b': jnp.asarray(w0[2:], dtype=jnp.float32)})
    problems, corr = [], []
    seen, impl, mcohorts = [], [], []
    moved = clipped_edge = False
    scale = 1.0 + float(np.max(np.abs(w0)))
    evals = case.get('evals') or [[] for _ in range(len(case['rounds']) + 1)]
    eval_log = []          # (slot, [(id, x, labels, implementation accuracy)])
    held_out_evaluated = False

    def table_of(st):
      t = {}
      for cid, cs in st.client_states.items():
        # one coefficient per leaf (a scalar; tolerate an array-valued leaf and read its first entry)
        coefs = [float(np.asarray(cs.interpolation_coefficients[k], np.float64).reshape(-1)[0]) for k in ('a', 'b')]
        cp = np.concatenate([np.asarray(cs.params['a'], np.float64), np.asarray(cs.params['b'], np.float64)])
        t[cid] = (coefs, cp)
      return t

    def raw_of(st):
      return (sorted((cid, [np.asarray(l).tobytes() for l in self.jax.tree_util.tree_leaves(cs)])
                     for cid, cs in st.client_states.items()),
              [np.asarray(l).tobytes() for l in self.jax.tree_util.tree_leaves((st.params, st.opt_state))])

    def accuracy_bounds(p, x, labels):
      """(certainly correct, uncertain) counts of the sign classifier x @ p against labels"""
      pred = np.asarray(x, np.float64) @ np.asarray(p, np.float64)
      unsure = np.abs(pred) < 1e-4 * (1.0 + float(np.max(np.abs(p))))
      ok = ((pred > 0).astype(int) == np.asarray(labels)) & ~unsure
      return int(np.sum(ok)), int(np.sum(unsure))

    def evaluation(slot, st):
      """calls the real APFL evaluation on `st`; evaluation must not touch the server state"""
      nonlocal held_out_evaluated
      ev = evals[slot] if slot < len(evals) else []
      if not ev:
        return
      before = raw_of(st)
      ecl = [(c['id'], self.cds.ClientDataset({'x': np.asarray(c['x'], np.float32).reshape(len(c['y']), 3),
                                                'y': (np.asarray(c['y']) > 0).astype(np.int32)})) for c in ev]
      res = dict(self.apfl_eval(st, ecl))
      where = f'evaluation before round {slot}' if slot < len(case['rounds']) else 'evaluation after the last round'
      if sorted(res) != sorted(c['id'] for c in ev):
        problems.append(f'{where}: results for {sorted(res)}, evaluated {sorted(c["id"] for c in ev)}')
        return
      t = table_of(st)
      if sorted(t) != sorted(seen):
        problems.append(f'{where} of {[c["id"] for c in ev]}: client state is stored for {sorted(t)}, but only '
                        f'{sorted(seen)} have taken part in training')
      elif raw_of(st) != before:
        problems.append(f'{where}: evaluation changed the server state it was given')
      sp = np.concatenate([np.asarray(st.params['a'], np.float64), np.asarray(st.params['b'], np.float64)])
      rec = []
      for c in ev:
        if c['id'] not in seen:
          held_out_evaluated = True
        coefs, cp = t.get(c['id'], ([0.0, 0.0], sp)) if c['id'] in seen else ([0.0, 0.0], sp)
        a = np.asarray([coefs[0], coefs[0], coefs[1]])
        labels = (np.asarray(c['y']) > 0).astype(int)
        lo, unsure = accuracy_bounds(a * cp + (1 - a) * sp, c['x'], labels)
        acc = float(res[c['id']]['accuracy'].result())
        if not (lo - 1e-3 <= acc * len(labels) <= lo + unsure + 1e-3):
          problems.append(f'{where}: client {c["id"]} accuracy {acc} but its interpolated model (stored state, or the '
                          f'server model for a client without state) classifies {lo}..{lo + unsure} of {len(labels)} right')
        rec.append((c['id'], c['x'], labels.tolist(), acc))
      eval_log.append((slot, rec))
      ctx.count('apfl_evaluations')

    for ri, cohort in enumerate(case['rounds']):
      evaluation(ri, state)
      if problems:
        break
      clients, keys, tl, pl = self._clients(case, ri, 3)
      try:
        with Watchdog(30):
          state, _ = alg.apply(state, clients)
      except Exception as e:
        return Outcome(oracle_fail=f'APFL round {ri} raised {type(e).__name__}: {str(e)[:140]}',
                       key=f'C17/apfl/raises-{type(e).__name__}', tags=tuple(tags))
      for c in cohort:
        if c['id'] not in seen:
          seen.append(c['id'])
      table = table_of(state)
      for cid, (coefs, cp) in table.items():
        for v in coefs:
          if not (np.isfinite(v) and 0.0 <= v <= 1.0):
            problems.append(f'round {ri}: client {cid} stores interpolation coefficient {v} outside [0, 1]')
          if v in (0.0, 1.0) and case['coef0'] not in (0.0, 1.0):
            clipped_edge = True
          if abs(v - case['coef0']) > 1e-3:
            moved = True
      if sorted(table) != sorted(seen):
        problems.append(f'round {ri}: client states stored for {sorted(table)}, participants so far {sorted(seen)}')
      p = np.concatenate([np.asarray(state.params['a'], np.float64), np.asarray(state.params['b'], np.float64)])
      if not np.all(np.isfinite(p)):
        problems.append(f'round {ri}: non-finite server params')
      impl.append({'params': p.tolist(), 'table': {str(k): [v[0], v[1].tolist()] for k, v in table.items()}})
      scale = max([scale, float(np.max(np.abs(p)))] + [float(np.max(np.abs(v[1]))) for v in table.values()])
      if problems:
        break
      cl, tab = [], []
      for j, c in enumerate(cohort):
        path = self.client_path(j)
        train = [self.rows(b) for b in tl[j]]
        cl.append([c['id'], len(c['y']), train, bits(path)])
        if keyed:
          tab += self.chain_apfl(keys[j], path, len(train) + 1, 3)
      mcohorts.append([cl, self.enc_tab(tab)])
    if not problems:
      evaluation(len(case['rounds']), state)
    tags.append(f'coefficient_moved={moved}')
    tags.append(f'coefficient_hit_bound={clipped_edge}')
    tags.append(f'held_out_client_evaluated={held_out_evaluated}')
    if not problems:
      ans = ctx.drv.ask1('c12.apfl', keyed, opt_code(case['copt']), opt_code(case['sopt']), case['coef0'], [2, 1],
                         [float(v) for v in w0], mcohorts)
      for ri, r in enumerate(ans):
        mp = [float(v) for v in r[0]]
        if not close(impl[ri]['params'], mp, scale):
          corr.append(f'round {ri}: model server params {mp} vs impl {impl[ri]["params"]}')
          break
        mt = {str(e[0]): ([float(v) for v in e[2]], [float(v) for v in e[1]]) for e in r[2]}
        if sorted(mt) != sorted(impl[ri]['table']):
          corr.append(f'round {ri}: model table keys {sorted(mt)} vs impl {sorted(impl[ri]["table"])}')
          break
        for cid, (mc, mcp) in mt.items():
          ic, icp = impl[ri]['table'][cid]
          if not close(ic, mc, 10 * scale) or not close(icp, mcp, 10 * scale):
            corr.append(f'round {ri}: client {cid}: model (coef {mc}, params {mcp}) vs impl (coef {ic}, params {icp})')
            break
        if corr:
          break
      # the evaluations: the model evaluates every client with its stored state (or the default for a client without
      # state) interpolated with the server params, and leaves the table alone (C17_eval_frame)
      if not corr and eval_log:
        lines = []
        for slot, rec in eval_log:
          mparams, mtable = ([float(v) for v in w0], []) if slot == 0 else (ans[slot - 1][0], ans[slot - 1][2])
          lines.append(core.line('c17.apfl_eval', [2, 1], mparams, mtable, [r[0] for r in rec]))
        for (slot, rec), pers in zip(eval_log, ctx.drv.ask(lines)):
          for (cid, x, labels, acc), mp in zip(rec, pers):
            lo, unsure = accuracy_bounds([float(v) for v in mp], x, labels)
            if not (lo - 1e-3 <= acc * len(labels) <= lo + unsure + 1e-3):
              corr.append(f'evaluation slot {slot}: client {cid}: impl accuracy {acc}, model params {[float(v) for v in mp]} '
                          f'classify {lo}..{lo + unsure} of {len(labels)} right')
              break
          if corr:
            break
      ctx.count('model_apfl')
    return Outcome(oracle_fail='; '.join(problems[:2]) or None, corr_fail='; '.join(corr[:2]) or None,
                   nontrivial=bool(moved), tags=tuple(tags), detail={'impl': impl})

  # ================================================================== HypCluster
  def eval_hyp(self, case, ctx):
    jnp = self.jnp
    K = case['K']
    tags = ['family=hyp', f'K={K}', f'rounds={len(case["rounds"])}', f'sopt={case["sopt"][0]}']
    lam = case.get('lam', 0.0)
    tags.append(f'regulariser={bool(lam)}')
    backend = case.get('backend', 'jit')
    D = max(1, min(int(case.get('D', 1)), len(self.jax.local_devices())))
    tags.append(f'backend={backend}')
    key = ('hyp', tuple(case['copt']), tuple(case['sopt']), case['batching'], lam, backend, D if backend == 'pmap' else 0)

    def build():
      from fedjax.core import for_each_client as fec
      b = fec.ForEachClientPmapBackend(self.jax.local_devices()[:D]) if backend == 'pmap' else backend
      with fec.for_each_client_backend(b):
        return self.mods['hyp'].hyp_cluster(
            self.pel[False], self.mk_opt(case['copt']), self.mk_opt(case['sopt']),
            self.cds.PaddedBatchHParams(batch_size=2), self.hparams(case['batching']), regularizer=self.reg[lam])
    alg = self.cached(key, build)

    def reg_of(b):
      return 0.5 * lam * float(np.sum(np.asarray(b, np.float64) ** 2))
    reg_flipped = False
    state = alg.init([{'w': jnp.asarray(c, dtype=jnp.float32)} for c in case['clusters']])
    cinit, capply = np_opt(case['copt'])
    sinit, sapply = np_opt(case['sopt'])
    ref_state = [sinit(np.asarray(c, np.float64)) for c in case['clusters']]
    problems, corr = [], []
    impl, mcohorts = [], []
    saw_empty = saw_update = near_tie = False
    tie_sets = []
    scale = 1.0 + float(np.max(np.abs(case['clusters'])))
    evals = case.get('evals') or [[] for _ in range(len(case['rounds']) + 1)]

    def raw_of(st):
      return [(np.asarray(p['w']).tobytes(), [np.asarray(l).tobytes() for l in self.jax.tree_util.tree_leaves(o)])
              for p, o in zip(st.cluster_params, st.opt_states)]

    def evaluation(slot, st):
      """the real HypClusterEvaluator on `st`: every client is scored on the cluster of minimal average loss and
      no cluster (params, optimizer state) is touched"""
      ev = evals[slot] if slot < len(evals) else []
      if not ev:
        return
      before = raw_of(st)
      ekeys = self.jax.random.split(self.jax.random.PRNGKey(case['key_seed'] + 100 + slot), len(ev))
      train_c = [(c['id'], self.cds.ClientDataset({'x': np.asarray(c['x'], np.float32).reshape(len(c['y']), 2),
                                                   'y': np.asarray(c['y'], np.float32)}), ekeys[j])
                 for j, c in enumerate(ev)]
      test_c = [(c['id'], self.cds.ClientDataset({'x': np.asarray(c['x'], np.float32).reshape(len(c['y']), 2),
                                                  'y': (np.asarray(c['y']) > 0).astype(np.int32)})) for c in ev]
      res = dict(self.hyp_eval[lam].evaluate_clients(st.cluster_params, train_c, test_c,
                                                self.cds.PaddedBatchHParams(batch_size=2)))
      where = f'evaluation before round {slot}' if slot < len(case['rounds']) else 'evaluation after the last round'
      if len(st.cluster_params) != K or len(st.opt_states) != K or raw_of(st) != before:
        problems.append(f'{where}: evaluation changed the clusters (params / optimizer states) it was given')
      cps = [np.asarray(p['w'], np.float64) for p in st.cluster_params]
      for c in ev:
        x, y = np.asarray(c['x'], np.float64), np.asarray(c['y'], np.float64)
        losses = [float(np.mean(0.5 * (x @ b - y) ** 2)) + reg_of(b) for b in cps]
        best = [k for k in range(K) if losses[k] <= min(losses) + 1e-4 * (1 + min(losses))]
        labels = (y > 0).astype(int)
        acc = float(res[c['id']]['accuracy'])
        ok = False
        for k in best:
          pred = x @ cps[k]
          unsure = np.abs(pred) < 1e-4 * (1.0 + float(np.max(np.abs(cps[k]))))
          lo = int(np.sum(((pred > 0).astype(int) == labels) & ~unsure))
          ok = ok or (lo - 1e-3 <= acc * len(labels) <= lo + int(np.sum(unsure)) + 1e-3)
        if not ok:
          problems.append(f'{where}: client {c["id"]} scored {acc}, which is not the accuracy of a cluster of minimal '
                          f'average loss (losses {losses})')
      ctx.count('hyp_evaluations')

    for ri, cohort in enumerate(case['rounds']):
      evaluation(ri, state)
      if problems:
        break
      clients, keys, tl, pl = self._clients(case, ri, 2)
      before = [np.asarray(p['w'], np.float64) for p in state.cluster_params]
      before_raw = [(np.asarray(p['w']).tobytes(),
                     [np.asarray(l).tobytes() for l in self.jax.tree_util.tree_leaves(o)])
                    for p, o in zip(state.cluster_params, state.opt_states)]
      with Watchdog(30):
        state, diag = alg.apply(state, clients)
      after = [np.asarray(p['w'], np.float64) for p in state.cluster_params]
      assign = {cid: int(v['cluster_id']) for cid, v in diag.items()}
      # (a) assignment = A cluster of minimal average loss (which one wins a tie is not fixed by the property)
      round_losses = []
      for c in cohort:
        if len(c['y']):
          x, y = np.asarray(c['x'], np.float64), np.asarray(c['y'], np.float64)
          data = [float(np.mean(0.5 * (x @ b - y) ** 2)) for b in before]
        else:
          data = [0.0] * K
        # the average loss the maximisation step ranks clusters by includes the regulariser of each cluster's params
        losses = [dl + reg_of(b) for dl, b in zip(data, before)]
        round_losses.append(losses)
        if int(np.argmin(losses)) != int(np.argmin(data)):
          reg_flipped = True
        a = assign.get(c['id'])
        if a is None or not 0 <= a < K:
          problems.append(f'round {ri}: client {c["id"]} has no valid cluster id ({a})')
          continue
        srt = sorted(losses)
        if len(c['y']) and len(srt) > 1 and srt[1] - srt[0] < 1e-4 * (1 + srt[0]):
          near_tie = True
        if losses[a] > min(losses) + 1e-4 * (1 + min(losses)):
          problems.append(f'round {ri}: client {c["id"]} assigned to cluster {a} with average loss {losses[a]}, '
                          f'minimum is {min(losses)} (losses {losses})')
      # (b) cluster-local update / (c) untouched empty cluster
      for k in range(K):
        mine = [(j, c) for j, c in enumerate(cohort) if assign.get(c['id']) == k]
        tot = sum(len(c['y']) for _, c in mine)
        if tot == 0:
          saw_empty = True
          raw = (np.asarray(state.cluster_params[k]['w']).tobytes(),
                 [np.asarray(l).tobytes() for l in self.jax.tree_util.tree_leaves(state.opt_states[k])])
          if raw != before_raw[k]:
            problems.append(f'round {ri}: cluster {k} received no example but its params/optimizer state changed '
                            f'({before[k].tolist()} -> {after[k].tolist()})')
        else:
          saw_update = True
          num = np.zeros(2)
          for j, c in mine:
            p, o = before[k].copy(), cinit(before[k])
            for b in tl[j]:
              o, p = capply(self.batch_grad(p, b) + lam * p, o, p)
            num += len(c['y']) * (before[k] - p)
          ref_state[k], expect = sapply(num / tot, ref_state[k], before[k])
          scale = max(scale, float(np.max(np.abs(expect))))
          if not close(after[k], expect, scale):
            problems.append(f'round {ri}: cluster {k} params {after[k].tolist()} != server step on the weighted mean of '
                            f'its own clients {[c["id"] for _, c in mine]}: {expect.tolist()}')
      # clusters each client may legitimately be assigned to (minimal loss up to the float tolerance)
      tie_sets.append([[k for k in range(K) if ls[k] <= min(ls) + 1e-4 * (1 + min(ls))] for ls in round_losses])
      impl.append({'clusters': [a.tolist() for a in after], 'assign': {str(k): v for k, v in assign.items()}})
      if problems:
        break
      mcohorts.append([[[c['id'], len(c['y']), [self.rows(b) for b in tl[j]], bits(self.client_path(j)),
                         [list(map(float, xr)) + [float(yv)] for xr, yv in zip(c['x'], c['y'])]]
                        for j, c in enumerate(cohort)], []])
    if not problems:
      evaluation(len(case['rounds']), state)
    tags += [f'empty_cluster={saw_empty}', f'near_tie={near_tie}', f'regulariser_changes_assignment={reg_flipped}']
    if not problems:
      margs = ([False, lam], opt_code(case['copt']), opt_code(case['sopt']),
               [[float(v) for v in c] for c in case['clusters']], mcohorts)
      ans = ctx.drv.ask1('c12.hyp', *margs)
      iassigns = [[impl[ri]['assign'][str(c['id'])] for c in case['rounds'][ri]] for ri in range(len(impl))]
      # the model assigns the FIRST cluster of minimal loss; the implementation may pick any minimal one.  Assignments
      # are compared up to ties; from the first round in which the two differ the states are no longer comparable, so
      # the model is re-run with the implementation's (oracle-checked, minimal) assignment given
      states = [r[0] for r in ans]
      for ri, r in enumerate(ans):
        if r[1] != iassigns[ri]:
          bad = [c['id'] for c, m, i, ts in zip(case['rounds'][ri], r[1], iassigns[ri], tie_sets[ri])
                 if m != i and not (m in ts and i in ts)]
          if bad:
            corr.append(f'round {ri}: model assignment {r[1]} vs impl {iassigns[ri]} (clients {bad} are not ties)')
          else:
            tags.append('tie_broken_differently=True')
            states = ctx.drv.ask1('c12.hyp_with', *margs, iassigns)
          break
      for ri, cls in enumerate(states if not corr else []):
        for k, cl in enumerate(cls):
          if not close(impl[ri]['clusters'][k], [float(v) for v in cl[0]], scale):
            corr.append(f'round {ri}: model cluster {k} params {[float(v) for v in cl[0]]} vs impl {impl[ri]["clusters"][k]}')
            break
        if corr:
          break
      ctx.count('model_hyp')
    return Outcome(oracle_fail='; '.join(problems[:2]) or None, corr_fail='; '.join(corr[:2]) or None,
                   nontrivial=bool(saw_empty and saw_update), tags=tuple(tags), detail={'impl': impl})

  # ================================================================== MimeLite clip
  def eval_clip(self, case, ctx):
    jnp = self.jnp
    keyed, clip = case['keyed'], float(case['clip'])        # 'inf' -> inf
    # the model clips with a rational bound; an infinite (or float32-infinite) bound is a bound above every norm
    mclip = clip if clip < 1e31 else 10 ** 60
    tags = ['family=clip', f'keyed={keyed}', f'clip={case["clip"]}', f'base={case["copt"][0]}']
    key = ('clip', keyed, tuple(case['copt']), case['batching'], case['lr'], clip)
    alg = self.cached(key, lambda: self.mods['mime_lite'].mime_lite(
        self.pel[keyed], self.mk_opt(case['copt']), self.hparams(case['batching']),
        self.cds.PaddedBatchHParams(batch_size=2), case['lr'], client_delta_clip_norm=clip))
    state = alg.init({'w': jnp.asarray(case['w0'], dtype=jnp.float32)})
    binit, bapply = np_opt(case['copt'])
    ref_opt = binit(np.asarray(case['w0'], np.float64))
    problems, corr = [], []
    impl, mcohorts = [], []
    some_clipped = some_unclipped = diag_missing = False
    scale = 1.0 + float(np.max(np.abs(case['w0'])))
    for ri, cohort in enumerate(case['rounds']):
      clients, keys, tl, pl = self._clients(case, ri, 2)
      before = np.asarray(state.params['w'], np.float64)
      with Watchdog(30):
        state, diag = alg.apply(state, clients)
      after = np.asarray(state.params['w'], np.float64)
      if clip == 0 and any('clipped_delta_l2_norm' in diag[c['id']] and float(diag[c['id']]['delta_l2_norm']) == 0
                           for c in cohort):
        # a zero delta (e.g. a client whose gradient vanishes) clipped to the bound 0 is 0/0 in
        # tree_clip_by_global_norm: outside the property ("below the bound"), as for an empty client
        return Outcome(nontrivial=False, tags=tuple(tags + ['clip0_zero_delta=outside_domain']), detail={'impl': impl})
      if not np.all(np.isfinite(after)):
        problems.append(f'round {ri}: server params {after.tolist()} are not finite (clip norm {case["clip"]})')
      # reference: frozen-state local steps, clip, weighted mean (key-free loss only)
      num, tot = np.zeros(2), 0.0
      for j, c in enumerate(cohort):
        dg = diag.get(c['id'], {})
        have_diag = 'clipped_delta_l2_norm' in dg and 'delta_l2_norm' in dg
        if not have_diag:
          # the diagnostics do not report the clipped norm: what was aggregated is judged through the resulting
          # parameters only (reference below / model)
          diag_missing = True
        else:
          n_raw, n_clip = float(dg['delta_l2_norm']), float(dg['clipped_delta_l2_norm'])
          if not (np.isfinite(n_raw) and np.isfinite(n_clip)):
            problems.append(f'round {ri}: client {c["id"]}: delta norm {n_raw} -> {n_clip} after clipping to '
                            f'{case["clip"]} is not finite')
            continue
          if n_clip > clip * (1 + 1e-5) + 1e-7:
            problems.append(f'round {ri}: client {c["id"]} is aggregated with a delta of norm {n_clip} > clip norm {clip}')
          if n_raw <= clip and abs(n_clip - n_raw) > 1e-5 * (1 + n_raw):
            problems.append(f'round {ri}: client {c["id"]} is below the bound ({n_raw} <= {clip}) but was changed ({n_clip})')
          if n_raw > clip * (1 + 1e-4):
            some_clipped = True
          elif n_raw > 0:
            some_unclipped = True
        if not keyed:
          p = before.copy()
          for b in tl[j]:
            _, p = bapply(self.batch_grad(p, b), ref_opt, p)
          delta = before - p
          nr = float(np.linalg.norm(delta))
          if have_diag and abs(nr - n_raw) > 1e-4 * (1 + nr):
            problems.append(f'round {ri}: client {c["id"]} reports delta norm {n_raw}, reference {nr}')
          if not have_diag:
            some_clipped, some_unclipped = some_clipped or nr > clip, some_unclipped or 0 < nr <= clip
          if nr > clip:
            delta = delta * (clip / nr)
          num += len(c['y']) * delta
          tot += len(c['y'])
      if not keyed:
        expect = before - case['lr'] * (num / tot if tot > 0 else np.zeros(2))
        if not close(after, expect, scale):
          problems.append(f'round {ri}: params {after.tolist()} != step on the mean of the clipped deltas {expect.tolist()}')
        rows_x = [r for c in cohort for r in c['x']]
        if rows_x:
          x = np.asarray(rows_x, np.float64)
          y = np.asarray([v for c in cohort for v in c['y']], np.float64)
          G = np.mean((x @ before - y)[:, None] * x, axis=0)
        else:
          G = np.zeros(2)
        ref_opt, _ = bapply(G, ref_opt, before)
      scale = max(scale, float(np.max(np.abs(after))))
      impl.append({'params': after.tolist(), 'norms': {str(c['id']): float(diag[c['id']]['clipped_delta_l2_norm'])
                                                        for c in cohort if 'clipped_delta_l2_norm' in diag.get(c['id'], {})}})
      if problems:
        break
      cl, tab = [], []
      for j, c in enumerate(cohort):
        path = self.client_path(j)
        train = [self.rows(b) for b in tl[j]]
        pad = [self.rows(b) for b in pl[j]]
        cl.append([c['id'], len(c['y']), train, bits(path), [[r, len(r)] for r in pad]])
        if keyed:
          tab += self.chain_binary(keys[j], path, max(len(train), len(pad)) + 1, 2)
      mcohorts.append([cl, self.enc_tab(tab)])
    tags += [f'some_clipped={some_clipped}', f'some_unclipped={some_unclipped}']
    if not problems:
      ans = ctx.drv.ask1('c12.mimelite', keyed, mclip, opt_code(case['copt']), case['lr'], [float(v) for v in case['w0']],
                         mcohorts)
      if ans == 'err':
        corr.append('model: raises, implementation ran')
      else:
        for ri, r in enumerate(ans):
          mp = [float(v) for v in r[0]]
          if not close(impl[ri]['params'], mp, scale):
            corr.append(f'round {ri}: model params {mp} vs impl {impl[ri]["params"]}')
            break
        # the deltas the model aggregates in round 0 have the norms the implementation reports
        w0 = [float(v) for v in case['w0']]
        dl = ctx.drv.ask1('c12.mimelite_deltas', keyed, mclip, opt_code(case['copt']), w0, [0.0] * len(w0), mcohorts[0])
        for cid, vec in dl:
          nm = float(np.linalg.norm([float(v) for v in vec]))
          if str(cid) in impl[0]['norms'] and abs(nm - impl[0]['norms'][str(cid)]) > 1e-4 * (1 + nm):
            corr.append(f'round 0: client {cid}: model aggregates norm {nm}, impl reports {impl[0]["norms"][str(cid)]}')
            break
      ctx.count('model_clip')
    return Outcome(oracle_fail='; '.join(problems[:2]) or None, corr_fail='; '.join(corr[:2]) or None,
                   nontrivial=bool(some_clipped and some_unclipped), tags=tuple(tags), detail={'impl': impl})

  # ================================================================== ignore_grads_haiku
  def eval_ignore(self, case, ctx):
    jnp, jax = self.jnp, self.jax
    names_idx = case['names']
    all_names = IGNORE_NAMES + [('out', 'zz')]
    names = [all_names[i] for i in names_idx]
    tags = ['family=ignore', f'base={case["base"][0]}', f'frozen={len(names)}', f'steps={len(case["steps"])}']

    def tree(vals):
      t = {'lin': {}, 'out': {}}
      for nm, v in zip(IGNORE_NAMES, vals):
        t[nm[0]][nm[1]] = jnp.asarray(np.asarray(v, np.float32).reshape(IGNORE_SHAPES[nm]))
      return t

    def filt(t):
      return {m: {n: v for n, v in d.items() if (m, n) not in names} for m, d in t.items()}

    base = self.mk_opt(case['base'])
    form = case.get('names_form', 'list')
    tags.append(f'names_form={form}')
    params = tree(case['params'])
    problems, corr = [], []
    impl_err = None
    try:
      handed = list(names)
      if form == 'tuple':
        arg = tuple(handed)
      elif form == 'generator':
        arg = (nm for nm in handed)
      elif form == 'zip':
        arg = zip([nm[0] for nm in handed], [nm[1] for nm in handed])
      elif form == 'set':
        arg = set(handed)
      else:
        arg = handed
      opt = self.optimizers.ignore_grads_haiku(base, arg)
      # the caller goes on using its list (progressive freezing / unfreezing schedules)
      if form == 'list_then_clear':
        handed.clear()
      elif form == 'list_then_append':
        handed.extend(nm for nm in IGNORE_NAMES if nm not in names)
      elif form == 'list_then_replace':
        handed[:] = [nm for nm in IGNORE_NAMES if nm not in names]
      st = opt.init(params)
      st_ref = base.init(filt(params))
      mstate = 'init'
      mparams = [[i, [float(v) for v in vals]] for i, vals in enumerate(case['params'])]
      for si, gvals in enumerate(case['steps']):
        grads = tree(gvals)
        st, new = opt.apply(grads, st, params)
        st_ref, ref = base.apply(filt(grads), st_ref, filt(params))
        for nm in IGNORE_NAMES:
          got = np.asarray(new[nm[0]][nm[1]])
          if nm in names:
            orig = np.asarray(params[nm[0]][nm[1]])
            if got.dtype != orig.dtype or got.shape != orig.shape or got.tobytes() != orig.tobytes():
              problems.append(f'step {si}: frozen parameter {nm} changed: {orig.tolist()} -> {got.tolist()}')
          else:
            want = np.asarray(ref[nm[0]][nm[1]])
            if got.shape != want.shape or not np.array_equal(got, want):
              problems.append(f'step {si}: trainable parameter {nm} = {got.tolist()}, base optimizer gives {want.tolist()}')
        # (the wrapper's optimizer state is threaded through the steps but not inspected: a wrong state shows in the
        # next step's parameters)
        if problems:
          break
        # model (exact optimizers only)
        if case['base'][0] in KIND_CODE:
          ans = ctx.drv.ask1('c17.ignore', opt_code(case['base']), names_idx,
                             [[i, [float(v) for v in vals]] for i, vals in enumerate(gvals)], mstate, mparams)
          if ans == 'KeyError':      # only for a listed name that is not a parameter (outside the property)
            break
          mstate, mp = ans[0], sorted(ans[1])
          for i, vec in mp:
            nm = IGNORE_NAMES[i]
            got = np.asarray(new[nm[0]][nm[1]], np.float64).reshape(-1)
            if not close(got, [float(v) for v in vec], float(np.max(np.abs(got))) if got.size else 0.0):
              corr.append(f'step {si}: model {nm} = {[float(v) for v in vec]} vs impl {got.tolist()}')
          if corr:
            break
          mparams = [[i, vec] for i, vec in mp]
          ctx.count('model_ignore_steps')
        params = {m: dict(d) for m, d in new.items()}
    except Exception as e:       # noqa
      impl_err = f'{type(e).__name__}: {str(e)[:100]}'
    if 4 in names_idx:
      # a listed name that is not a parameter is outside the property: the code may reject it (any exception; the model
      # answers KeyError) or ignore it — then the checks above applied to the names that are parameters
      ctx.count('ignore_unknown_name_rejected' if impl_err else 'ignore_unknown_name_accepted')
    elif impl_err:
      problems.append(f'ignore_grads_haiku raised {impl_err} on names that are parameters (handed over as {form})')
    nontrivial = 0 < len(names) < 4 and any(any(v != 0 for v in g) for step in case['steps'] for g in step)
    return Outcome(oracle_fail='; '.join(problems[:2]) or None, corr_fail='; '.join(corr[:2]) or None,
                   nontrivial=bool(nontrivial), tags=tuple(tags))

  # ------------------------------------------------------------------
  def evaluate(self, case, ctx):
    fam = case['family']
    if fam == 'agnostic_default_window':
      return self.eval_default_window(case, ctx)
    try:
      return getattr(self, 'eval_' + fam)(case, ctx)
    except TimeoutError:
      return Outcome(oracle_fail=f'{fam}: the round never returns (watchdog)', key=f'C17/{fam}/hang',
                     tags=(f'family={fam}',))


PROPERTY = C17
