"""Child process of the C18 check: runs the real walsh_hadamard code under a non-default but legal
JAX configuration (these are process-wide switches, so they cannot be flipped inside the main run):

  mode 'x64'       jax_enable_x64=True              (float64 / int64 inputs keep their precision)
  mode 'threefry0' jax_threefry_partitionable=False (the classic threefry stream, default up to jax 0.4.x)

usage: c18_probe.py <spec.json> <result.json>
spec   = {'repo': path, 'mode': ..., 'items': [...]}; items:
  {'op': 'wht', 'dtype', 'x': [...], 'small': int | None}
  {'op': 'rot', 'dtype', 'shape': [...], 'x': [...], 'key': int}
  {'op': 'tree', 'dtype', 'spec': <tree spec of props/c18.py with explicit leaf values>, 'key': int}
result = {'status': 'ok' | 'skipped', 'why', 'results': [...]}  — raw outputs only; every judgement is made
by the parent (props/c18.py) against exact references.
"""
import json
import os
import sys


def main():
  spec = json.load(open(sys.argv[1]))
  out_path = sys.argv[2]
  os.environ.setdefault('JAX_PLATFORMS', 'cpu')
  os.environ.setdefault('TF_CPP_MIN_LOG_LEVEL', '3')
  here = os.path.dirname(os.path.dirname(os.path.abspath(__file__)))
  sys.path.insert(0, here)
  sys.path.insert(0, spec['repo'])
  import jax
  mode = spec['mode']
  flag, value = {'x64': ('jax_enable_x64', True), 'threefry0': ('jax_threefry_partitionable', False)}[mode]
  try:
    jax.config.update(flag, value)
    ok = bool(getattr(jax.config, flag)) == value
  except Exception as e:   # pylint: disable=broad-except
    ok = False
    why = f'{type(e).__name__}: {str(e)[:200]}'
  else:
    why = '' if ok else f'{flag} could not be set to {value}'
  if not ok:
    json.dump({'status': 'skipped', 'why': why or f'{flag} is not available in jax {jax.__version__}'},
              open(out_path, 'w'))
    return
  import jax.numpy as jnp
  import numpy as np
  from fedjax.aggregators import walsh_hadamard as wh
  from props import c18 as h
  tu = jax.tree_util

  def arr(x, dtype, shape):
    return jnp.asarray(np.array(x, dtype=dtype).reshape(shape))

  def vals(a):
    a = np.asarray(a)
    if a.dtype.kind in 'iu':
      return [int(v) for v in a.reshape(-1)]
    return [float(v) for v in a.reshape(-1).astype(np.float64)]

  results = []
  for it in spec['items']:
    r = {}
    try:
      if it['op'] == 'wht':
        a = arr(it['x'], it['dtype'], [len(it['x'])])
        r['in_dtype'] = str(a.dtype)
        y = wh.walsh_hadamard_transform(a) if it.get('small') is None else wh.walsh_hadamard_transform(a, it['small'])
        r.update(y=vals(y), dtype=str(np.asarray(y).dtype), shape=list(np.asarray(y).shape))
      elif it['op'] == 'rot':
        a = arr(it['x'], it['dtype'], it['shape'])
        r['in_dtype'] = str(a.dtype)
        key = jax.random.PRNGKey(it['key'])
        y, sh = wh.structured_rotation(a, key)
        r.update(y=vals(y), y_dtype=str(np.asarray(y).dtype), y_shape=list(np.asarray(y).shape))
        # rotation of the all-ones array of the same shape: lets the parent recover the sign diagonal of this key
        r['y_ones'] = vals(wh.structured_rotation(jnp.ones_like(a), key)[0])
        try:
          z = wh.inverse_structured_rotation(y, key, sh)
          r.update(z=vals(z), z_shape=list(np.asarray(z).shape), z_dtype=str(np.asarray(z).dtype))
        except Exception as e:   # pylint: disable=broad-except
          r['inv_err'] = f'{type(e).__name__}: {str(e)[:160]}'
      elif it['op'] == 'tree':
        tree = h.spec_build(it['spec'], lambda l: arr(l[2], it['dtype'], l[1]))
        tdef = tu.tree_structure(tree)
        key = jax.random.PRNGKey(it['key'])
        rot, shp = wh.structured_rotation_pytree(tree, key)
        r['rot_struct_ok'] = tu.tree_structure(rot) == tdef
        r['rot_leaves'] = [vals(l) for l in tu.tree_leaves(rot)] if r['rot_struct_ok'] else None
        try:
          inv = wh.inverse_structured_rotation_pytree(rot, key, shp)
          r['inv_struct_ok'] = tu.tree_structure(inv) == tdef
          if r['inv_struct_ok']:
            r['inv_leaves'] = [vals(l) for l in tu.tree_leaves(inv)]
            r['inv_shapes'] = [list(np.asarray(l).shape) for l in tu.tree_leaves(inv)]
            r['inv_dtypes'] = [str(np.asarray(l).dtype) for l in tu.tree_leaves(inv)]
        except Exception as e:   # pylint: disable=broad-except
          r['inv_err'] = f'{type(e).__name__}: {str(e)[:160]}'
      else:
        r['err'] = 'bad-op'
    except Exception as e:   # pylint: disable=broad-except
      r['err'] = f'{type(e).__name__}: {str(e)[:160]}'
    results.append(r)
  json.dump({'status': 'ok', 'jax': jax.__version__, 'results': results}, open(out_path, 'w'))


if __name__ == '__main__':
  main()
