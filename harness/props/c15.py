"""C15 — centralised streams over many clients neither lose nor duplicate.

A case is a list of items (one round-trip to the model driver per case): {'items': [item, …]}, item =
  {'k': 'multi',   bs, B, sizes, tags:[[pre,feat],…], extra, pre, via}   padded_batch_client_datasets / _federated_data
  {'k': 'bshuf',   n, B, seed, src[, vals]}                              buffered_shuffle on a base iterable (vals: [pos, POOL index])
  {'k': 'bsb',     bs, B, sizes, seed, tags}                             buffered_shuffle_batch_client_datasets
  {'k': 'clients', n, B, seed, passes, fd}                               FederatedData.shuffled_clients
  {'k': 'srb',     sizes, bs, Bc, Be, seed, steps}                       shuffle_repeat_batch_federated_data
  {'k': 'rep',     base, n, ops[, pool]}                                 RepeatableIterator (pool: item values = POOL[i]:
                                                                         None, falsy builtins, nested tuples, id/dataset-like pairs)
  {'k': 'order',   n, B, seeds}                                          non-trivial order, judged over many passes

Randomness of the code under test: `buffered_shuffle` is wrapped (module attribute, from outside) so
that the rng it receives records its initial shuffle and its `randint` draws; those are the oracle
arguments of the Lean model.  Whether the model then reproduces the emitted ORDER is reported in the
evidence (monitors exact_order_agree / exact_order_differs) but never raised: the property fixes "each
item once per pass, reproducible for a seed, non-trivial order", not which order.  What is compared
strictly is what the property fixes: ValueError or not, the batch sequence of the padded stream up to a
trailing all-padding batch, RepeatableIterator outputs; plus identical streams for all documented call
forms with equal effective hyper-parameters.
"""
import itertools
import signal

import numpy as np

from vlib import core
from vlib.core import Outcome, line


class Hang(Exception):
  pass


def _alarm(signum, frame):
  raise Hang()


class watchdog:

  def __init__(self, seconds):
    self.seconds = seconds

  def __enter__(self):
    self.old = signal.signal(signal.SIGALRM, _alarm)
    signal.setitimer(signal.ITIMER_REAL, self.seconds)

  def __exit__(self, *a):
    signal.setitimer(signal.ITIMER_REAL, 0)
    signal.signal(signal.SIGALRM, self.old)
    return False


def pick_final_ref(r, bs, B):
  """Bucket rule: smallest of bs halved 0..B-1 times that still holds r rows (r in [0, bs])."""
  if r % bs == 0:
    return bs
  cands, c = [], bs
  for _ in range(B):
    cands.append(c)
    c //= 2
  return min(c for c in cands if c >= r)


class RngProxy:
  """Delegates to a RandomState and records shuffle results (as positions) and randint draws."""

  def __init__(self, rng, rec):
    self._rng, self._rec = rng, rec

  def shuffle(self, x):
    before = list(x)
    self._rng.shuffle(x)
    pos = {id(o): i for i, o in enumerate(before)}
    self._rec['shuffles'].append([pos.get(id(o), -1) for o in x])

  def randint(self, *a, **k):
    v = self._rng.randint(*a, **k)
    self._rec['randints'].append(int(v) if np.ndim(v) == 0 else None)
    return v

  def __getattr__(self, name):
    self._rec['other'].append(name)
    return getattr(self._rng, name)


class Boxed:
  """Distinct object per item so positions can be recovered by identity."""
  __slots__ = ('v',)

  def __init__(self, v):
    self.v = v


# Item values a stream may legitimately carry: None, every falsy builtin, nested tuples, (client_id, dataset)-like
# pairs.  Entries are pairwise distinct under `same` (type and value), so an observed item identifies its position.
POOL = [None, 0, False, '', (), b'', 0.0, ('a', 1), ((), (None,)), (b'cid', None), 1, 'x', (0,), True, b'\x00',
        frozenset(), (b'client', ('rows', 3))]
# entries usable together as dict keys (0 == False == 0.0 and 1 == True collide as keys)
POOL_DICT = [0, 3, 4, 5, 7, 8, 9, 10, 11, 12, 14, 15, 16]


def same(a, b):
  return a is b or (type(a) is type(b) and a == b)


def position_of(x, vals):
  for i, v in enumerate(vals):
    if same(x, v):
      return i
  return -1


class C15(core.Property):
  ID = 'C15'
  RULE = ('items of 7 kinds (see module docstring), ~10 per case; client size sequences drawn from '
          '{0, <bs, =bs, >bs, k*bs, k*bs+-1} so that every path of the carry-over buffer (fits / exactly fills / spans '
          'several batches / leaves an exact batch) is hit, mismatching preprocessor object or feature set at random '
          'positions, buffer sizes 1..(longer than the stream), base iterables list/tuple/dict/str/bytes/generator/'
          'range/empty; non-trivial = case with a multi-client stream of >= 2 batches or a shuffle of >= 3 items; '
          'distinct by case digest; `items` in monitors counts items')
  TRUSTED = ['numpy RandomState.shuffle returns a permutation, randint(B) < B, same seed => same stream (monitored on '
             'every recorded call); numpy slicing/concatenate',
             'for shuffle_repeat_batch_federated_data the example-level buffer never flushes (infinite stream): the '
             'checked statement is conservation w.r.t. the recorded client stream (exact order: evidence monitor only)']
  ASSUMPTIONS = ['views passed to shuffled_clients / shuffle_repeat_batch_federated_data have >= 1 client and >= 1 '
                 'example (an empty view spins forever; outside the property as stated, DESIGN §6)',
                 'buffer sizes >= 1, batch sizes >= 1, bucket counts >= 1']
  QUICK_BUDGET_S = 100
  THOROUGH_BUDGET_S = 540

  # ------------------------------------------------------------------ setup
  def setup(self, ctx):
    import fedjax
    from fedjax.core import client_datasets as cds
    from fedjax.core import federated_data as fdm
    from fedjax.core import in_memory_federated_data as imfd
    self.fedjax, self.cds, self.fdm, self.imfd = fedjax, cds, fdm, imfd
    self.calls = []
    self._orig_bs = getattr(cds, 'buffered_shuffle', None)
    prop = self

    def recording_buffered_shuffle(source, buffer_size, rng):
      rec = {'B': buffer_size, 'src': [], 'out': [], 'shuffles': [], 'randints': [], 'other': []}
      prop.calls.append(rec)

      def src():
        for x in source:
          rec['src'].append(x)
          yield x

      for y in prop._orig_bs(src(), buffer_size, RngProxy(rng, rec)):
        rec['out'].append(y)
        yield y

    if self._orig_bs is not None:
      cds.buffered_shuffle = recording_buffered_shuffle
    self._failing = {}

  # ------------------------------------------------------------------ generation
  @staticmethod
  def _sizes(rng, bs, maxlen=8):
    n = rng.choice([0, 1, 1, 2, 3, 4, 5, 6, 7, 8][:maxlen + 2])
    out = []
    for _ in range(n):
      k = rng.randrange(9)
      if k == 0:
        s = 0
      elif k == 1:
        s = rng.randrange(0, bs)
      elif k == 2:
        s = bs
      elif k == 3:
        s = bs + rng.randrange(1, bs + 1)
      elif k == 4:
        s = bs * rng.randrange(1, 4)
      elif k == 5:
        s = max(0, bs * rng.randrange(1, 4) + rng.choice([-1, 1]))
      elif k == 6:
        s = max(0, bs - 1)
      else:
        s = rng.randrange(0, 3 * bs + 2)
      out.append(s)
    return out

  def _gen_item(self, rng):
    k = rng.choice(['multi'] * 6 + ['bshuf'] * 3 + ['bsb'] * 3 + ['clients', 'srb'] + ['rep'] * 3)
    if k == 'multi':
      bs = rng.randrange(1, 10)
      sizes = self._sizes(rng, bs)
      tags = [[0, 0] for _ in sizes]
      if sizes and rng.random() < 0.3:
        for _ in range(rng.choice([1, 1, 2])):
          tags[rng.randrange(len(sizes))] = rng.choice([[1, 0], [0, 1], [1, 1]])
      return {'k': 'multi', 'bs': bs, 'B': rng.randrange(1, 5), 'sizes': sizes, 'tags': tags,
              'extra': rng.random() < 0.4, 'pre': rng.random() < 0.4,
              'via': rng.choice(['list', 'gen', 'fd'])}
    if k == 'bshuf':
      n = rng.choice([0, 1, 2, 3, 5, 8, 13, 20])
      B = rng.choice([1, 2, 3, max(1, n - 1), max(1, n), n + 1, n + 5, rng.randrange(1, 12)])
      item = {'k': 'bshuf', 'n': n, 'B': B, 'seed': rng.randrange(2**31),
              'src': rng.choice(['list', 'tuple', 'gen', 'iter'])}
      if n and rng.random() < 0.5:
        # some source items are None / falsy / nested values instead of opaque objects: [position, POOL index]
        codes = self._pool_codes(rng, min(n, rng.randrange(1, 6)))
        where = rng.sample(range(n), len(codes))
        item['vals'] = [[w, c] for w, c in zip(where, codes)]
      return item
    if k == 'bsb':
      bs = rng.randrange(1, 7)
      sizes = self._sizes(rng, bs, 6)
      tags = [[0, 0] for _ in sizes]
      if sizes and rng.random() < 0.2:
        tags[rng.randrange(len(sizes))] = rng.choice([[1, 0], [0, 1]])
      T = sum(sizes)
      return {'k': 'bsb', 'bs': bs, 'B': rng.choice([1, 2, 3, 5, max(1, T), T + 3]), 'sizes': sizes,
              'seed': rng.randrange(2**31), 'tags': tags}
    if k == 'clients':
      n = rng.choice([1, 2, 3, 5, 8, 12])
      return {'k': 'clients', 'n': n, 'B': rng.choice([1, 2, 3, max(1, n - 1), n, n + 2]),
              'seed': rng.choice([0, 1, rng.randrange(2**31)]), 'passes': rng.randrange(1, 5),
              'fd': rng.choice(['inmem', 'subset'])}
    if k == 'srb':
      bs = rng.randrange(1, 6)
      sizes = [rng.choice([0, 1, 2, 3, bs, 2 * bs + 1]) for _ in range(rng.randrange(1, 6))]
      if sum(sizes) == 0:
        sizes[rng.randrange(len(sizes))] = rng.randrange(1, 5)
      return {'k': 'srb', 'sizes': sizes, 'bs': bs, 'Bc': rng.choice([1, 2, 3, len(sizes) + 1]),
              'Be': rng.choice([1, 1, 2, 4, sum(sizes) + 2]), 'seed': rng.choice([0, rng.randrange(2**31)]),
              'steps': rng.randrange(1, 3 * (sum(sizes) // bs + 2))}
    n = rng.choice([0, 1, 2, 3, 5])
    base = rng.choice(['list', 'tuple', 'dict', 'str', 'bytes', 'gen', 'range', 'iter', 'map',
                       'oneshot_iterable', 'reshuffling_iterable'])
    item = {'k': 'rep', 'base': base, 'n': n, 'ops': rng.randrange(0, 4 * (n + 1) + 2)}
    if base not in ('str', 'bytes', 'range') and n and rng.random() < 0.75:
      item['pool'] = self._pool_codes(rng, n, base == 'dict')
    return item

  @staticmethod
  def _pool_codes(rng, n, hashable_distinct=False):
    """n distinct POOL indices; None (code 0) and the other falsy values at random positions incl. first/last/only."""
    codes = list(POOL_DICT) if hashable_distinct else list(range(len(POOL)))
    rng.shuffle(codes)
    codes = codes[:n]
    if codes and 0 not in codes and rng.random() < 0.6:
      codes[rng.choice([0, len(codes) - 1, rng.randrange(len(codes))])] = 0
    return codes

  def gen_cases(self, rng, tier):
    seeds = [rng.randrange(2**31) for _ in range(8)]
    yield {'items': [{'k': 'order', 'n': 8, 'B': 3, 'seeds': seeds}]}
    yield {'items': [{'k': 'order', 'n': 12, 'B': 12, 'seeds': seeds[:5]}]}
    # exhaustive small scope for the carry-over buffer: all size sequences of length <= L over 0..M
    if tier == 'thorough':
      scopes = [(1, 6, 3), (2, 5, 5), (3, 4, 7), (4, 3, 9), (5, 3, 11), (2, 7, 2)]
    else:
      scopes = [(1, 3, 2), (2, 3, 4), (3, 2, 7), (3, 3, 4)]
    for bs, L, M in scopes:
      batch = []
      for l in range(0, L + 1):
        for sizes in itertools.product(range(M + 1), repeat=l):
          batch.append({'k': 'multi', 'bs': bs, 'B': 1 + (sum(sizes) + l) % 3, 'sizes': list(sizes),
                        'tags': [[0, 0]] * l, 'extra': False, 'pre': False, 'via': 'list'})
          if len(batch) == 120:
            yield {'items': batch}
            batch = []
      if batch:
        yield {'items': batch}
    # RepeatableIterator: every base kind x small n x every number of next() calls
    reps = [{'k': 'rep', 'base': b, 'n': n, 'ops': 3 * (n + 1) + 1}
            for b in ('list', 'tuple', 'dict', 'str', 'bytes', 'gen', 'range', 'iter', 'map',
                      'oneshot_iterable', 'reshuffling_iterable') for n in (0, 1, 2, 4)]
    yield {'items': reps}
    # … and items that are None / falsy / nested at the first, a middle, the last and the only position
    reps = []
    for b in ('list', 'tuple', 'dict', 'gen', 'iter', 'map', 'oneshot_iterable', 'reshuffling_iterable'):
      for pool in ([0], [0, 10], [10, 0], [10, 0, 7], [1, 3, 4, 0, 6], [2, 5, 8], [9, 16, 0]):
        if b == 'dict' and len({POOL[c] for c in pool}) != len(pool):
          continue
        reps.append({'k': 'rep', 'base': b, 'n': len(pool), 'ops': 3 * (len(pool) + 1) + 1, 'pool': pool})
    yield {'items': reps}
    yield {'items': [{'k': 'bshuf', 'n': n, 'B': B, 'seed': seeds[0], 'src': src, 'vals': [[w, c] for w, c in vals]}
                     for n, vals in ((1, [(0, 0)]), (3, [(0, 0), (2, 1)]), (5, [(4, 0), (1, 3), (2, 4)]),
                                     (6, [(2, 0), (0, 2), (5, 6), (3, 5)]))
                     for B in (1, 2, n, n + 2) for src in ('list', 'gen')]}
    n_cases = 800 if tier == 'quick' else 9000
    for _ in range(n_cases):
      yield {'items': [self._gen_item(rng) for _ in range(10)]}

  def shrink(self, case):
    items = case['items']
    if len(items) > 1:
      for i in self._failing.get(core.case_digest(case), [])[:3]:
        yield {'items': [items[i]]}
      for it in items[:40]:
        yield {'items': [it]}
      return
    it = items[0]
    k = it['k']
    if k == 'order':
      return
    for key in ('extra', 'pre'):
      if it.get(key):
        yield {'items': [{**it, key: False}]}
    if it.get('via') in ('gen', 'fd'):
      yield {'items': [{**it, 'via': 'list'}]}
    if 'sizes' in it:
      sizes = it['sizes']
      for i in range(len(sizes)):
        if len(sizes) > 1 or k != 'srb':
          new = sizes[:i] + sizes[i + 1:]
          if k == 'srb' and sum(new) == 0:
            continue
          cand = {**it, 'sizes': new}
          if 'tags' in it:
            cand['tags'] = it['tags'][:i] + it['tags'][i + 1:]
          yield {'items': [cand]}
      for i, s in enumerate(sizes):
        for x in sorted({0, s // 2, s - 1}):
          if 0 <= x < s and not (k == 'srb' and sum(sizes) - s + x == 0):
            yield {'items': [{**it, 'sizes': sizes[:i] + [x] + sizes[i + 1:]}]}
    if it.get('pool'):
      pool = it['pool']
      for i in range(len(pool)):
        yield {'items': [{**it, 'pool': pool[:i] + pool[i + 1:], 'n': len(pool) - 1}]}
      for i, c in enumerate(pool):
        if c != 10 and 10 not in pool:
          yield {'items': [{**it, 'pool': pool[:i] + [10] + pool[i + 1:]}]}
    if it.get('vals'):
      for i in range(len(it['vals'])):
        yield {'items': [{**it, 'vals': it['vals'][:i] + it['vals'][i + 1:]}]}
    for key, lo in (('bs', 1), ('B', 1), ('Bc', 1), ('Be', 1), ('n', 1 if k == 'clients' else 0), ('ops', 0),
                    ('steps', 1), ('passes', 1)):
      if key in it:
        v = it[key]
        for x in sorted({lo, v // 2, v - 1}):
          if lo <= x < v:
            cand = {**it, key: x}
            if key == 'n' and 'pool' in it:
              cand['pool'] = it['pool'][:x]
            if key == 'n' and 'vals' in it:
              cand['vals'] = [v2 for v2 in it['vals'] if v2[0] < x]
            yield {'items': [cand]}
    if it.get('seed') not in (None, 0):
      yield {'items': [{**it, 'seed': 0}]}

  # ------------------------------------------------------------------ helpers
  def _datasets(self, sizes, tags, extra, pre):
    """ClientDatasets with ids 1..T handed out consecutively; tags[i] = [preprocessor id, feature-set id]."""
    cds = self.cds
    fns = [lambda x: {**x, 'twice': x['id'] * 2}] if pre else []
    pres = {}
    out, start = [], 1
    for s, (p, f) in zip(sizes, tags):
      if p not in pres:
        pres[p] = cds.BatchPreprocessor(fns)       # equal functions, distinct object
      raw = {'id': np.arange(start, start + s, dtype=np.int32)}
      if extra:
        raw['x'] = (np.arange(start, start + s, dtype=np.float32) * 0.5).reshape(s, 1).repeat(2, axis=1)
      if f:
        raw['other'] = np.zeros((s,), np.int8)
      out.append(cds.ClientDataset(raw, pres[p]))
      start += s
    return out

  @staticmethod
  def _collect(gen, limit=None):
    out, err = [], None
    try:
      for b in (gen if limit is None else itertools.islice(gen, limit)):
        out.append(b)
    except ValueError:
      err = 'ValueError'
    except Hang:
      raise
    except Exception as e:   # pylint: disable=broad-except
      err = type(e).__name__
    return out, err

  def _recorded(self, rec, n_expected=None):
    """Model line + expected emitted positions for one recorded buffered_shuffle call (or None)."""
    B = rec['B']
    if rec['other'] or len(rec['shuffles']) != 1 or any(r is None for r in rec['randints']):
      return None
    idx = rec['shuffles'][0]
    n = len(rec['src'])
    if sorted(idx) != list(range(min(B, n))) or len(rec['randints']) != max(0, n - B):
      return None
    pos = {id(o): i for i, o in enumerate(rec['src'])}
    out = [pos.get(id(o), -1) for o in rec['out']]
    return line('c15.bshuffle', B, idx, rec['randints'], n), out

  # ------------------------------------------------------------------ item evaluators
  # each returns (problems, corr_checks) where corr_checks = [(line, expected_answer, label)]

  def _multi(self, it):
    cds, mask_key = self.cds, self.cds.EXAMPLE_MASK_KEY
    bs, B, sizes, tags = it['bs'], it['B'], it['sizes'], it['tags']
    problems = []
    dss = self._datasets(sizes, tags, it['extra'], it['pre'])
    first_bad = next((i for i in range(1, len(tags)) if tags[i] != tags[0]), None)
    via = it['via']
    if via == 'fd' and (first_bad is not None or not sizes or len({tuple(t) for t in tags}) > 1):
      via = 'list'
    HP = cds.PaddedBatchHParams
    # the three documented call forms; `other*` differ from the requested values in every overridden field
    forms = [('kwargs only', None, dict(batch_size=bs, num_batch_size_buckets=B)),
             ('hparams only', HP(batch_size=bs, num_batch_size_buckets=B), {}),
             ('hparams + overriding kwargs', HP(batch_size=bs + 2, num_batch_size_buckets=B % 4 + 1),
              dict(batch_size=bs, num_batch_size_buckets=B)),
             ('hparams + batch_size override', HP(batch_size=2 * bs + 1, num_batch_size_buckets=B), dict(batch_size=bs)),
             ('hparams + num_batch_size_buckets override', HP(batch_size=bs, num_batch_size_buckets=B + 1),
              dict(num_batch_size_buckets=B))]
    if via == 'fd':
      mapping = {b'%04d' % i: d.raw_examples for i, d in enumerate(dss)}
      fd = self.imfd.InMemoryFederatedData(mapping)
      if it['pre']:
        fd = fd.preprocess_batch(lambda x: {**x, 'twice': x['id'] * 2})
      entry = 'padded_batch_federated_data'
      call = lambda hp, kw: self.fdm.padded_batch_federated_data(fd, hp, **kw)
    else:
      entry = 'padded_batch_client_datasets'
      call = lambda hp, kw: cds.padded_batch_client_datasets(dss if via == 'list' else (d for d in dss), hp, **kw)
    view = lambda got: [[[int(i) for i in b['id']], [bool(m) for m in b[mask_key]]] for b in got]
    got, err = self._collect(call(forms[0][1], forms[0][2]))
    obs = view(got)
    for name, hp, kw in forms[1:]:
      g2, e2 = self._collect(call(hp, kw))
      if (view(g2), e2) != (obs, err):
        problems.append(f'{entry}: call form "{name}" (effective batch_size={bs}, num_batch_size_buckets={B}) gives '
                        f'{str(view(g2))[:120]} {e2 or ""}, the keyword form gives {str(obs)[:120]} {err or ""}')
        break
    if via == 'fd':
      # the federated-data entry point is the client-datasets one over fd.clients()
      g2, e2 = self._collect(cds.padded_batch_client_datasets(
          (d for _, d in fd.clients()), batch_size=bs, num_batch_size_buckets=B))
      if (view(g2), e2) != (obs, err):
        problems.append('padded_batch_federated_data differs from padded_batch_client_datasets over fd.clients()')
    # ---- independent oracle
    upto = len(sizes) if first_bad is None else first_bad
    ids = list(range(1, sum(sizes[:upto]) + 1))
    if first_bad is not None:
      if err != 'ValueError':
        problems.append(f'dataset {first_bad} has a different {"preprocessor" if tags[first_bad][0] != tags[0][0] else "feature set"} '
                        f'than dataset 0 but the stream ended with {err or "no error"}')
    elif err is not None:
      problems.append(f'consistent datasets rejected with {err}')
    real = []
    for j, (rows, mask) in enumerate(obs):
      r = sum(mask)
      last = j == len(obs) - 1 and err is None
      if mask != [True] * r + [False] * (len(mask) - r):
        problems.append(f'batch {j}: mask is not a prefix {mask}')
      if len(rows) != len(mask):
        problems.append(f'batch {j}: {len(rows)} rows but mask of {len(mask)}')
      if not last and (r != bs or len(mask) != bs):
        problems.append(f'batch {j} is not the last one but has {r} real rows of {len(mask)} (batch_size {bs})')
      if last and r == 0:
        continue        # an all-padding final batch: the property fixes neither its presence nor its size
      if last and (r > bs or len(mask) != pick_final_ref(r, bs, B)):
        problems.append(f'final batch: {r} real rows in size {len(mask)}, bucket rule gives {pick_final_ref(min(r, bs), bs, B)}')
      real.extend(rows[:r])
      b = got[j]
      for kf, v in b.items():
        if kf == mask_key:
          continue
        if len(v) != len(mask) or np.any(np.asarray(v[r:]) != 0):
          problems.append(f'batch {j}: feature {kf} padded rows are not zero / wrong length')
      idr = np.asarray(b['id'][:r])
      if 'x' in b and not np.array_equal(b['x'][:r], (idr.astype(np.float32) * 0.5).reshape(-1, 1).repeat(2, axis=1)):
        problems.append(f'batch {j}: feature x is not row-aligned with id')
      if 'twice' in b and not np.array_equal(b['twice'][:r], idr * 2):
        problems.append(f'batch {j}: preprocessor output is not row-aligned')
      if it['pre'] and 'twice' not in b:
        problems.append(f'batch {j}: preprocessor not applied')
    if err is None and real != ids:
      problems.append(f'unpadded stream {real} != concatenation of the datasets {ids}')
    if err is not None and real != ids[:len(real)]:
      problems.append(f'batches before the error {real} are not a prefix of the concatenation')
    if not sizes and obs:
      problems.append('no client but a batch was produced')
    ln = line('c15.multichk', bs, B, [[t[0], t[1], s] for t, s in zip(tags, sizes)])
    return problems, [(ln, ('multi', obs, err is not None), 'padded_batch_client_datasets')], \
        {'impl': obs, 'error': err, 'nb': len(obs)}

  def _bshuf(self, it):
    n, B, seed = it['n'], it['B'], it['seed']
    if self._orig_bs is None:       # the helper is not part of the property's observation points
      return [], [], {'impl': None, 'nb': 0}
    items = [Boxed(i) for i in range(n)]
    for w, c in it.get('vals', []):
      if w < n:
        items[w] = POOL[c]
    where = {id(o): i for i, o in enumerate(items)}
    mk = {'list': lambda: list(items), 'tuple': lambda: tuple(items), 'gen': lambda: (x for x in items),
          'iter': lambda: iter(items)}[it['src']]
    problems, checks = [], []
    self.calls.clear()
    out = [where.get(id(o), -1) for o in self.cds.buffered_shuffle(mk(), B, np.random.RandomState(seed))]
    recs = list(self.calls)
    self.calls.clear()
    out2 = [where.get(id(o), -1) for o in self._orig_bs(mk(), B, np.random.RandomState(seed))]
    if sorted(out) != list(range(n)):
      problems.append(f'buffered_shuffle(range({n}), {B}) emitted {out}: not every item exactly once')
    if out2 != out:
      problems.append('same seed, different order')
    if len(recs) == 1:
      r = self._recorded(recs[0])
      if r:
        checks.append((r[0], out, 'order:buffered_shuffle'))
    return problems, checks, {'impl': out, 'nb': n}

  def _bsb(self, it):
    cds = self.cds
    bs, B, sizes, tags, seed = it['bs'], it['B'], it['sizes'], it['tags'], it['seed']
    dss = self._datasets(sizes, tags, True, True)
    first_bad = next((i for i in range(1, len(tags)) if tags[i] != tags[0]), None)
    problems, checks = [], []
    self.calls.clear()
    got, err = self._collect(cds.buffered_shuffle_batch_client_datasets(
        iter(dss), batch_size=bs, buffer_size=B, rng=np.random.RandomState(seed)))
    recs = list(self.calls)
    self.calls.clear()
    got2, err2 = self._collect(cds.buffered_shuffle_batch_client_datasets(      # positional call form
        dss, bs, B, np.random.RandomState(seed)))
    self.calls.clear()
    obs = [[int(i) for i in b['id']] for b in got]
    if (obs, err) != ([[int(i) for i in b['id']] for b in got2], err2):
      problems.append('same seed, different stream (keyword vs positional call form)')
    T = sum(sizes)
    if first_bad is not None:
      if err != 'ValueError':
        problems.append(f'dataset {first_bad} mismatches dataset 0 but the stream ended with {err or "no error"}')
      flat = [i for b in obs for i in b]
      if len(set(flat)) != len(flat) or any(not 1 <= i <= T for i in flat):
        problems.append(f'examples duplicated before the error: {flat}')
    else:
      if err is not None:
        problems.append(f'consistent datasets rejected with {err}')
      flat = [i for b in obs for i in b]
      if sorted(flat) != list(range(1, T + 1)):
        problems.append(f'one pass emitted {sorted(flat)}: not every example of every client exactly once (T={T})')
      for j, b in enumerate(obs):
        if (j < len(obs) - 1 and len(b) != bs) or not 1 <= len(b) <= bs:
          problems.append(f'batch {j} has {len(b)} rows (batch_size {bs}, {len(obs)} batches)')
      want_feats = {'id', 'x', 'twice'} | ({'other'} if tags and tags[0][1] else set())
      for j, b in enumerate(got):
        if set(b) != want_feats or not np.array_equal(b['twice'], b['id'] * 2) or \
            not np.array_equal(b['x'][:, 0], b['id'].astype(np.float32) * 0.5) or any(len(v) != len(b['id']) for v in b.values()):
          problems.append(f'batch {j}: features are not row-aligned / preprocessor not applied')
          break
      if len(recs) == 1:
        r = self._recorded(recs[0])
        if r and len(recs[0]['src']) == T:
          checks.append((line('c15.bsb', bs, B, recs[0]['shuffles'][0], recs[0]['randints'], sizes), obs,
                         'order:buffered_shuffle_batch_client_datasets'))
    return problems, checks, {'impl': obs, 'error': err, 'nb': len(obs)}

  def _make_fd(self, sizes, kind='inmem'):
    mapping = {}
    start = 1
    for i, s in enumerate(sizes):
      mapping[b'c%03d' % i] = {'id': np.arange(start, start + s, dtype=np.int32)}
      start += s
    if kind == 'subset':
      extra = {b'a000': {'id': np.zeros((2,), np.int32)}, b'z999': {'id': np.zeros((1,), np.int32)}}
      base = self.imfd.InMemoryFederatedData({**mapping, **extra})
      return self.fdm.SubsetFederatedData(base, list(mapping)), sorted(mapping)
    return self.imfd.InMemoryFederatedData(mapping), sorted(mapping)

  def _clients(self, it):
    n, B, seed, passes = it['n'], it['B'], it['seed'], it['passes']
    fd, ids = self._make_fd([1 + (i % 3) for i in range(n)], it['fd'])
    problems, checks = [], []
    self.calls.clear()
    out = [cid for cid, _ in itertools.islice(fd.shuffled_clients(B, seed), passes * n)]
    recs = list(self.calls)
    self.calls.clear()
    out2 = [cid for cid, _ in itertools.islice(fd.shuffled_clients(buffer_size=B, seed=seed), passes * n)]
    self.calls.clear()
    if out2 != out:
      problems.append('same seed, different client order (positional vs keyword call form)')
    pos = {c: i for i, c in enumerate(ids)}
    for p in range(passes):
      w = out[p * n:(p + 1) * n]
      if sorted(w) != ids:
        problems.append(f'pass {p} over {n} clients (buffer {B}) yields {w}: not every client exactly once')
        break
    # exact: every complete recorded pass is the model's bufferedShuffle on the recorded draws
    for p, rec in enumerate(recs[:passes]):
      r = self._recorded(rec)
      if r and len(rec['src']) == n and len(rec['out']) == n:
        checks.append((r[0], r[1], f'order:shuffled_clients pass {p}'))
    return problems, checks, {'impl': [c.decode() for c in out], 'nb': len(out)}

  def _srb(self, it):
    sizes, bs, Bc, Be, seed, steps = (it[k] for k in ('sizes', 'bs', 'Bc', 'Be', 'seed', 'steps'))
    fd, ids = self._make_fd(sizes)
    T = sum(sizes)
    problems, checks = [], []
    self.calls.clear()
    got, err = self._collect(self.fdm.shuffle_repeat_batch_federated_data(fd, bs, Bc, Be, seed), steps)
    recs = list(self.calls)
    self.calls.clear()
    got2, _ = self._collect(self.fdm.shuffle_repeat_batch_federated_data(
        fd=fd, batch_size=bs, client_buffer_size=Bc, example_buffer_size=Be, seed=seed), steps)
    self.calls.clear()
    obs = [[int(i) for i in b['id']] for b in got]
    if obs != [[int(i) for i in b['id']] for b in got2]:
      problems.append('same seed, different stream (positional vs keyword call form)')
    if err is not None or len(obs) != steps:
      problems.append(f'infinite stream ended after {len(obs)} of {steps} batches ({err})')
    for j, b in enumerate(obs):
      if len(b) != bs:
        problems.append(f'batch {j} has {len(b)} rows, batch_size {bs}')
        break
    flat = [i for b in obs for i in b]
    if any(not 1 <= i <= T for i in flat):
      problems.append(f'unknown example ids in {flat}')
    # conservation: every example is emitted at most once per pass consumed, and a prefix of the stream cannot
    # run ahead of full passes: after m draws each example was used between floor((m - Be)/T) - 1 … hmm: the
    # exact statement needs the client stream; the unconditional one is the upper bound below.
    m = len(flat)
    maxuse = -(-(m + Be) // T) if T else 0
    for i in set(flat):
      if flat.count(i) > maxuse:
        problems.append(f'example {i} emitted {flat.count(i)} times within {m} draws (T={T}, buffer {Be}): '
                        f'more than once per pass')
        break
    ex_recs = [r for r in recs if r['src'] and isinstance(r['src'][0], tuple) and len(r['src'][0]) == 2
               and isinstance(r['src'][0][0], dict)]
    cl_recs = [r for r in recs if r not in ex_recs]
    try:
      src_ids = [int(e['id'][i]) for e, i in ex_recs[0]['src']] if len(ex_recs) == 1 else None
    except Exception:   # pylint: disable=broad-except   (items of another shape: internals are free to change)
      src_ids = None
    if src_ids is not None:
      rec = ex_recs[0]
      # the example stream read so far is the concatenation of client passes, each a permutation of the clients
      pos_of = {}
      for e, i in rec['src']:
        pos_of.setdefault(id(e), len(pos_of))
      for p in range(len(src_ids) // T):
        w = src_ids[p * T:(p + 1) * T]
        if sorted(w) != list(range(1, T + 1)):
          problems.append(f'example source pass {p} is {w}: not every example exactly once')
          break
      # conservation w.r.t. the source: the t-th emitted example is among the first Be+t read
      from collections import Counter
      have, k = Counter(), 0
      for t, x in enumerate(flat):
        while k < min(len(src_ids), Be + t):
          have[src_ids[k]] += 1
          k += 1
        if have[x] <= 0:
          problems.append(f'example {x} emitted at draw {t} is not among the {Be + t} examples read so far '
                          '(lost/duplicated by the example-level shuffle)')
          break
        have[x] -= 1
      r = self._recorded({**rec, 'out': rec['out']})
      if r is None and not rec['other'] and len(rec['shuffles']) == 1:
        # infinite stream: one more item may have been read than draws were made; rebuild the line by hand
        n = len(rec['src'])
        idx = rec['shuffles'][0]
        if sorted(idx) == list(range(min(Be, n))) and len(rec['randints']) in (max(0, n - Be), max(0, n - Be - 1)):
          n2 = min(Be, n) + len(rec['randints'])
          pos = {id(o): i for i, o in enumerate(rec['src'])}
          r = (line('c15.bshuffle', Be, idx, rec['randints'], n2), [pos.get(id(o), -1) for o in rec['out']])
      if r:
        checks.append((r[0], ('prefix', r[1]), 'order:example-level shuffle of shuffle_repeat_batch_federated_data'))
    n = len(sizes)
    for p, rec in enumerate(cl_recs):
      if len(rec['src']) == n and len(rec['out']) == n:
        r = self._recorded(rec)
        if r:
          checks.append((r[0], r[1], f'order:client-level pass {p}'))
    return problems, checks, {'impl': obs, 'nb': len(obs)}

  @staticmethod
  def _odd_iterable(kind, vals):
    """Iterables that are NOT iterators and whose own iteration is not repeatable: the first pass of a
    RepeatableIterator must be buffered and replayed, never re-iterated from the base."""
    class OneShot:      # e.g. a reader draining a queue: the second __iter__ finds nothing
      def __init__(self):
        self.left = list(vals)
      def __iter__(self):
        while self.left:
          yield self.left.pop(0)
    class Reshuffling:  # e.g. shuffle_repeat_batch(seed=None): every __iter__ gives another order
      def __init__(self):
        self.k = 0
      def __iter__(self):
        k = self.k
        self.k += 1
        return iter(vals[k % max(1, len(vals)):] + vals[:k % max(1, len(vals))])
    return OneShot if kind == 'oneshot_iterable' else Reshuffling

  def _rep(self, it):
    n, ops = it['n'], it['ops']
    kind = it['base']
    vals = list(range(n))
    if it.get('pool') is not None and kind not in ('str', 'bytes', 'range'):
      vals = [POOL[c] for c in it['pool']]
      n = len(vals)
    mk = {'list': lambda: vals, 'tuple': lambda: tuple(vals), 'dict': lambda: {v: str(v) for v in vals},
          'str': lambda: ''.join(chr(97 + v) for v in vals), 'bytes': lambda: bytes(vals),
          'gen': lambda: (v for v in vals), 'range': lambda: range(n), 'iter': lambda: iter(vals),
          'map': lambda: map(lambda v: v, vals),
          'oneshot_iterable': self._odd_iterable('oneshot_iterable', vals),
          'reshuffling_iterable': self._odd_iterable('reshuffling_iterable', vals)}[kind]
    base = mk()
    if kind == 'str':
      canon = lambda x: ord(x) - 97
    elif 'pool' in it and kind not in ('bytes', 'range'):
      canon = lambda x: position_of(x, vals)      # items identify their position (POOL entries are distinct)
    else:
      canon = int
    ri = self.fdm.RepeatableIterator(base)
    out = []
    for _ in range(ops):
      try:
        out.append(canon(next(ri)))
      except StopIteration:
        out.append('stop')
    problems = []
    cyc = list(range(n)) + ['stop']
    want = [cyc[t % len(cyc)] for t in range(ops)]
    if out != want:
      problems.append(f'RepeatableIterator({kind} of {vals!r}) {ops} next() calls yield positions {out}, every pass '
                      f'should replay the {n} items in order then stop: {want}')
    # whole passes through the for-protocol
    ri2 = self.fdm.RepeatableIterator(mk())
    p1, p2, p3 = list(ri2), list(ri2), list(ri2)
    if not ([canon(x) for x in p1] == [canon(x) for x in p2] == [canon(x) for x in p3] == list(range(n))):
      problems.append(f'list(it) three times over {kind} {vals!r}: {p1!r} {p2!r} {p3!r}')
    mkind = 'container' if kind in ('list', 'tuple', 'dict', 'str', 'bytes') else 'iterable'
    return problems, [(line('c15.repiter', mkind, n, ops), out, 'RepeatableIterator')], {'impl': out, 'nb': ops}

  def _order(self, it):
    """Non-trivial order, judged over many passes so that an honest implementation cannot trip it."""
    n, B = it['n'], it['B']
    fd, ids = self._make_fd([1] * n)
    passes = same = 0
    firsts = set()
    for seed in it['seeds']:
      out = [cid for cid, _ in itertools.islice(fd.shuffled_clients(B, seed), 3 * n)]
      firsts.add(tuple(out[:n]))
      for p in range(3):
        passes += 1
        same += out[p * n:(p + 1) * n] == ids
    self.calls.clear()
    problems = []
    if passes >= 6 and 2 * same >= passes:
      problems.append(f'shuffled_clients(buffer {B}) over {n} clients: {same} of {passes} passes are in the input '
                      'order: no shuffling')
    return problems, [], {'impl': {'passes': passes, 'identical': same, 'distinct_first_passes': len(firsts)}, 'nb': passes}

  # ------------------------------------------------------------------ evaluation
  def evaluate(self, case, ctx):
    if 'run_level_monitor' in case:
      return Outcome(nontrivial=False)
    items = case['items']
    problems, corr, tags, lines, owners, details = [], [], [], [], [], []
    bad = []
    fn = {'multi': self._multi, 'bshuf': self._bshuf, 'bsb': self._bsb, 'clients': self._clients,
          'srb': self._srb, 'rep': self._rep, 'order': self._order}
    done = 0
    try:
      with watchdog(40 + 0.1 * len(items)):
        for i, it in enumerate(items):
          self.calls.clear()
          try:
            pr, checks, det = fn[it['k']](it)
          except Hang:
            raise
          except Exception as e:   # pylint: disable=broad-except  (the real code raised where it must not)
            pr, checks, det = [f'raised {type(e).__name__}: {str(e)[:120]}'], [], {'impl': None, 'nb': 0}
          done += 1
          details.append(det)
          if pr:
            bad.append(i)
            problems.append(f'{self._fmt(it)}: ' + '; '.join(pr[:3]))
          for ln, want, label in checks:
            lines.append(ln)
            owners.append((i, want, label))
          if not checks and it['k'] in ('bshuf', 'clients'):
            ctx.count('unrecorded_rng_pattern')
          tags.extend(self._tags(it, det))
    except Hang:
      it = items[done]
      self._failing[core.case_digest(case)] = [done]
      return Outcome(oracle_fail=f'{self._fmt(it)}: does not terminate (killed by the watchdog)', key='C15/hang',
                     tags=tuple(tags), detail={'item': it})
    finally:
      self.calls.clear()
    ans = ctx.drv.ask(lines)
    for (i, want, label), a in zip(owners, ans):
      if isinstance(want, tuple) and want[0] == 'multi':
        # observation function of the property: the error flag; without error the batches up to a trailing
        # all-padding batch (whose presence the property leaves open); batches yielded before an error are
        # judged by the oracle only (when the error surfaces is not fixed)
        strip = lambda bl: bl[:-1] if bl and not any(bl[-1][1]) else bl
        ok = isinstance(a, list) and len(a) == 2 and a[1] == want[2] and (want[2] or strip(a[0]) == strip(want[1]))
        want = [want[1], want[2]]
      elif isinstance(want, tuple) and want[0] == 'prefix':
        ok = isinstance(a, list) and a[:len(want[1])] == want[1]
        want = want[1]
      else:
        ok = a == want
      if label.startswith('order:'):
        # The exact emitted ORDER of a shuffle is below the property's observation level (it fixes: each item once
        # per pass, reproducible, non-trivial).  Agreement of the real order with the Lean `bufferedShuffle` run on
        # the recorded shuffle result and randint draws is reported in the evidence, never raised as a failure.
        ctx.count('exact_order_agree' if ok else 'exact_order_differs')
        continue
      if not ok:
        corr.append(f'{self._fmt(items[i])}: {label}: model {str(a)[:160]} vs impl {str(want)[:160]}')
        if i not in bad:
          bad.append(i)
    ctx.count('items', len(items))
    ctx.count('model_comparisons', len(lines))
    if bad:
      self._failing[core.case_digest(case)] = bad
    nontrivial = any((it['k'] in ('multi', 'bsb', 'srb') and d['nb'] >= 2) or
                     (it['k'] in ('bshuf', 'clients') and it['n'] >= 3) or (it['k'] == 'rep' and it['ops'] > it['n'] + 1)
                     or it['k'] == 'order' for it, d in zip(items, details))
    detail = None
    if bad:
      detail = {'item': items[bad[0]], 'observed': details[bad[0]] if bad[0] < len(details) else None}
    key = None
    if problems:
      key = 'C15/' + items[bad[0]]['k']
    return Outcome(oracle_fail='; '.join(problems[:3]) or None, corr_fail='; '.join(corr[:3]) or None,
                   nontrivial=nontrivial, tags=tuple(tags), detail=detail, key=key)

  @staticmethod
  def _fmt(it):
    return ' '.join(f'{k}={v}' for k, v in it.items())

  @staticmethod
  def _tags(it, det):
    k = it['k']
    t = [f'kind={k}']
    if k == 'multi':
      bs = it['bs']
      for s in it['sizes']:
        t.append('size:' + ('0' if s == 0 else '<bs' if s < bs else '=bs' if s == bs else 'k*bs' if s % bs == 0 else '>bs'))
      t.append('multi:' + ('error' if det.get('error') else 'ok'))
      t.append('multi:clients=' + ('0' if not it['sizes'] else '1' if len(it['sizes']) == 1 else '2+'))
      t.append(f'multi:via={it["via"]}')
    elif k in ('bshuf', 'clients'):
      t.append(f'{k}:B' + ('=1' if it['B'] == 1 else '>n' if it['B'] > it['n'] else '=n' if it['B'] == it['n'] else '<n'))
      if it.get('vals'):
        t.append('bshuf:items=' + ('with-None' if any(c == 0 for _, c in it['vals']) else 'falsy/nested'))
    elif k == 'rep':
      t.append(f'rep:{it["base"]}')
      if it.get('pool'):
        pool = it['pool']
        t.append('rep:items=' + ('None-only' if pool == [0] else 'None-first' if pool[0] == 0 else
                                 'None-last' if pool[-1] == 0 else 'None-middle' if 0 in pool else 'falsy/nested'))
    elif k == 'bsb':
      t.append('bsb:' + ('error' if det.get('error') else 'ok'))
    return t


PROPERTY = C15
