"""C07 — aggregation is the exact weighted mean and never harms its inputs; clipping by global norm."""
import itertools
import json
import math
import os
import subprocess
import sys
import warnings
from fractions import Fraction

import numpy as np

from vlib import core
from vlib.core import Outcome, line

def F(*a):
  return Fraction(*a)


SHAPES = [[], [3], [2, 2], [1], [2, 0]]
KINDS = ['jf32', 'ji32', 'nf32', 'nf64', 'ni32']
WEIGHT_POOL = [0, 1, 2, 0.5, 3, 0.25, 5, 10, 100]
FORMS = ['list', 'gen', 'iter', 'tuple', 'map']
WKINDS = ['float', 'int', 'np32', 'jnp']
# weight objects for tree_mean / mean_aggregator: python and numpy scalars (narrow integer types whose TOTAL leaves their
# range), 0-d and (1,)-shaped numpy arrays (mutable: the caller's weight objects are inputs too), jax scalars
WKINDS_MEAN = ['float', 'int', 'np32', 'jnp', 'float', 'int', 'np64', 'npi64', 'npu8', 'npi16', 'nd0', 'nd0', 'nd1', 'nd1']
INT_WKINDS = ('int', 'npi64', 'npu8', 'npi16')
NARROW_POOL = {'npu8': [200, 100, 100, 150, 255, 0, 1, 50], 'npi16': [30000, 2000, 1000, 20000, 0, 1, 32767]}
CONTAINERS = ['dict', 'nested', 'tuple']
# integer vectors with integer euclidean norm (so float32 sqrt and the rational model agree exactly)
PYTHAG = [[3, 4], [1, 2, 2], [2, 3, 6], [1, 4, 8], [4, 4, 7], [2, 6, 9], [6, 6, 7], [1, 1, 1, 1],
          [2, 4, 5, 6], [1], [5, 12], [8, 15], [1, 2, 2, 4, 10], [0, 0, 0]]




def size_of(shape):
  n = 1
  for s in shape:
    n *= s
  return n


# dyadic rescalings of the trees (exponent of 2).  Tiny scales reach norms of ~1e-12 (2^-40); float32 squared
# norms are still normal numbers there (>= ~1e-25; they underflow only below norm ~1e-19), so every clause can
# be judged relative to the tree's own magnitude.  2^+20 gives norms ~1e7 (squares ~1e14, far below overflow).
SCALES_TINY = [-20, -24, -30, -36, -40]
SCALE_BIG = 20
# bound / norm for the clip cases: clearly and just above / below the norm, and at it
FACTORS_EXACT = [F(1, 2), F(1), F(2), F(1, 4), F(3, 2), F(1), F(1, 8), F(16), F(1025, 1024), F(1023, 1024),
                 F(1025, 1024), F(5, 4)]
FACTORS_FLOAT = [0.5, 0.99, 1.01, 1.5, 2.0, 0.125, 8.0, 1.01, 1.05]


# per-client leaf dtypes for the mixed-dtype cases (jax arrays); values of these cases are small integers, so
# every input is exactly representable in each of them
MIXED_KINDS = ['ji32', 'jbf16', 'jf16', 'jf32']
DTYPE_EPS = {'bf16': 2.0 ** -8, 'f16': 2.0 ** -11}
INF_BOUNDS = ['pyinf', 'jnpinf', 'npinf', 'big']      # 'big' = the python float 1e39, which overflows float32

# float64 probe: run in ONE subprocess with JAX_ENABLE_X64=1 (the harness process itself is in float32 mode).
# argv[1] = repo path; stdin = JSON list of sub-cases; stdout = JSON list of results.
X64_SCRIPT = r"""
import json, sys, warnings
warnings.filterwarnings('ignore')
sys.path.insert(0, sys.argv[1])
import numpy as np
import jax, jax.numpy as jnp
from fedjax.core import tree_util
from fedjax.aggregators import aggregator
subs = json.load(sys.stdin)
res = []
for sc in subs:
  r = {'out': None, 'err': None, 'deleted': False, 'changed': False, 'dtype': None, 'x64': bool(jax.config.jax_enable_x64)}
  try:
    trees = [{'a': jnp.array(np.array(t[0], dtype=np.float64)), 'b': jnp.array(np.float64(t[1]))} for t in sc['trees']]
    snaps = [[np.array(l, copy=True) for l in jax.tree_util.tree_leaves(t)] for t in trees]
    fn = sc['fn']
    if fn == 'sum':
      out = tree_util.tree_sum(iter(trees))
    elif fn == 'mean':
      out = tree_util.tree_mean((t, w) for t, w in zip(trees, sc['weights']))
    elif fn == 'agg':
      ag = aggregator.mean_aggregator()
      out, _ = ag.apply([(b'c%d' % i, t, w) for i, (t, w) in enumerate(zip(trees, sc['weights']))], ag.init())
    else:
      out = tree_util.tree_clip_by_global_norm(trees[0], sc['M'])
    leaves = jax.tree_util.tree_leaves(out)
    r['dtype'] = sorted({str(l.dtype) for l in leaves})
    r['out'] = [float(v) for v in np.asarray(out['a'], dtype=np.float64)] + [float(out['b'])]
    for t, sn in zip(trees, snaps):
      for l, c in zip(jax.tree_util.tree_leaves(t), sn):
        if l.is_deleted():
          r['deleted'] = True
        elif not np.array_equal(np.asarray(l), c):
          r['changed'] = True
  except Exception as e:
    r['err'] = type(e).__name__ + ': ' + str(e)[:160]
  res.append(r)
print('X64RESULT' + json.dumps(res))
"""


def tol(S, model):
  # purely relative (S and model carry the magnitude of the case); 1e-37 ~ smallest normal float32
  return 1e-5 * float(S) + 1e-4 * abs(float(model)) + 1e-37


def pow2(e):
  return Fraction(2) ** e


def exact_sqrt(q: Fraction):
  """Rational square root if q is a perfect square, else None."""
  if q < 0:
    return None
  a, b = math.isqrt(q.numerator), math.isqrt(q.denominator)
  if a * a == q.numerator and b * b == q.denominator:
    return Fraction(a, b)
  return None


class C07(core.Property):
  ID = 'C07'
  RULE = ('cases (op in tree_sum/tree_mean/mean_aggregator/tree_clip_by_global_norm/tree_weight/'
          'tree_inverse_weight; 1..6 clients; 1..3 leaves with shapes (),(3,),(2,2),(1,),(2,0); jax/numpy '
          'float32/float64/int32 leaves; weights incl. all-zero / single positive / equal; list, generator, iter, '
          'tuple, map inputs; a permutation of the clients; every tree kind also rescaled by 2^-20..2^-40 and 2^+20, '
          'mean weights by 2^-10/2^+10; clip bounds at, just above/below (x(1 +- 2^-10), +-1%) and far from the norm at every '
          'scale; every clause judged relative to the magnitude of the case; clients of one call with different leaf '
          'dtypes int32/bfloat16/float16/float32; infinite and float32-overflowing clip bounds; one float64 probe per run: '
          'a JAX_ENABLE_X64 subprocess running tree_sum/tree_mean/mean_aggregator/clip on float64 leaves with weights that '
          'are not float32-representable, judged at 1e-12 relative; weight objects of every kind - python/numpy scalars incl. '
          'uint8/int16 whose total leaves their range, 0-d and (1,)-shaped numpy arrays, jax scalars - snapshotted like the '
          'trees; trees with complex64 leaves (general, purely imaginary, mixed with real leaves) for clip / sum / mean / '
          'aggregator, judged on the realified (re, im) coordinates: norm, one real scale = phase unchanged, identity; '
          'aggregator calls with a placeholder id for all clients or repeated ids); non-trivial = every realistic wrong variant '
          '(unweighted mean, divide by count, no division, first tree only; for clip: identity, scale without '
          'min) differs from the right value by > 100x the comparison tolerance in some coordinate; '
          'distinct by case digest')
  TRUSTED = ['XLA float32 arithmetic (the model is exact over Rat; compared by tolerance 1e-5*S+1e-4*|model|)',
             'square root: the norm enters the model as an argument; the harness checks nrm^2 against the '
             "model's sum of squares (exact for the Pythagorean cases)",
             'buffer donation / aliasing / deletion are runtime behaviour: monitored on every case '
             '(value snapshots, is_deleted(), buffer pointers), not proved',
             'pytree flattening order and leaf shapes/dtypes are glue, exercised by the generator']
  ASSUMPTIONS = ['weights are non-negative finite numbers well inside the float32 range; all trees of a call '
                 'share one structure (the real code raises otherwise); clip bound > 0',
                 'float32 range: generated magnitudes stay in [2^-42, 2^24] so that products, squares (>= ~1e-25) and sums '
                 'are normal float32 numbers; below a global norm of ~1e-19 the squared norm underflows and above ~1e19 it '
                 'overflows - those ranges (and int32 leaves large enough to overflow vdot) are outside the exact model and '
                 'are not generated']
  QUICK_BUDGET_S = 100
  THOROUGH_BUDGET_S = 540

  def setup(self, ctx):
    warnings.filterwarnings('ignore')
    import jax
    import jax.numpy as jnp
    from fedjax.core import tree_util
    from fedjax.aggregators import aggregator
    self.jax, self.jnp, self.tu, self.agg = jax, jnp, tree_util, aggregator

  # ------------------------------------------------------------------------------------------ generation

  def _rand_vals(self, rng, n, kind, mode):
    if mode == 'zero':
      return [0] * n
    if kind.endswith('i32'):
      return [rng.randrange(-8, 9) for _ in range(n)]
    if mode == 'int':
      return [rng.randrange(-8, 9) for _ in range(n)]
    return [rng.randrange(-32, 33) / 4 for _ in range(n)]

  def _rand_spec(self, rng):
    nl = rng.choice([1, 1, 2, 3])
    spec = []
    for _ in range(nl):
      spec.append([rng.choice(SHAPES[:4] if rng.random() < 0.93 else SHAPES), rng.choice(KINDS if rng.random() < 0.5 else KINDS[:1])])
    if all(size_of(s) == 0 for s, _ in spec):
      spec[0][0] = [3]
    return spec

  def _rand_weights(self, rng, n):
    k = rng.randrange(7)
    if k == 0:
      return [0] * n
    if k == 1:
      ws = [0] * n
      ws[rng.randrange(n)] = rng.choice(WEIGHT_POOL[1:])
      return ws
    if k == 2:
      return [rng.choice(WEIGHT_POOL[1:])] * n
    if k == 3:
      return [rng.choice([0, 0, 1, 2]) for _ in range(n)]
    return [rng.choice(WEIGHT_POOL) for _ in range(n)]

  def _mean_case(self, rng, op=None):
    op = op or rng.choice(['mean', 'mean', 'agg', 'sum'])
    n = rng.choice([1, 1, 2, 2, 3, 4, 5, 6])
    mixed = rng.random() < 0.22
    if mixed:
      n = rng.choice([2, 2, 3, 4, 5])
      op = rng.choice(['sum', 'sum', 'mean', 'agg'])
    spec = self._rand_spec(rng)
    mode = rng.choice(['dyadic', 'dyadic', 'int', 'zero'] if rng.random() < 0.2 else ['dyadic', 'int'])
    trees = [[self._rand_vals(rng, size_of(s), k, mode) for s, k in spec] for _ in range(n)]
    if rng.random() < 0.1 and n >= 2:
      trees[1] = [list(l) for l in trees[0]]          # identical trees
    ws = self._rand_weights(rng, n)
    wkind = rng.choice(WKINDS if mixed else WKINDS_MEAN)
    if wkind == 'nd1' and any(len(s_) == 0 for s_, _ in spec):
      wkind = 'nd0'          # a (1,)-shaped weight would broadcast a scalar leaf to shape (1,)
    if wkind in NARROW_POOL:
      ws = [rng.choice(NARROW_POOL[wkind]) for _ in range(n)]
      if n >= 2 and rng.random() < 0.7:
        ws[0], ws[1] = NARROW_POOL[wkind][0], NARROW_POOL[wkind][1]     # the total leaves the range of the type
    elif wkind in INT_WKINDS:
      ws = [int(w) if float(w).is_integer() else int(w * 4) for w in ws]
    perm = list(range(n))
    rng.shuffle(perm)
    has_int = any(k.endswith('i32') for _, k in spec)
    scale = 0 if (has_int or rng.random() < 0.6) else rng.choice(SCALES_TINY + [SCALE_BIG])
    wscale = 0 if (wkind in INT_WKINDS or op == 'sum' or rng.random() < 0.75) else rng.choice([-10, 10])
    case = {'op': op, 'spec': spec, 'trees': trees, 'weights': ws, 'wkind': wkind,
            'form': rng.choice(FORMS), 'perm': perm, 'container': rng.choice(CONTAINERS),
            'as_numpy': [rng.random() < 0.15 for _ in range(n)], 'scale': scale, 'wscale': wscale}
    if op == 'agg' and n >= 2 and rng.random() < 0.45:
      # client ids are documented as unused by the mean aggregator: a placeholder id for everybody, or repeated ids
      # (sampling with replacement); every listed entry counts
      case['ids'] = [0] * n if rng.random() < 0.5 else [rng.randrange(max(1, n - 1)) for _ in range(n)]
    if mixed:
      # clients of one call with different leaf dtypes (small integer values: exact in every dtype)
      kinds = [rng.choice(MIXED_KINDS) for _ in range(n)]
      if rng.random() < 0.6:
        kinds[0] = rng.choice(MIXED_KINDS[:3])           # the running sum starts in a narrower / integer dtype ...
        kinds[rng.randrange(1, n)] = 'jf32'              # ... and a later client has the promoted dtype
      case.update({'spec': [[s_, 'jf32'] for s_, _ in spec], 'client_kinds': kinds, 'scale': 0, 'wscale': 0,
                   'as_numpy': [False] * n,
                   'trees': [[[rng.randrange(-4, 5) for _ in range(size_of(s_))] for s_, _ in spec] for _ in range(n)],
                   'weights': [rng.choice([0, 1, 2, 3] if wkind == 'int' else [0, 1, 2, 0.5, 3]) for _ in range(n)]})
      if rng.random() < 0.15:
        case['weights'] = [0] * n
    return case

  def _clip_case(self, rng):
    spec = self._rand_spec(rng)
    spec = [[s, k] for s, k in spec if size_of(s) > 0] or [[[3], 'jf32']]
    total = sum(size_of(s) for s, _ in spec)
    all_int = any(k.endswith('i32') for _, k in spec)
    kind = rng.randrange(4)
    if kind <= 1:      # exact norm
      base = list(rng.choice([p for p in PYTHAG if len(p) <= total] or [[1]]))
      base += [0] * (total - len(base))
      rng.shuffle(base)
      sc = 1 if all_int else rng.choice([1, 1, 2, 0.5, 0.25, 4])
      flat = [v * sc * rng.choice([1, -1]) for v in base]
    elif kind == 2:
      flat = [rng.randrange(-8, 9) for _ in range(total)]
    else:
      flat = [0] * total
    if all_int:
      flat = [int(v) for v in flat]
    nrm2 = sum(F(v) * F(v) for v in flat)
    ex = exact_sqrt(nrm2)
    # the tree is rescaled by 2^scale and the bound with it ('M' is the bound at scale 0): the relation
    # bound/norm is what the clauses depend on, at every magnitude
    r = rng.random()
    scale = 0 if (all_int or r < 0.4) else (SCALE_BIG if r < 0.5 else rng.choice(SCALES_TINY))
    if ex is not None and ex > 0:
      M = float(ex * rng.choice(FACTORS_EXACT))
    elif ex is None and (scale != 0 or rng.random() < 0.5):
      M = math.sqrt(nrm2) * rng.choice(FACTORS_FLOAT)     # >= 1% away from the (inexact) norm
    else:
      M = rng.choice([0.5, 1, 2, 3, 10, 1000, 0.125])
      if ex is None and abs(M - math.sqrt(nrm2)) < 1e-2 * M:
        M = M * 2
    M = float(np.float32(M))      # the bound the real code sees (a python float is rounded to float32)
    mkind = rng.choice(WKINDS)
    if mkind == 'int':
      if scale != 0:
        mkind = 'float'
      else:
        M = max(1, int(M))
    tree, i = [], 0
    for s, _ in spec:
      tree.append(flat[i:i + size_of(s)])
      i += size_of(s)
    case = {'op': 'clip', 'spec': spec, 'trees': [tree], 'M': M, 'mkind': mkind,
            'container': rng.choice(CONTAINERS), 'as_numpy': [rng.random() < 0.15], 'scale': scale}
    if rng.random() < 0.12:
      case['Minf'] = rng.choice(INF_BOUNDS)     # "no clipping": every tree is below an infinite bound
    return case

  def _weight_case(self, rng):
    spec = self._rand_spec(rng)
    tree = [self._rand_vals(rng, size_of(s), k, 'dyadic') for s, k in spec]
    op = rng.choice(['weight', 'invweight'])
    w = rng.choice(WEIGHT_POOL + [0, 4, 8])
    wkind = rng.choice(WKINDS)
    if wkind == 'int':
      w = int(w) if float(w).is_integer() else int(w * 4)
    has_int = any(k.endswith('i32') for _, k in spec)
    scale = 0 if (has_int or rng.random() < 0.6) else rng.choice(SCALES_TINY + [SCALE_BIG])
    return {'op': op, 'spec': spec, 'trees': [tree], 'w': w, 'wkind': wkind,
            'container': rng.choice(CONTAINERS), 'as_numpy': [rng.random() < 0.15], 'scale': scale}

  def _complex_case(self, rng, fn=None):
    """trees with complex64 leaves (non-zero imaginary parts, purely imaginary, mixed real/complex trees).  A complex
    leaf is stored as [re, im] pairs; reference and model work on the realified coordinates."""
    fn = fn or rng.choice(['clip', 'clip', 'clip', 'mean', 'sum', 'agg'])
    nl = rng.choice([1, 2, 2])
    leaves = [{'c': True, 'shape': [rng.choice([1, 2, 3])]}]
    for _ in range(nl - 1):
      leaves.append({'c': rng.random() < 0.5, 'shape': [rng.choice([1, 2, 3])]})
    rng.shuffle(leaves)
    nreal = sum((2 if lf['c'] else 1) * lf['shape'][0] for lf in leaves)
    n = 1 if fn == 'clip' else rng.choice([1, 2, 3, 4])
    style = rng.choice(['general', 'general', 'imag'])          # 'imag': purely imaginary complex leaves

    def split(flat):
      tree, i = [], 0
      for lf in leaves:
        k = lf['shape'][0]
        if lf['c']:
          vals = [[flat[i + 2 * j], flat[i + 2 * j + 1]] for j in range(k)]
          if style == 'imag':
            vals = [[0, v[1] if v[1] else v[0]] for v in vals]
          i += 2 * k
        else:
          vals = flat[i:i + k]
          i += k
        tree.append(vals)
      return tree
    trees = []
    for _ in range(n):
      if fn == 'clip' and rng.random() < 0.6:
        base = list(rng.choice([p for p in PYTHAG if len(p) <= nreal] or [[1]]))
        base += [0] * (nreal - len(base))
        rng.shuffle(base)
        flat = [v * rng.choice([1, -1]) for v in base]
      else:
        flat = [rng.randrange(-8, 9) / rng.choice([1, 2, 4]) for _ in range(nreal)]
      trees.append(split(flat))
    case = {'op': 'cplx', 'fn': fn, 'leaves': leaves, 'trees': trees, 'container': rng.choice(CONTAINERS)}
    if fn == 'clip':
      x = self._realify(case, 0)
      nrm2 = sum(v * v for v in x)
      ex = exact_sqrt(nrm2)
      if ex is not None and ex > 0:
        M = float(ex * rng.choice(FACTORS_EXACT))
      elif ex is None:
        M = math.sqrt(nrm2) * rng.choice(FACTORS_FLOAT)
      else:
        M = rng.choice([0.5, 1, 2])
      case['M'] = float(np.float32(M))
      case['mkind'] = rng.choice(['float', 'np32', 'jnp'])
      if rng.random() < 0.1:
        case['Minf'] = rng.choice(INF_BOUNDS)
    else:
      case['weights'] = self._rand_weights(rng, n)
      case['form'] = rng.choice(FORMS)
    return case

  @staticmethod
  def _realify(case, ci):
    """real coordinates (re, im interleaved for complex leaves) of client ci's tree, exact"""
    out = []
    for lf, vals in zip(case['leaves'], case['trees'][ci]):
      for v in vals:
        out.extend([F(v[0]), F(v[1])] if lf['c'] else [F(v)])
    return out

  def _x64_case(self, rng, nsub):
    W = [0.1, 0.3, 1e-3, 16777217.0, 1 / 3, 0.7, 2.0, 1e-2, 123456789.0, 0.0, 5.0]
    subs = []
    for i in range(nsub):
      fn = ['mean', 'agg', 'mean', 'sum', 'clip', 'mean'][i % 6]
      k = rng.choice([1, 2, 3])
      n = 1 if fn == 'clip' else rng.choice([1, 2, 3, 4])
      trees = [[[rng.randrange(-50, 51) / 10 for _ in range(k)], rng.randrange(-50, 51) / 10] for _ in range(n)]
      if i % 6 == 5:
        n = 3
        trees = [[list(trees[0][0]), trees[0][1]] for _ in range(3)]      # identical trees: the mean must stay on them
      sub = {'fn': fn, 'trees': trees}
      if fn in ('mean', 'agg'):
        ws = [rng.choice(W) for _ in range(n)]
        if all(w == 0 for w in ws) and rng.random() < 0.7:
          ws[0] = 0.1
        sub['weights'] = ws
      if fn == 'clip':
        nrm = math.sqrt(sum(v * v for v in trees[0][0]) + trees[0][1] ** 2)
        sub['M'] = (nrm or 1.0) * rng.choice([0.3, 0.99, 1.01, 3.0])
      subs.append(sub)
    return {'op': 'x64', 'subs': subs}

  def gen_cases(self, rng, tier):
    # float64 probe (one subprocess) first, so that it is never cut off by the budget
    yield self._x64_case(rng, 12 if tier == 'quick' else 30)
    yield self._complex_case(rng, fn='clip')
    if tier == 'thorough':
      yield self._x64_case(rng, 30)
    if tier == 'thorough':
      # exhaustive weight vectors over {0, 1, 2, 0.5} for 1..4 clients, two tree specs, every form
      specs = [[[[3], 'jf32']], [[[], 'jf32'], [[2, 2], 'nf32']]]
      cnt = 0
      for n in (1, 2, 3, 4):
        for ws in itertools.product([0, 1, 2, 0.5], repeat=n):
          for spec in specs:
            cnt += 1
            trees = [[[((7 * c + 3 * j + 5 * li + cnt) % 17 - 8) / 2 for j in range(size_of(s))]
                      for li, (s, _) in enumerate(spec)] for c in range(n)]
            perm = list(range(n))
            rng.shuffle(perm)
            yield {'op': ['mean', 'agg'][cnt % 2], 'spec': spec, 'trees': trees, 'weights': list(ws),
                   'wkind': 'float', 'form': FORMS[cnt % len(FORMS)], 'perm': perm,
                   'container': CONTAINERS[cnt % 3], 'as_numpy': [False] * n,
                   'scale': [0, -30, 20, -40][cnt % 4], 'wscale': 0}
      # clip: every Pythagorean base x every bound/norm factor x every scale
      cnt = 0
      for base in PYTHAG:
        ex = exact_sqrt(sum(F(v) * F(v) for v in base))
        if not ex:
          continue
        for fac in sorted(set(FACTORS_EXACT)):
          for scale in [0, SCALE_BIG] + SCALES_TINY:
            cnt += 1
            yield {'op': 'clip', 'spec': [[[len(base)], ['jf32', 'nf32'][cnt % 2]]],
                   'trees': [[[v * (-1) ** (i + cnt) for i, v in enumerate(base)]]], 'M': float(ex * fac),
                   'mkind': ['float', 'np32', 'jnp'][cnt % 3], 'container': CONTAINERS[cnt % 3],
                   'as_numpy': [False], 'scale': scale}
    n = {'quick': 520, 'thorough': 5000}.get(tier, 1500)
    for i in range(n):
      r = rng.random()
      if i % 14 == 7:
        yield self._complex_case(rng)
      elif r < 0.62:
        yield self._mean_case(rng)
      elif r < 0.87:
        yield self._clip_case(rng)
      else:
        yield self._weight_case(rng)

  def shrink(self, case):
    op = case['op']
    if op == 'x64':
      subs = case['subs']
      if len(subs) > 1:
        for sub in subs:
          yield {'op': 'x64', 'subs': [sub]}
      elif len(subs[0]['trees']) > 1 and subs[0]['fn'] != 'clip':
        sub = subs[0]
        for drop in range(len(sub['trees'])):
          c = {**sub, 'trees': [t for i, t in enumerate(sub['trees']) if i != drop]}
          if 'weights' in sub:
            c['weights'] = [w for i, w in enumerate(sub['weights']) if i != drop]
          yield {'op': 'x64', 'subs': [c]}
      return
    if op == 'cplx':
      n = len(case['trees'])
      if n > 1:
        for drop in range(n):
          c = {**case, 'trees': [t for i, t in enumerate(case['trees']) if i != drop]}
          if 'weights' in case:
            c['weights'] = [w for i, w in enumerate(case['weights']) if i != drop]
          yield c
      if len(case['leaves']) > 1:
        for drop in range(len(case['leaves'])):
          if any(lf['c'] for i, lf in enumerate(case['leaves']) if i != drop):
            yield {**case, 'leaves': [l for i, l in enumerate(case['leaves']) if i != drop],
                   'trees': [[l for i, l in enumerate(t) if i != drop] for t in case['trees']]}
      if case.get('form', 'list') != 'list':
        yield {**case, 'form': 'list'}
      return
    n = len(case['trees'])
    if op in ('mean', 'sum', 'agg') and n > 1:
      for drop in range(n):
        keep = [i for i in range(n) if i != drop]
        c = dict(case)
        c['trees'] = [case['trees'][i] for i in keep]
        c['weights'] = [case['weights'][i] for i in keep]
        c['as_numpy'] = [case['as_numpy'][i] for i in keep]
        if case.get('client_kinds'):
          c['client_kinds'] = [case['client_kinds'][i] for i in keep]
        if case.get('ids'):
          c['ids'] = [case['ids'][i] for i in keep]
        order = [i for i in case['perm'] if i != drop]
        c['perm'] = [keep.index(i) for i in order]
        yield c
    if len(case['spec']) > 1:
      for drop in range(len(case['spec'])):
        c = dict(case)
        c['spec'] = [s for i, s in enumerate(case['spec']) if i != drop]
        c['trees'] = [[l for i, l in enumerate(t) if i != drop] for t in case['trees']]
        yield c
    for key, simple in (('form', 'list'), ('wkind', 'float'), ('mkind', 'float'), ('container', 'dict')):
      if key in case and case[key] != simple:
        if key in ('wkind', 'mkind') and case[key] in INT_WKINDS:
          continue
        yield {**case, key: simple}
    if any(case['as_numpy']):
      yield {**case, 'as_numpy': [False] * n}
    if case.get('wscale', 0):
      yield {**case, 'wscale': 0}
    if case.get('ids') and len(set(case['ids'])) > 1:
      yield {**case, 'ids': [0] * n}
    if case.get('client_kinds'):
      for i, k in enumerate(case['client_kinds']):
        if k != 'jf32':
          yield {**case, 'client_kinds': case['client_kinds'][:i] + ['jf32'] + case['client_kinds'][i + 1:]}
    if case.get('Minf') and case['Minf'] != 'pyinf':
      yield {**case, 'Minf': 'pyinf'}
    sc = case.get('scale', 0)
    if sc:
      for cand in (0, sc // 2, sc + (1 if sc < 0 else -1)):
        if cand != sc and abs(cand) < abs(sc):
          yield {**case, 'scale': cand}
    if any(k != 'jf32' for _, k in case['spec']) and not any(k.endswith('i32') for _, k in case['spec']):
      yield {**case, 'spec': [[s, 'jf32'] for s, _ in case['spec']]}
    for ci, t in enumerate(case['trees']):
      for li, l in enumerate(t):
        for vi, v in enumerate(l):
          for cand in (0, 1):
            if v != cand and op != 'clip':
              trees = [[list(x) for x in tt] for tt in case['trees']]
              trees[ci][li][vi] = cand
              yield {**case, 'trees': trees}

  # ------------------------------------------------------------------------------------------ building

  def _leaf(self, vals, shape, kind, as_numpy):
    jnp = self.jnp
    if kind[1:] in ('bf16', 'f16'):
      return jnp.array(np.array(vals, dtype=np.float32).reshape(shape),
                       dtype=jnp.bfloat16 if kind[1:] == 'bf16' else jnp.float16)
    dt = {'f32': np.float32, 'f64': np.float64, 'i32': np.int32}[kind[1:]]
    arr = np.array(vals, dtype=dt).reshape(shape)
    if kind[0] == 'n' or as_numpy:
      return arr
    return jnp.array(arr if dt != np.float64 else arr.astype(np.float32))

  def _tree(self, leaves, container):
    if container == 'tuple':
      return tuple(leaves)
    if container == 'nested' and len(leaves) > 1:
      return {'p0': leaves[0], 'sub': {f'q{i}': l for i, l in enumerate(leaves[1:])}}
    return {f'p{i}': l for i, l in enumerate(leaves)}

  @staticmethod
  def _scaled(case):
    """effective (rescaled) leaf values of every tree, as exact rationals"""
    sc = pow2(case.get('scale', 0))
    return [[[F(v) * sc for v in l] for l in t] for t in case['trees']]

  def _build(self, case):
    trees = []
    ck = case.get('client_kinds') or [None] * len(case['trees'])
    for ci, t in enumerate(self._scaled(case)):
      kinds = [ck[ci] or k for _, k in case['spec']]
      t = [[int(v) if k.endswith('i32') else float(v) for v in l] for l, k in zip(t, kinds)]
      leaves = [self._leaf(v, s, k, case['as_numpy'][ci]) for v, (s, _), k in zip(t, case['spec'], kinds)]
      trees.append(self._tree(leaves, case['container']))
    return trees

  def _conv_w(self, w, wkind):
    if wkind == 'int':
      return int(w)
    if wkind == 'np32':
      return np.float32(w)
    if wkind == 'np64':
      return np.float64(w)
    if wkind in ('npi64', 'npu8', 'npi16'):
      return {'npi64': np.int64, 'npu8': np.uint8, 'npi16': np.int16}[wkind](w)
    if wkind == 'nd0':
      return np.array(w, dtype=np.float64)
    if wkind == 'nd1':
      return np.array([w], dtype=np.float32)
    if wkind == 'jnp':
      return self.jnp.asarray(w, dtype=self.jnp.float32)
    return float(w)

  @staticmethod
  def _ptr(x):
    try:
      if isinstance(x, np.ndarray):
        return x.ctypes.data if x.size else None
      if x.size == 0:
        return None
      return x.unsafe_buffer_pointer()
    except Exception:
      return None

  def _snapshot(self, trees):
    leaves = [l for t in trees for l in self.jax.tree_util.tree_leaves(t)]
    return leaves, [np.array(l, copy=True) for l in leaves], [self._ptr(l) for l in leaves]

  def _harm(self, snap, outs):
    """The 'never modifies, aliases or invalidates its inputs' half, checked on the real objects."""
    leaves, copies, ptrs = snap
    probs = []
    for i, (l, c) in enumerate(zip(leaves, copies)):
      if hasattr(l, 'is_deleted') and l.is_deleted():
        probs.append(('input-deleted', f'input leaf {i} was deleted (donated) by the call'))
        continue
      now = np.asarray(l)
      if now.dtype != c.dtype or now.shape != c.shape or not np.array_equal(now, c):
        probs.append(('input-modified', f'input leaf {i} changed: {c.tolist()} -> {now.tolist()}'))
    in_ptrs = {p for p in ptrs if p is not None}
    for out in outs:
      for j, o in enumerate(self.jax.tree_util.tree_leaves(out)):
        if any(o is l for l in leaves):
          probs.append(('aliased', f'output leaf {j} is the very same object as an input leaf'))
        elif self._ptr(o) is not None and self._ptr(o) in in_ptrs:
          probs.append(('aliased', f'output leaf {j} shares its buffer with an input leaf'))
    return probs

  def _flat(self, tree):
    return [float(v) for l in self.jax.tree_util.tree_leaves(tree) for v in np.asarray(l, dtype=np.float64).reshape(-1)]

  def _struct_ok(self, out, ref):
    tu = self.jax.tree_util
    if tu.tree_structure(out) != tu.tree_structure(ref):
      return f'output structure {tu.tree_structure(out)} != input structure {tu.tree_structure(ref)}'
    for a, b in zip(tu.tree_leaves(out), tu.tree_leaves(ref)):
      if tuple(np.shape(a)) != tuple(np.shape(b)):
        return f'output leaf shape {np.shape(a)} != input leaf shape {np.shape(b)}'
    return None

  # ------------------------------------------------------------------------------------------ evaluation

  def evaluate(self, case, ctx):
    op = case['op']
    if op == 'x64':
      return self._eval_x64(case, ctx)
    if op == 'cplx':
      return self._eval_complex(case, ctx)
    if op in ('mean', 'agg', 'sum'):
      return self._eval_mean(case, ctx)
    if op == 'clip':
      if case.get('Minf'):
        return self._eval_clip_inf(case, ctx)
      return self._eval_clip(case, ctx)
    return self._eval_weight(case, ctx)

  def _call(self, op, trees, ws, form, order, ids=None):
    items = []
    for i in order:
      if op == 'sum':
        items.append(trees[i])
      elif op == 'mean':
        items.append((trees[i], ws[i]))
      else:
        items.append((b'client%d' % (ids[i] if ids else i), trees[i], ws[i]))
    if form == 'gen':
      it = (x for x in items)
    elif form == 'iter':
      it = iter(items)
    elif form == 'tuple':
      it = tuple(items)
    elif form == 'map':
      it = map(lambda x: x, items)
    else:
      it = items
    if op == 'sum':
      return self.tu.tree_sum(it)
    if op == 'mean':
      return self.tu.tree_mean(it)
    ag = self.agg.mean_aggregator()
    st = ag.init()
    out, st2 = ag.apply(it, st)
    return out

  def _eval_mean(self, case, ctx):
    op, n = case['op'], len(case['trees'])
    trees = self._build(case)
    wsc = pow2(case.get('wscale', 0))
    fw = [F(w) * wsc for w in case['weights']]
    ws = [self._conv_w(int(w) if case['wkind'] in INT_WKINDS else float(w), case['wkind']) for w in fw]
    # the weights are inputs too: value snapshot of every weight object
    wsnap = [(type(w), np.array(w, copy=True)) for w in ws]
    snap = self._snapshot(trees)
    flat_in = [[v for l in t for v in l] for t in self._scaled(case)]
    m = len(flat_in[0])
    W = sum(fw)
    problems, corr, key = [], [], None
    # clients in bfloat16 / float16: "up to rounding" is the rounding of that dtype (inputs are exact small integers)
    eps_dt = max([DTYPE_EPS.get(k[1:], 0.0) for k in (case.get('client_kinds') or []) if k] + [0.0])

    def tolc(S_, model_):
      return tol(S_, model_) + 4 * eps_dt * float(S_)

    def fail(k, msg):
      nonlocal key
      key = key or f'C07/{op}/{k}'
      problems.append(msg)

    # expected values, stated directly from the property
    if op == 'sum':
      want = [sum(t[k] for t in flat_in) for k in range(m)]
      S = [sum(abs(t[k]) for t in flat_in) for k in range(m)]
    else:
      want = [(sum(w * t[k] for w, t in zip(fw, flat_in)) / W) if W > 0 else F(0) for k in range(m)]
      S = [(sum(abs(w * t[k]) for w, t in zip(fw, flat_in)) / W) if W > 0 else F(0) for k in range(m)]

    outs = []
    for which, order in (('given order', list(range(n))), ('permuted order', case['perm'])):
      try:
        out = self._call(op, trees, ws, case['form'], order, case.get('ids'))
      except Exception as e:   # the inputs may have been invalidated by the first call
        fail('raised', f'{op} raised {type(e).__name__}: {str(e)[:120]} ({which})')
        break
      outs.append(out)
      bad = self._struct_ok(out, trees[0])
      if bad:
        fail('structure', f'{bad} ({which})')
        break
      got = self._flat(out)
      if any(not math.isfinite(g) for g in got):
        fail('nan', f'non-finite output {got} ({which})')
        continue
      for k in range(m):
        if abs(got[k] - float(want[k])) > tolc(S[k], want[k]):
          what = 'sum' if op == 'sum' else ('0 (total weight 0)' if W == 0 else 'sum(w*p)/sum(w)')
          fail('value' if which == 'given order' else 'order',
               f'coordinate {k}: got {got[k]}, {what} = {float(want[k])} ({which})')
          break
      if op != 'sum' and W > 0:
        used = [t for w, t in zip(fw, flat_in)]
        for k in range(m):
          lo, hi = min(t[k] for t in used), max(t[k] for t in used)
          if not (float(lo) - tolc(S[k], lo) <= got[k] <= float(hi) + tolc(S[k], hi)):
            fail('hull', f'coordinate {k}: {got[k]} outside [{float(lo)}, {float(hi)}] ({which})')
            break
    if len(outs) == 2 and not problems:
      a, b = self._flat(outs[0]), self._flat(outs[1])
      for k in range(m):
        if abs(a[k] - b[k]) > 2 * tolc(S[k], want[k]):
          fail('order', f'coordinate {k}: {a[k]} in the given order, {b[k]} in the permuted order')
          break
    for k, msg in self._harm(snap, outs):
      fail(k, msg)
    for i, (w, (ty, val)) in enumerate(zip(ws, wsnap)):
      now = np.asarray(w)
      if type(w) is not ty or now.dtype != val.dtype or now.shape != val.shape or not np.array_equal(now, val):
        fail('weight-modified', f'the caller\'s weight object {i} ({case["wkind"]}) changed: {val.tolist()} -> {now.tolist()}')
    ctx.count('monitor_inputs_unharmed', len(snap[0]))
    ctx.count('monitor_weights_unharmed', len(ws))

    # model
    mop = {'sum': 'c07.sum', 'mean': 'c07.mean', 'agg': 'c07.agg'}[op]
    lines = [line(mop, flat_in) if op == 'sum' else line(mop, flat_in, fw)]
    if op != 'sum':
      lines.append(line(mop, [flat_in[i] for i in case['perm']], [fw[i] for i in case['perm']]))
    ans = ctx.drv.ask(lines)
    model = ans[0]
    if model is None or isinstance(model, str):
      corr.append(f'model answered {model}')
    else:
      if len(ans) > 1 and ans[1] != model:
        corr.append(f'model is order dependent: {model} vs {ans[1]}')
      if [F(x) for x in model] != want:
        corr.append(f'model {model} differs from the harness statement of the property {want}')
      if outs:
        got = self._flat(outs[0])
        if len(got) != len(model):
          corr.append(f'model has {len(model)} coordinates, implementation {len(got)}')
        else:
          for k in range(m):
            if not (abs(got[k] - float(model[k])) <= tolc(S[k], model[k])):
              corr.append(f'coordinate {k}: implementation {got[k]} vs model {model[k]}')
              break

    # non-triviality: the realistic wrong variants all differ visibly
    nontrivial = False
    if n >= 2 and m > 0:
      if op == 'sum':
        wrongs = [[w / n for w in want], flat_in[0]]
      else:
        unweighted = [sum(t[k] for t in flat_in) / n for k in range(m)]
        by_count = [sum(w * t[k] for w, t in zip(fw, flat_in)) / n for k in range(m)]
        no_div = [sum(w * t[k] for w, t in zip(fw, flat_in)) for k in range(m)]
        wrongs = [unweighted, by_count, no_div, flat_in[0]]
      nontrivial = all(any(abs(float(x - y)) > 100 * tolc(S[k], y) for k, (x, y) in enumerate(zip(wr, want)))
                       for wr in wrongs)
    tags = ('mixed-dtype:' + ','.join(sorted(set(case['client_kinds']))) if case.get('client_kinds') else 'same-dtype',
            ('ids=placeholder' if len(set(case['ids'])) == 1 else 'ids=repeated') if case.get('ids') else 'ids=distinct',
            f'op={op}', f'n={n}', f'form={case["form"]}', f'wkind={case["wkind"]}',
            f'scale=2^{case.get("scale", 0)}', f'wscale=2^{case.get("wscale", 0)}',
            'W=0' if (op != 'sum' and W == 0) else 'W>0', f'leaves={len(case["spec"])}',
            'numpy-input' if any(case['as_numpy']) or any(k[0] == 'n' for _, k in case['spec']) else 'jax-input')
    return Outcome(oracle_fail='; '.join(problems[:4]) or None, corr_fail='; '.join(corr[:3]) or None,
                   key=key, nontrivial=nontrivial, tags=tags,
                   detail={'impl': [self._flat(o) for o in outs], 'model': ans,
                           'expected': [float(x) for x in want]})

  def _eval_clip_inf(self, case, ctx):
    """an infinite (or float32-overflowing) bound = "no clipping": the tree is below the bound, identity expected.
    Oracle only; the Lean clip model is stated for finite positive bounds."""
    trees = self._build(case)
    tree = trees[0]
    kind = case['Minf']
    M = {'pyinf': float('inf'), 'jnpinf': self.jnp.inf, 'npinf': np.float32(np.inf), 'big': 1e39}[kind]
    snap = self._snapshot(trees)
    xf = [float(np.float32(float(v))) for l in self._scaled(case)[0] for v in l]
    problems, key = [], None

    def fail(k, msg):
      nonlocal key
      key = key or f'C07/clip/{k}'
      problems.append(msg)

    outs, got = [], None
    try:
      out = self.tu.tree_clip_by_global_norm(tree, M)
      outs.append(out)
      bad = self._struct_ok(out, tree)
      if bad:
        fail('structure', bad)
      else:
        got = self._flat(out)
    except Exception as e:
      fail('raised', f'tree_clip_by_global_norm(tree, {kind}) raised {type(e).__name__}: {str(e)[:120]}')
    if got is not None:
      if any(not math.isfinite(g) for g in got):
        fail('nan', f'bound {M!r} ({kind}): non-finite output {got} for the finite input {xf} (below the bound: identity expected)')
      elif got != xf:
        fail('identity', f'bound {M!r} ({kind}): every norm is below it, but result {got} != input {xf}')
    for k, msg in self._harm(snap, outs):
      fail(k, msg)
    ctx.count('monitor_inputs_unharmed', len(snap[0]))
    tags = ('op=clip', f'infinite-bound={kind}', f'scale=2^{case.get("scale", 0)}',
            'zero-tree' if all(v == 0 for v in xf) else 'below-bound')
    return Outcome(oracle_fail='; '.join(problems[:4]) or None, key=key, nontrivial=any(v != 0 for v in xf), tags=tags,
                   detail={'impl': got, 'bound': kind, 'input': xf})

  def _eval_complex(self, case, ctx):
    jnp, fn = self.jnp, case['fn']
    n = len(case['trees'])
    trees = []
    for t in case['trees']:
      leaves = []
      for lf, vals in zip(case['leaves'], t):
        if lf['c']:
          leaves.append(jnp.array(np.array([complex(v[0], v[1]) for v in vals], dtype=np.complex64)))
        else:
          leaves.append(jnp.array(np.array(vals, dtype=np.float32)))
      trees.append(self._tree(leaves, case['container']))
    snap = self._snapshot(trees)
    xs = [self._realify(case, ci) for ci in range(n)]
    m = len(xs[0])
    problems, corr, key = [], [], None

    def fail(k, msg):
      nonlocal key
      key = key or f'C07/complex-{fn}/{k}'
      problems.append(msg)

    def realify_out(out):
      """real coordinates of the output; a real input leaf must come back with (numerically) zero imaginary part"""
      vals, stray = [], 0.0
      for lf, leaf in zip(case['leaves'], self.jax.tree_util.tree_leaves(out)):
        a = np.asarray(leaf).reshape(-1)
        for z in a:
          z = complex(z)
          if lf['c']:
            vals.extend([z.real, z.imag])
          else:
            vals.append(z.real)
            stray = max(stray, abs(z.imag))
      return vals, stray

    outs, got = [], None
    inf_bound = fn == 'clip' and case.get('Minf')
    if fn == 'clip':
      if inf_bound:
        M = {'pyinf': float('inf'), 'jnpinf': jnp.inf, 'npinf': np.float32(np.inf), 'big': 1e39}[case['Minf']]
        fM = None
      else:
        fM = F(case['M'])
        M = self._conv_w(float(fM), case['mkind'])
      call = lambda: self.tu.tree_clip_by_global_norm(trees[0], M)
    else:
      fw = [F(w) for w in case['weights']]
      ws = [float(w) for w in fw]
      call = lambda: self._call(fn, trees, ws, case['form'], list(range(n)))
    try:
      out = call()
      outs.append(out)
      bad = self._struct_ok(out, trees[0])
      if bad:
        fail('structure', bad)
      else:
        got, stray = realify_out(out)
    except Exception as e:
      fail('raised', f'{fn} on a tree with complex64 leaves raised {type(e).__name__}: {str(e)[:140]}')
    lines = []
    S = want = None
    if fn == 'clip':
      x = xs[0]
      xf = [float(v) for v in x]
      nrm2 = sum(v * v for v in x)
      ex = exact_sqrt(nrm2)
      nrm = ex if ex is not None else F(math.sqrt(nrm2))
      scale_in = max([abs(v) for v in xf] + [0.0])
      if got is not None:
        if any(not math.isfinite(g) for g in got):
          fail('nan', f'non-finite output {got}')
        else:
          if stray > 1e-6 * scale_in:
            fail('direction', f'a real leaf came back with imaginary part {stray}')
          on = math.sqrt(sum(g * g for g in got))
          if fM is not None and on > float(fM) * (1 + 1e-5):
            fail('norm', f'norm of the result {on} exceeds the bound {float(fM)} (input norm {float(nrm)})')
          if scale_in > 0:
            j = max(range(m), key=lambda i: abs(xf[i]))
            s_ = got[j] / xf[j]
            if not (0 < s_ <= 1 + 1e-6):
              fail('direction', f'scale {s_} not in (0, 1]')
            elif any(abs(g - s_ * v) > 1e-5 * scale_in for g, v in zip(got, xf)):
              fail('direction', f'result {got} is not a positive real multiple of the input {xf} '
                                f'(real/imaginary coordinates interleaved): modulus or phase changed')
          if (fM is None or nrm2 <= fM * fM) and got != [float(np.float32(v)) for v in xf]:
            fail('identity', f'norm {float(nrm)} <= bound {"inf" if fM is None else float(fM)} but result {got} != input {xf}')
      if fM is not None:
        lines.append(line('c07.clip', nrm, fM, x))
        S = [abs(v) for v in x]
    else:
      W = sum(fw)
      if fn == 'sum':
        want = [sum(t[k] for t in xs) for k in range(m)]
        S = [sum(abs(t[k]) for t in xs) for k in range(m)]
        lines.append(line('c07.sum', xs))
      else:
        want = [(sum(w * t[k] for w, t in zip(fw, xs)) / W) if W > 0 else F(0) for k in range(m)]
        S = [(sum(abs(w * t[k]) for w, t in zip(fw, xs)) / W) if W > 0 else F(0) for k in range(m)]
        lines.append(line('c07.mean' if fn == 'mean' else 'c07.agg', xs, fw))
      if got is not None:
        if any(not math.isfinite(g) for g in got):
          fail('nan', f'non-finite output {got}')
        else:
          for k in range(m):
            if abs(got[k] - float(want[k])) > tol(S[k], want[k]):
              fail('value', f'real coordinate {k}: got {got[k]}, expected {float(want[k])}')
              break
          if fn != 'sum' and W > 0:
            for k in range(m):
              lo, hi = min(t[k] for t in xs), max(t[k] for t in xs)
              if not (float(lo) - tol(S[k], lo) <= got[k] <= float(hi) + tol(S[k], hi)):
                fail('hull', f'real coordinate {k}: {got[k]} outside [{float(lo)}, {float(hi)}]')
                break
    for k, msg in self._harm(snap, outs):
      fail(k, msg)
    ctx.count('monitor_inputs_unharmed', len(snap[0]))
    if lines:
      a = ctx.drv.ask(lines)[0]
      model = a[0] if fn == 'clip' else a
      if model is None or isinstance(model, str):
        corr.append(f'model answered {model}')
      else:
        if want is not None and [F(v) for v in model] != want:
          corr.append(f'model {model} differs from the harness statement {want}')
        if got is not None and len(got) == len(model):
          for k in range(m):
            if not abs(got[k] - float(model[k])) <= tol(S[k], model[k]):
              corr.append(f'real coordinate {k}: implementation {got[k]} vs model {float(F(model[k]))}')
              break
    kinds = 'mixed-real-complex' if not all(lf['c'] for lf in case['leaves']) else 'all-complex'
    tags = ('op=cplx', f'fn={fn}', kinds, 'infinite-bound' if inf_bound else 'finite')
    return Outcome(oracle_fail='; '.join(problems[:4]) or None, corr_fail='; '.join(corr[:3]) or None, key=key,
                   nontrivial=any(v != 0 for x in xs for v in x), tags=tags, detail={'impl': got})

  def _eval_x64(self, case, ctx):
    """float64 probe: the real functions under JAX_ENABLE_X64=1 in one subprocess, judged at 1e-12 relative."""
    subs = case['subs']
    env = dict(os.environ, JAX_ENABLE_X64='1', JAX_PLATFORMS='cpu')
    p = subprocess.run([sys.executable, '-c', X64_SCRIPT, core.REPO], input=json.dumps(subs), capture_output=True,
                       text=True, env=env, timeout=600)
    mark = [l for l in p.stdout.split('\n') if l.startswith('X64RESULT')]
    if p.returncode != 0 or not mark:
      raise core.InfraError(f'x64 probe subprocess failed: {p.stderr[-400:]}')
    res = json.loads(mark[-1][len('X64RESULT'):])
    if len(res) != len(subs) or not all(r['x64'] for r in res):
      raise core.InfraError('x64 probe: jax_enable_x64 is not active in the subprocess')
    ctx.count('x64_subcases', len(subs))
    problems, corr, key = [], [], None

    def fail(k, msg):
      nonlocal key
      key = key or f'C07/x64/{k}'
      problems.append(msg)

    def t64(S_, ref):
      return F(1, 10 ** 12) * (abs(F(S_)) + abs(F(ref)))

    lines, meta = [], []
    for si, (sub, r) in enumerate(zip(subs, res)):
      fn = sub['fn']
      flat = [[F(v) for v in t[0]] + [F(t[1])] for t in sub['trees']]
      m = len(flat[0])
      tagp = f'sub-case {si} ({fn}, float64 leaves' + (f', weights {sub["weights"]}' if 'weights' in sub else '') + ')'
      if r['err']:
        fail('raised', f'{tagp} raised {r["err"]}')
        continue
      if r['deleted'] or r['changed']:
        fail('input-deleted' if r['deleted'] else 'input-modified', f'{tagp}: an input leaf was '
             + ('deleted' if r['deleted'] else 'modified'))
      got = r['out']
      if r['dtype'] != ['float64']:
        ctx.count('x64_output_dtype_not_float64')       # recorded only: the property fixes values, not dtypes
      if any(not math.isfinite(g) for g in got):
        fail('nan', f'{tagp}: non-finite output {got}')
        continue
      gotF = [F(g) for g in got]
      if fn == 'sum':
        want = [sum(t[k] for t in flat) for k in range(m)]
        S = [sum(abs(t[k]) for t in flat) for k in range(m)]
        lines.append(line('c07.sum', flat))
      elif fn in ('mean', 'agg'):
        fw = [F(w) for w in sub['weights']]
        W = sum(fw)
        want = [(sum(w * t[k] for w, t in zip(fw, flat)) / W) if W > 0 else F(0) for k in range(m)]
        S = [(sum(abs(w * t[k]) for w, t in zip(fw, flat)) / W) if W > 0 else F(0) for k in range(m)]
        lines.append(line('c07.mean' if fn == 'mean' else 'c07.agg', flat, fw))
        if W > 0:
          for k in range(m):
            lo, hi = min(t[k] for t in flat), max(t[k] for t in flat)
            if not (lo - t64(S[k], lo) <= gotF[k] <= hi + t64(S[k], hi)):
              fail('hull', f'{tagp}: coordinate {k} = {got[k]!r} outside [{float(lo)!r}, {float(hi)!r}] '
                           f'by more than float64 rounding')
              break
      else:
        x = flat[0]
        fM = F(sub['M'])
        nrm2 = sum(v * v for v in x)
        nrm = F(math.sqrt(nrm2))
        sc = min(F(1), fM / nrm) if nrm > 0 else F(1)
        want = [sc * v for v in x]
        S = [abs(v) for v in x]
        lines.append(line('c07.clip', nrm, fM, x))
      meta.append((si, fn, gotF, S, tagp))
      for k in range(m):
        if abs(gotF[k] - want[k]) > t64(S[k], want[k]):
          name = {'sum': 'sum', 'clip': 'min(1, M/norm) * x'}.get(fn, 'sum(w*p)/sum(w)')
          fail('value', f'{tagp}: coordinate {k} = {got[k]!r}, exact {name} = {float(want[k])!r} '
                        f'(relative error {abs(float((gotF[k] - want[k]) / (want[k] or 1))):.3g} > 1e-12)')
          break
    if lines:
      ans = ctx.drv.ask(lines)
      for (si, fn, gotF, S, tagp), a in zip(meta, ans):
        model = a[0] if fn == 'clip' else a
        if model is None or isinstance(model, str) or len(model) != len(gotF):
          corr.append(f'{tagp}: model answered {model}')
          continue
        for k in range(len(gotF)):
          if abs(gotF[k] - F(model[k])) > t64(S[k], model[k]):
            corr.append(f'{tagp}: coordinate {k}: implementation {float(gotF[k])!r} vs model {float(F(model[k]))!r}')
            break
    tags = ('op=x64', f'subcases={len(subs)}')
    return Outcome(oracle_fail='; '.join(problems[:4]) or None, corr_fail='; '.join(corr[:3]) or None, key=key,
                   nontrivial=True, tags=tags, detail={'impl': res})

  def _eval_clip(self, case, ctx):
    trees = self._build(case)
    tree = trees[0]
    scale = case.get('scale', 0)
    fM = (F(case['M']) if case['mkind'] != 'int' else F(int(case['M']))) * pow2(scale)
    M = self._conv_w(int(fM) if case['mkind'] == 'int' else float(fM), case['mkind'])
    snap = self._snapshot(trees)
    x = [v for l in self._scaled(case)[0] for v in l]
    nrm2 = sum(v * v for v in x)
    ex = exact_sqrt(nrm2)
    nrm = ex if ex is not None else F(math.sqrt(nrm2))
    problems, corr, key = [], [], None

    def fail(k, msg):
      nonlocal key
      key = key or f'C07/clip/{k}'
      problems.append(msg)

    outs = []
    try:
      out = self.tu.tree_clip_by_global_norm(tree, M)
      outs.append(out)
    except Exception as e:
      fail('raised', f'tree_clip_by_global_norm raised {type(e).__name__}: {str(e)[:120]}')
    got = None
    if outs:
      bad = self._struct_ok(out, tree)
      if bad:
        fail('structure', bad)
      else:
        got = self._flat(out)
    if got is not None:
      xf = [float(v) for v in x]
      scale_in = max([abs(v) for v in xf] + [0.0])
      eps = 1e-5 * scale_in          # relative to the tree's own magnitude
      if any(not math.isfinite(g) for g in got):
        fail('nan', f'non-finite output {got}')
      else:
        # (a) norm at most the bound
        on = math.sqrt(sum(g * g for g in got))
        if on > float(fM) * (1 + 1e-5):
          fail('norm', f'norm of the result {on} exceeds the bound {float(fM)}')
        # (b) unchanged direction: out = s * x for one s in (0, 1]
        if scale_in > 0:
          j = max(range(len(xf)), key=lambda i: abs(xf[i]))
          s = got[j] / xf[j]
          if not (0 < s <= 1 + 1e-6):
            fail('direction', f'scale {s} not in (0, 1]')
          elif any(abs(g - s * v) > eps for g, v in zip(got, xf)):
            fail('direction', f'result {got} is not a positive multiple of the input {xf}')
        elif any(g != 0 for g in got):
          fail('identity', f'zero tree mapped to {got}')
        # (c) identity below the bound (decided exactly; inexact norms are generated away from the bound)
        if nrm2 <= fM * fM and got != [float(np.float32(v)) for v in xf]:
          fail('identity', f'norm {float(nrm)} <= bound {float(fM)} but result {got} != input {xf}')
        # (d) C07_clip_shrinks / C07_clip_idempotent: the norm never grows, and clipping the result again with the
        # same bound changes nothing (up to the rounding of the first result's norm around the bound)
        inn = math.sqrt(sum(v * v for v in xf))
        if on > inn * (1 + 1e-5) + 1e-30:
          fail('norm', f'norm of the result {on} exceeds the norm of the input {inn}')
        if not problems:
          try:
            out2 = self.tu.tree_clip_by_global_norm(out, M)
            outs.append(out2)
            got2 = self._flat(out2)
            over = max(0.0, on / float(fM) - 1.0) if float(fM) > 0 else 0.0
            if len(got2) != len(got) or any(not (abs(a - b) <= (over + 1e-5) * scale_in) for a, b in zip(got2, got)):
              fail('idempotent', f'clipping the clipped tree again changed it: {got} -> {got2}')
            ctx.count('clip_idempotent_checked')
          except Exception as e:
            fail('raised', f'second tree_clip_by_global_norm raised {type(e).__name__}: {str(e)[:120]}')
    for k, msg in self._harm(snap, outs):
      fail(k, msg)
    ctx.count('monitor_inputs_unharmed', len(snap[0]))

    ans = ctx.drv.ask([line('c07.clip', nrm, fM, x)])[0]
    model, m2 = ans
    if F(m2) != nrm2:
      corr.append(f'model l2Squared {m2} != {nrm2}')
    if model is None or isinstance(model, str):
      corr.append(f'model answered {model} for a positive bound')
    elif got is not None:
      S = [abs(v) for v in x]
      for k in range(len(x)):
        if not (abs(got[k] - float(model[k])) <= tol(S[k], model[k])):
          corr.append(f'coordinate {k}: implementation {got[k]} vs model {float(model[k])}')
          break
    nontrivial = nrm2 > fM * fM and nrm2 > 0 and abs(float(nrm) - float(fM)) > 1e-2 * float(fM)
    tags = ('op=clip', f'scale=2^{scale}', 'exact-norm' if ex is not None else 'float-norm',
            'zero-tree' if nrm2 == 0 else ('above-bound' if nrm2 > fM * fM else ('at-bound' if nrm2 == fM * fM else 'below-bound')),
            f'mkind={case["mkind"]}', f'leaves={len(case["spec"])}')
    return Outcome(oracle_fail='; '.join(problems[:4]) or None, corr_fail='; '.join(corr[:3]) or None,
                   key=key, nontrivial=bool(nontrivial), tags=tags,
                   detail={'impl': got, 'model': ans, 'norm': float(nrm), 'bound': float(fM)})

  def _eval_weight(self, case, ctx):
    op = case['op']
    trees = self._build(case)
    tree = trees[0]
    w = self._conv_w(case['w'], case['wkind'])
    fw = F(int(case['w'])) if case['wkind'] == 'int' else F(case['w'])
    snap = self._snapshot(trees)
    x = [v for l in self._scaled(case)[0] for v in l]
    problems, corr, key = [], [], None

    def fail(k, msg):
      nonlocal key
      key = key or f'C07/{op}/{k}'
      problems.append(msg)

    if op == 'weight':
      want = [v * fw for v in x]
    else:
      want = [v / fw if fw > 0 else F(0) for v in x]
    outs, got = [], None
    try:
      out = self.tu.tree_weight(tree, w) if op == 'weight' else self.tu.tree_inverse_weight(tree, w)
      outs.append(out)
      bad = self._struct_ok(out, tree)
      if bad:
        fail('structure', bad)
      else:
        got = self._flat(out)
    except Exception as e:
      fail('raised', f'{op} raised {type(e).__name__}: {str(e)[:120]}')
    if got is not None:
      if any(not math.isfinite(g) for g in got):
        fail('nan', f'non-finite output {got}')
      else:
        for k in range(len(x)):
          if abs(got[k] - float(want[k])) > tol(abs(want[k]), want[k]):
            fail('value', f'coordinate {k}: got {got[k]}, expected {float(want[k])}')
            break
    for k, msg in self._harm(snap, outs):
      fail(k, msg)
    ctx.count('monitor_inputs_unharmed', len(snap[0]))
    model = ctx.drv.ask([line('c07.weight' if op == 'weight' else 'c07.invweight', x, fw)])[0]
    if [F(v) for v in model] != want:
      corr.append(f'model {model} differs from the harness statement {want}')
    if got is not None and len(got) == len(model):
      for k in range(len(x)):
        if not (abs(got[k] - float(model[k])) <= tol(abs(F(model[k])), model[k])):
          corr.append(f'coordinate {k}: implementation {got[k]} vs model {model[k]}')
          break
    tags = (f'op={op}', 'w=0' if fw == 0 else 'w>0', f'wkind={case["wkind"]}', f'scale=2^{case.get("scale", 0)}')
    return Outcome(oracle_fail='; '.join(problems[:4]) or None, corr_fail='; '.join(corr[:3]) or None,
                   key=key, nontrivial=any(v != 0 for v in x) and fw not in (0, 1), tags=tags,
                   detail={'impl': got, 'model': model})


PROPERTY = C07
