"""C01 — a federated-averaging round equals its mathematical definition."""
import signal
from fractions import Fraction

import numpy as np

from vlib import core
from vlib.core import Outcome, line

KAPPA = 0.25
EXACT_OPTS = ('sgd', 'momentum', 'nesterov')
OTHER_OPTS = ('adam', 'adagrad', 'rmsprop', 'yogi')


class InputInvalidated(Exception):
  pass


class Watchdog:
  """SIGALRM based: interrupts a pure-Python loop that never terminates."""

  def __init__(self, seconds):
    self.seconds = seconds

  def __enter__(self):
    def handler(signum, frame):
      raise TimeoutError('watchdog')
    self.old = signal.signal(signal.SIGALRM, handler)
    signal.setitimer(signal.ITIMER_REAL, self.seconds)

  def __exit__(self, *a):
    signal.setitimer(signal.ITIMER_REAL, 0)
    signal.signal(signal.SIGALRM, self.old)
    return False


def close(a, b, scale):
  a, b = np.asarray(a, dtype=np.float64), np.asarray(b, dtype=np.float64)
  return a.shape == b.shape and bool(np.all(np.abs(a - b) <= 2e-4 * (1.0 + scale)))


def expected_steps(n, bs, epochs, steps, drop):
  """Documented number of local steps of shuffle_repeat_batch (None: not pinned down here, n == 0)."""
  if n == 0:
    return 0
  cands = []
  if epochs is not None:
    cands.append((n * epochs) // bs if drop else -((-n * epochs) // bs))
  if steps is not None:
    cands.append(steps)
  return min(cands) if cands else None


class C01(core.Property):
  ID = 'C01'
  RULE = ('multi-round histories: cohorts of 0..6 clients with sizes 0..9 (not multiples of the batch size), '
          'linear-regression loss with key-dependent noise, client/server optimizers from sgd/momentum/nesterov '
          '(exact model) and adam/adagrad/rmsprop/yogi (oracle only), batching hparams (bs, epochs, steps, drop, seed), '
          'backends jit/debug/pmap, random client orderings; non-trivial = the correct weighted mean differs from the '
          'unweighted-mean, divide-by-#clients and sign-flipped variants by > 100x tolerance; distinct by case digest')
  TRUSTED = ['autodiff is not involved (analytic gradient fixture); optax optimizers and jax.random are externals',
             'the batches each client sees are recorded from the real shuffle_repeat_batch (their law is C04)']
  ASSUMPTIONS = ['grad_fn and optimizers are deterministic functions of their arguments']
  QUICK_BUDGET_S = 170
  THOROUGH_BUDGET_S = 900

  def setup(self, ctx):
    import jax
    import jax.numpy as jnp
    from fedjax.algorithms import fed_avg
    from fedjax.core import client_datasets, optimizers
    from fedjax.core import for_each_client as fec
    self.jax, self.jnp, self.fed_avg, self.cds, self.optimizers, self.fec = jax, jnp, fed_avg, client_datasets, optimizers, fec
    self.ndev = len(jax.local_devices())

    def mk_grad_fn(nanpad):
      def grad_fn(params, batch, rng):
        w = params['w']
        x, y = batch['x'], batch['y']
        err = x @ w - y
        g = jnp.mean(err[:, None] * x, axis=0)
        if nanpad:
          # feature normalisation: exactly 1 on every real batch (x[:, 0] != 0 there), 0/0 on the all-zero
          # padding batch a parallel backend feeds to clients that have finished
          s = jnp.sum(jnp.abs(x[:, 0]))
          g = g * (s / s)
        return {'w': g + KAPPA * jax.random.normal(rng, w.shape)}
      return grad_fn

    self.grad_fn = mk_grad_fn(False)
    self.grad_fn_nanpad = mk_grad_fn(True)
    prop = self

    class RecDataset(client_datasets.ClientDataset):
      """Records the batches the algorithm actually consumed."""

      def __init__(self, raw, log):
        super().__init__(raw)
        self._log = log

      def shuffle_repeat_batch(self, hparams=None, **kwargs):
        view = super().shuffle_repeat_batch(hparams, **kwargs)
        log = self._log

        class V:
          def __iter__(self_inner):
            log.clear()
            for b in view:
              log.append({k: np.array(v) for k, v in b.items()})
              yield b
        return V()

    self.RecDataset = RecDataset

  def mk_opt(self, spec):
    o = self.optimizers
    kind, lr, m = spec
    if kind == 'sgd':
      return o.sgd(lr)
    if kind == 'momentum':
      return o.sgd(lr, momentum=m)
    if kind == 'nesterov':
      return o.sgd(lr, momentum=m, nesterov=True)
    if kind == 'adam':
      return o.adam(lr)
    if kind == 'adagrad':
      return o.adagrad(lr)
    if kind == 'rmsprop':
      return o.rmsprop(lr)
    if kind == 'yogi':
      return o.yogi(lr)
    raise ValueError(kind)

  # ------------------------------------------------------------------
  def gen_cases(self, rng, tier):
    n = 40 if tier == 'quick' else 400
    for i in range(n):
      d = rng.choice([2, 3])
      def opt(exact):
        kind = rng.choice(EXACT_OPTS if exact else EXACT_OPTS + OTHER_OPTS)
        return [kind, rng.choice([0.125, 0.25, 0.0625, 0.5]), rng.choice([0.5, 0.25, 0.75])]
      exact = rng.random() < 0.7
      rounds = []
      # ids come from a small population, so clients return in later rounds with different data
      population = [rng.randrange(0, 50) * 100 + k for k in range(8)]
      if rng.random() < 0.4 and 0 not in population:
        population[rng.randrange(8)] = 0          # a falsy but legal client id (ids stay pairwise distinct)
      for r in range(rng.randrange(1, 4)):
        cohort = []
        pool = rng.sample(population, 6)
        for c in range(rng.choice([0, 1, 2, 3, 3, 4, 5, 6])):
          n_ex = rng.choice([0, 0, 1, 2, 3, 4, 5, 7, 9])
          xs = [[rng.choice([-1, 0, 1, 2]) for _ in range(d)] for _ in range(n_ex)]
          ys = [rng.choice([-2, -1, 0, 1, 3]) for _ in range(n_ex)]
          cohort.append({'id': pool[c], 'x': xs, 'y': ys})
        rounds.append(cohort)
      epochs = rng.choice([None, 1, 1, 2, 3])
      steps = rng.choice([None, None, 0, 1, 3, 5]) if epochs is not None else rng.choice([0, 1, 3, 4])
      sopt = opt(exact)
      if i % 5 == 0:
        sopt = ['sgd', 1.0, 0.0]
      backend = ['jit', 'jit', 'debug', 'pmap'][i % 4]
      nanpad = backend == 'pmap' and rng.random() < 0.6
      if nanpad:
        for cohort in rounds:
          for c in cohort:
            for row in c['x']:
              if row[0] == 0:
                row[0] = rng.choice([-1, 1, 2])
      yield {'d': d, 'w0': [rng.choice([-1, 0, 1, 2]) for _ in range(d)], 'copt': opt(exact), 'sopt': sopt,
             'bs': rng.choice([1, 2, 3, 4, 5]), 'epochs': epochs, 'steps': steps, 'drop': rng.random() < 0.3,
             'seed': rng.randrange(1000), 'rounds': rounds, 'key_seed': rng.randrange(1000),
             'backend': backend, 'D': rng.randrange(1, min(4, self.ndev) + 1),
             'perm_seed': rng.randrange(1000), 'nanpad': nanpad}

  def shrink(self, case):
    rs = case['rounds']
    if len(rs) > 1:
      yield {**case, 'rounds': rs[:-1]}
      yield {**case, 'rounds': rs[1:]}
    for ri, cohort in enumerate(rs):
      for ci in range(len(cohort)):
        yield {**case, 'rounds': rs[:ri] + [cohort[:ci] + cohort[ci + 1:]] + rs[ri + 1:]}
    for ri, cohort in enumerate(rs):
      for ci, c in enumerate(cohort):
        if len(c['y']) > 1:
          c2 = {**c, 'x': c['x'][:-1], 'y': c['y'][:-1]}
          yield {**case, 'rounds': rs[:ri] + [cohort[:ci] + [c2] + cohort[ci + 1:]] + rs[ri + 1:]}
    if case['backend'] != 'jit':
      yield {**case, 'backend': 'jit'}

  # ------------------------------------------------------------------
  def _run_impl(self, case, order_seed=None):
    """Runs the real algorithm. Returns (states per round, diagnostics keys per round, recorded batches, keys)."""
    jax, jnp = self.jax, self.jnp
    import random as pyrandom
    hp = self.cds.ShuffleRepeatBatchHParams(batch_size=case['bs'], num_epochs=case['epochs'],
                                            num_steps=case['steps'], drop_remainder=case['drop'],
                                            seed=case['seed'])
    grad_fn = self.grad_fn_nanpad if case.get('nanpad') else self.grad_fn
    alg = self.fed_avg.federated_averaging(grad_fn, self.mk_opt(case['copt']), self.mk_opt(case['sopt']), hp)
    state = alg.init({'w': jnp.asarray(case['w0'], dtype=jnp.float32)})
    d = case['d']
    out_states, out_diag, out_logs, out_keys = [], [], [], []
    backend = case['backend']
    if backend == 'pmap':
      backend = self.fec.ForEachClientPmapBackend(jax.local_devices()[:case['D']])
    with self.fec.for_each_client_backend(backend):
      # the backend is chosen when the algorithm is constructed; ONE algorithm object serves the whole
      # multi-round history, as in a real experiment
      alg_b = self.fed_avg.federated_averaging(grad_fn, self.mk_opt(case['copt']),
                                               self.mk_opt(case['sopt']), hp)
    for ri, cohort in enumerate(case['rounds']):
      keys = jax.random.split(jax.random.PRNGKey(case['key_seed'] + ri), max(1, len(cohort)))
      logs = [[] for _ in cohort]
      clients = []
      for j, c in enumerate(cohort):
        raw = {'x': np.asarray(c['x'], dtype=np.float32).reshape(len(c['y']), d),
               'y': np.asarray(c['y'], dtype=np.float32)}
        clients.append((c['id'], self.RecDataset(raw, logs[j]), keys[j]))
      idx = list(range(len(clients)))
      if order_seed is not None:
        pyrandom.Random(order_seed * 31 + ri).shuffle(idx)
      prev_state = state
      with Watchdog(20):
        state, diag = alg_b.apply(state, [clients[i] for i in idx])
      # the caller's input state must stay valid and unchanged (it may be kept, re-used, checkpointed)
      try:
        for leaf in jax.tree_util.tree_leaves((prev_state.params, prev_state.opt_state)):
          np.asarray(leaf)
      except RuntimeError as e:
        raise InputInvalidated(f'round {ri}: the input server state is no longer readable after apply(): {str(e)[:120]}')
      out_states.append(state)
      out_diag.append(diag)
      out_logs.append(logs)
      out_keys.append(keys)
    return out_states, out_diag, out_logs, out_keys

  def _noise(self, key, n_steps, d):
    """noise vectors for the use-keys of the documented chain rng, use = split(rng)."""
    jax = self.jax
    res = []
    rng = key
    for _ in range(n_steps):
      rng, use = jax.random.split(rng)
      res.append(KAPPA * np.asarray(jax.random.normal(use, (d,)), dtype=np.float64))
    return res

  def evaluate(self, case, ctx):
    jax, jnp = self.jax, self.jnp
    d = case['d']
    tags = [f'backend={case["backend"]}', f'copt={case["copt"][0]}', f'sopt={case["sopt"][0]}',
            f'rounds={len(case["rounds"])}', f'epochs={case["epochs"]}', f'steps={case["steps"]}',
            f'nan_on_padding_batch={bool(case.get("nanpad"))}']
    if any(len({c['id'] for c in co}) != len(co) for co in case['rounds']):
      # the property speaks about a SET of sampled clients: a cohort listing one id twice is outside its domain
      return Outcome(nontrivial=False, tags=('out-of-domain: repeated client id',))
    has_empty = any(len(c['y']) == 0 for co in case['rounds'] for c in co)
    all_empty_round = any(co and all(len(c['y']) == 0 for c in co) for co in case['rounds'])
    tags.append(f'empty_client={has_empty}')
    tags.append(f'all_empty_round={all_empty_round}')
    try:
      states, diags, logs, keys = self._run_impl(case)
    except TimeoutError:
      return Outcome(oracle_fail='the round never returns (watchdog 20 s): an empty client dataset with '
                     'num_epochs=None and num_steps>0 makes shuffle_repeat_batch spin without yielding',
                     key='C01/empty-client/steps-only-never-returns', tags=tuple(tags))
    except InputInvalidated as e:
      return Outcome(oracle_fail=str(e), key='C01/input-state-invalidated', tags=tuple(tags))
    except Exception as e:
      return Outcome(oracle_fail=f'round raised {type(e).__name__}: {str(e)[:200]}', tags=tuple(tags))
    problems, corr = [], []

    # ---------------- independent oracle: the mathematical definition, using the optimizers as externals
    copt, sopt = self.mk_opt(case['copt']), self.mk_opt(case['sopt'])
    w = {'w': jnp.asarray(case['w0'], dtype=jnp.float32)}
    s_opt_state = sopt.init(w)
    nontrivial = False
    scale = float(np.max(np.abs(case['w0']))) if case['w0'] else 0.0
    model_cohorts = []
    for ri, cohort in enumerate(case['rounds']):
      deltas, sizes = [], []
      mcohort = []
      for j, c in enumerate(cohort):
        batches = logs[ri][j]
        want_steps = expected_steps(len(c['y']), case['bs'], case['epochs'], case['steps'], case['drop'])
        if want_steps is not None and len(batches) != want_steps:
          problems.append(f'round {ri} client {c["id"]} ({len(c["y"])} examples, batch_size={case["bs"]}, '
                          f'num_epochs={case["epochs"]}, num_steps={case["steps"]}, drop_remainder={case["drop"]}) '
                          f'ran {len(batches)} local steps, the documented number is {want_steps}')
        noise = self._noise(keys[ri][j], len(batches), d)
        p = w
        o = copt.init(p)
        for t, b in enumerate(batches):
          err = np.asarray(b['x'], np.float64) @ np.asarray(p['w'], np.float64) - np.asarray(b['y'], np.float64)
          g = np.mean(err[:, None] * np.asarray(b['x'], np.float64), axis=0) + noise[t]
          o, p = copt.apply({'w': jnp.asarray(g, dtype=jnp.float32)}, o, p)
          scale = max(scale, float(np.max(np.abs(np.asarray(p['w'])))))
          if b['x'].shape[0] != case['bs']:
            problems.append(f'client {c["id"]} saw a batch of {b["x"].shape[0]} rows')
        deltas.append(np.asarray(w['w'], np.float64) - np.asarray(p['w'], np.float64))
        sizes.append(len(c['y']))
        mcohort.append([c['id'], len(c['y']),
                        [[list(map(float, row)) + [float(yy)] for row, yy in zip(b['x'], b['y'])] for b in batches],
                        [list(map(float, nz)) for nz in noise]])
      model_cohorts.append(mcohort)
      tot = float(sum(sizes))
      if tot > 0:
        mean = sum(n * dl for n, dl in zip(sizes, deltas)) / tot
      else:
        mean = np.zeros(d)
      # wrong variants a realistic bug would compute
      if deltas:
        variants = [sum(deltas) / len(deltas), sum(n * dl for n, dl in zip(sizes, deltas)) / len(deltas), -mean]
        if all(np.max(np.abs(v - mean)) > 100 * 2e-4 * (1 + scale) for v in variants):
          nontrivial = True
      s_opt_state, w = sopt.apply({'w': jnp.asarray(mean, dtype=jnp.float32)}, s_opt_state, w)
      scale = max(scale, float(np.max(np.abs(np.asarray(w['w'])))))
      if not close(states[ri].params['w'], w['w'], scale):
        problems.append(f'round {ri}: server params {np.asarray(states[ri].params["w"]).tolist()} != '
                        f'definition {np.asarray(w["w"]).tolist()}')
        break
      if not np.all(np.isfinite(np.asarray(states[ri].params['w']))):
        problems.append(f'round {ri}: non-finite server params')
      ids = [c['id'] for c in cohort]
      if sorted(diags[ri].keys()) != sorted(set(ids)):
        problems.append(f'round {ri}: diagnostics keys {sorted(diags[ri].keys())} != participating ids {sorted(set(ids))}')
      if tot == 0 and cohort and case['sopt'][0] == 'sgd':
        prev = case['w0'] if ri == 0 else np.asarray(states[ri - 1].params['w'])
        if not np.array_equal(np.asarray(states[ri].params['w']), np.asarray(prev, dtype=np.float32)):
          problems.append(f'round {ri} saw no examples but plain SGD changed the params')
    # order independence (and determinism): same history with the clients listed in another order
    if not problems and any(len(co) > 1 for co in case['rounds']):
      try:
        states2, _, _, _ = self._run_impl(case, order_seed=case['perm_seed'])
        for ri in range(len(states)):
          if not close(states2[ri].params['w'], states[ri].params['w'], scale):
            problems.append(f'round {ri}: result depends on the order in which clients are listed')
            break
        ctx.count('order_permutations_checked')
      except TimeoutError:
        problems.append('permuted run never returns')

    # ---------------- correspondence with the Lean model (exact optimizers only)
    if case['copt'][0] in EXACT_OPTS and case['sopt'][0] in EXACT_OPTS and not problems:
      kind = {'sgd': 0, 'momentum': 1, 'nesterov': 2}
      ans = ctx.drv.ask1('c01.rounds', [kind[case['copt'][0]], case['copt'][1], case['copt'][2]],
                         [kind[case['sopt'][0]], case['sopt'][1], case['sopt'][2]],
                         [float(v) for v in case['w0']], model_cohorts)
      for ri, (mp, mo) in enumerate(ans):
        if not close(states[ri].params['w'], [float(v) for v in mp], scale):
          corr.append(f'round {ri}: model params {[float(v) for v in mp]} vs impl '
                      f'{np.asarray(states[ri].params["w"]).tolist()}')
          break
        if case['sopt'][0] != 'sgd':
          tr = jax.tree_util.tree_leaves(states[ri].opt_state)
          tr = [np.asarray(l) for l in tr if np.asarray(l).shape == (d,)]
          if tr and not close(tr[0], [float(v) for v in mo], scale):
            corr.append(f'round {ri}: model server momentum {[float(v) for v in mo]} vs impl {tr[0].tolist()}')
            break
      ctx.count('model_histories')
      ids_all = [c['id'] for c in case['rounds'][0]] if case['rounds'] else []
      mk = ctx.drv.ask1('c01.diag', ids_all)
      if case['rounds'] and sorted(mk) != sorted(diags[0].keys()):
        corr.append(f'diagnostics keys: model {mk} vs impl {sorted(diags[0].keys())}')
    return Outcome(oracle_fail='; '.join(problems[:3]) or None, corr_fail='; '.join(corr[:2]) or None,
                   nontrivial=nontrivial, tags=tuple(tags))


PROPERTY = C01
