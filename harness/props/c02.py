"""C02 — all for-each-client backends equal the sequential per-client fold."""
import contextvars
import queue
import threading
from fractions import Fraction

import numpy as np

from vlib import core
from vlib.core import Outcome, line

BATCH_WIDTH = 2
VALS = [1, 2, 4, -1, -2, -4, 0.5, -0.5]
# legal client ids (ClientId = Any hashable): falsy values, None, tuples, strings
ODD_IDS = [None, 0, b'', ('silo', 3), 'x', -1, (None, 3), 1.5]


def frac_list(a):
  return [Fraction(float(x)) for x in np.asarray(a).reshape(-1)]


class C02(core.Property):
  ID = 'C02'
  RULE = ('program = (step kind 0..2 incl. 1/sum(batch) which is Inf on the zero padding batch, shared, '
          'clients [(id, input, batches)], device count D 1..8, backend jit/debug/pmap, with/without step results); '
          'thread schedules of get/set/enter/exit over 1..3 threads; non-trivial = at least 2 clients with '
          'different batch counts (program cases) or >= 4 ops incl. an enter (schedules); distinct by case digest')
  TRUSTED = ['JAX jit/pmap execute the traced function faithfully; thread-local storage of CPython',
             'buffer validity / donation / aliasing are monitored on generated cases (partial), not proved']
  ASSUMPTIONS = ['client functions are pure JAX functions']
  QUICK_BUDGET_S = 150
  THOROUGH_BUDGET_S = 900

  def setup(self, ctx):
    import jax
    import jax.numpy as jnp
    from fedjax.core import for_each_client as fec
    self.jax, self.jnp, self.fec = jax, jnp, fec
    self.ndev = len(jax.local_devices())

    def init(shared, inp):
      # 'seen' starts as an int32 counter and becomes float32 at the first step (a state leaf may change dtype)
      return {'a': jnp.stack([shared['s'] + inp['i'], inp['i']]), 'cnt': jnp.int32(0), 'seen': jnp.int32(0)}

    def mk_step(kind):
      def step(st, batch):
        s = jnp.sum(batch['x'])
        a0, a1 = st['a'][0], st['a'][1]
        if kind == 0:
          na, r = jnp.stack([a0 + s, a1 + 1]), s
        elif kind == 1:
          na, r = jnp.stack([2 * a0 + s, a1 - s]), a0
        else:
          na, r = jnp.stack([a0 + 1 / s, a1 + s]), 1 / s
        return {'a': na, 'cnt': st['cnt'] + 1, 'seen': st['seen'] + jnp.float32(0.5)}, {'r': r, 'px': batch['x'] + a0}
      return step

    def final(shared, st):
      return {'o': jnp.stack([shared['s'] * st['a'][0], st['a'][1], st['cnt'].astype(jnp.float32)]),
              'seen': st['seen'].astype(jnp.float32)}

    self.init, self.mk_step, self.final = init, mk_step, final

  # ------------------------------------------------------------------ generation
  def gen_cases(self, rng, tier):
    n_prog = 45 if tier == 'quick' else 400
    n_sched = 150 if tier == 'quick' else 3000
    n_leafless = 9 if tier == 'quick' else 60
    for i in range(n_leafless):
      yield {'leafless': ['noinput', 'nostate', 'both'][i % 3], 'backend': ['pmap', 'pmap', 'jit', 'debug', 'pmap'][i % 5],
             'D': rng.randrange(1, min(8, self.ndev) + 1), 'shared': rng.choice([1, 2, -1, 3]),
             'clients': [[100 + c, [rng.choice(VALS) for _ in range(rng.choice([0, 1, 2, 3]))]] for c in range(rng.choice([1, 2, 3, 5]))]}
    for i in range(max(n_prog, n_sched)):
      if i < n_sched:
        yield self._gen_sched(rng)
      if i < n_prog:
        yield self._gen_prog(rng, i)

  def _gen_prog(self, rng, i):
    n = rng.choice([0, 1, 2, 3, 4, 5, 6, 7, 9])
    clients = []
    shape = rng.randrange(4)
    for c in range(n):
      nb = {0: rng.randrange(0, 5), 1: rng.choice([0, 0, 3]), 2: rng.choice([2, 2, 1]), 3: 0}[shape]
      batches = [[rng.choice(VALS), 0] if rng.random() < 0.5 else [0, rng.choice(VALS)] for _ in range(nb)]
      clients.append([100 + c, rng.choice([0, 1, -1, 2, 3]), batches])
    rng.shuffle(clients)
    backend = ['jit', 'debug', 'pmap', 'pmap'][i % 4]
    return {'kind': rng.randrange(3), 'shared': rng.choice([1, 2, -1, 3]), 'clients': clients,
            'D': rng.randrange(1, min(8, self.ndev) + 1), 'backend': backend,
            'with_step_result': rng.random() < 0.8, 'committed': rng.random() < 0.5,
            'shared2': rng.choice([None, -3, 5, 4]), 'idkind': rng.choice(['int', 'odd', 'odd']),
            'typed_keys': rng.random() < 0.3}

  def _gen_sched(self, rng):
    """ops: 0 get, 1 set, 2 enter a `with` block, 3 leave it, 4 call a function decorated with
    for_each_client_backend(arg) (the decorated function object is SHARED by all threads and may be
    re-entered recursively), 5 return from it. 2/3 and 4/5 are properly nested per thread."""
    nt = rng.randrange(1, 4)
    kinds = [[] for _ in range(nt)]      # per thread: stack of open brackets, 'w' or 'd'
    ops = []
    deco_arg = rng.choice([1, 2, 3, 10])  # few distinct args so the same decorated object is re-entered
    for _ in range(rng.randrange(3, 14)):
      t = rng.randrange(nt)
      code = rng.choice([0, 1, 2, 2, 3, 3, 4, 4, 3, 6, 7])
      if code == 3:
        if not kinds[t]:
          code = 0
        elif kinds[t][-1] == 'd':
          code = 5
      arg = -1
      if code in (1, 2, 6):
        arg = rng.choice([-1, -2, 1, 2, 3, 10, 11])
      if code == 4:
        arg = rng.choice([deco_arg, deco_arg, deco_arg, -2, -1, 2])
      if code == 2 and arg != -2:
        kinds[t].append('w')
      if code == 4 and arg != -2:
        kinds[t].append('d')
      if code in (3, 5):
        kinds[t].pop()
      ops.append([t, code, arg, rng.choice([0, 0, 0, 1, 2])])   # last: leave normally / by KeyError / by GeneratorExit
    return {'sched': ops, 'threads': nt}

  def shrink(self, case):
    if 'leafless' in case:
      cl = case['clients']
      for i in range(len(cl)):
        if len(cl) > 1:
          yield {**case, 'clients': cl[:i] + cl[i + 1:]}
      if case['D'] > 1:
        yield {**case, 'D': 1}
      return
    if 'sched' in case:
      ops = case['sched']
      for i in range(len(ops)):
        cand = ops[:i] + ops[i + 1:]
        # keep bracket structure valid per thread
        ok, depth = True, {}
        for t, code, arg, _ in cand:
          st = depth.setdefault(t, [])
          if code in (2, 4) and arg != -2:
            st.append('w' if code == 2 else 'd')
          if code in (3, 5):
            ok = ok and bool(st) and st[-1] == ('w' if code == 3 else 'd')
            if st:
              st.pop()
        if ok:
          yield {**case, 'sched': cand}
      return
    cl = case['clients']
    for i in range(len(cl)):
      yield {**case, 'clients': cl[:i] + cl[i + 1:]}
    for i, c in enumerate(cl):
      if c[2]:
        yield {**case, 'clients': cl[:i] + [[c[0], c[1], c[2][:-1]]] + cl[i + 1:]}
    if case['D'] > 1:
      yield {**case, 'D': case['D'] - 1}

  # ------------------------------------------------------------------ evaluation
  def evaluate(self, case, ctx):
    if 'sched' in case:
      return self._eval_sched(case, ctx)
    if 'leafless' in case:
      return self._eval_leafless(case, ctx)
    return self._eval_prog(case, ctx)

  def _eval_leafless(self, case, ctx):
    """Client programs without a per-client input (None, as ModelEvaluator.evaluate_global_params passes) and /
    or with an empty state pytree: legal programs, every backend must still equal the sequential fold."""
    jax, jnp, fec = self.jax, self.jnp, self.fec
    mode, D = case['leafless'], case['D']
    noinput, nostate = mode in ('noinput', 'both'), mode in ('nostate', 'both')
    def init(shared, inp):
      base = shared['s'] if noinput else shared['s'] + inp['i']
      return () if nostate else {'a': base}
    def step(st, batch):
      s = jnp.sum(batch['x'])
      return (() if nostate else {'a': 2 * st['a'] + s}), {'r': s + 1}
    def final(shared, st):
      return {'o': shared['s'] * (3.0 if nostate else st['a'])}
    mk = lambda: [(cid, [{'x': jnp.asarray([b, 0], dtype=jnp.float32)} for b in bs], None if noinput else {'i': jnp.float32(j)})
                  for j, (cid, bs) in enumerate(case['clients'])]
    shared = {'s': jnp.float32(case['shared'])}
    backend = fec.ForEachClientPmapBackend(jax.local_devices()[:D]) if case['backend'] == 'pmap' else case['backend']
    tags = ('leafless', f'mode={mode}', f'backend={case["backend"]}')
    problems = []
    try:
      with fec.for_each_client_backend(backend):
        f = fec.for_each_client(init, step, final, with_step_result=True)
      res = {cid: (frac_list(out['o']), [frac_list(r['r'])[0] for r in srs]) for cid, out, srs in f(shared, mk())}
    except Exception as e:
      return Outcome(oracle_fail=f'backend {case["backend"]} (D={D}) raised {type(e).__name__}: {str(e)[:200]} on a client program '
                     f'with {"no per-client input (None)" if noinput else ""}{" and " if mode == "both" else ""}{"an empty state pytree" if nostate else ""}',
                     key=f'C02/{case["backend"]}/leafless-program-raises', tags=tags, nontrivial=True)
    with jax.disable_jit():
      for cid, bs, ci in mk():
        st, rs = init(shared, ci), []
        for bb in bs:
          st, r = step(st, bb)
          rs.append(frac_list(r['r'])[0])
        want = (frac_list(final(shared, st)['o']), rs)
        if res.get(cid) != want:
          problems.append(f'client {cid}: {res.get(cid)} != sequential fold {want}')
    if sorted(res) != sorted(c[0] for c in case['clients']):
      problems.append(f'result ids {sorted(res)} != input ids')
    ctx.count('leafless_programs')
    return Outcome(oracle_fail='; '.join(problems[:3]) or None, nontrivial=True, tags=tags)

  @staticmethod
  def _rid(case, mid):
    """real client id used for the model's client `mid` (100 + index)"""
    k = mid - 100
    if case.get('idkind') == 'odd' and 0 <= k < len(ODD_IDS):
      return ODD_IDS[k]
    return mid

  def _eval_prog(self, case, ctx):
    jax, jnp, fec = self.jax, self.jnp, self.fec
    kind, D, backend_name = case['kind'], case['D'], case['backend']
    step = self.mk_step(kind)
    shared = {'s': jnp.float32(case['shared'])}
    if case.get('committed'):
      # e.g. the output of an earlier round: committed to one device
      shared = {'s': jax.device_put(shared['s'], jax.local_devices()[0])}
    rid = {mid: self._rid(case, mid) for mid, _, _ in case['clients']}
    back = {repr(v): k for k, v in rid.items()}
    typed = bool(case.get('typed_keys'))
    def mk_in(inp, j):
      d = {'i': jnp.float32(inp)}
      if typed:            # a new-style typed PRNG key travelling with the client input (never consumed)
        d['k'] = jax.random.key(j)
      return d
    mk = lambda: [(rid[cid], [{'x': jnp.asarray(b, dtype=jnp.float32)} for b in batches], mk_in(inp, j))
                  for j, (cid, inp, batches) in enumerate(case['clients'])]
    clients = mk()
    snap_shared = np.asarray(shared['s']).copy()
    snap = [(np.asarray(ci['i']).copy(), [np.asarray(b['x']).copy() for b in bs]) for _, bs, ci in clients]
    if backend_name == 'pmap':
      backend = fec.ForEachClientPmapBackend(jax.local_devices()[:D])
    else:
      backend = backend_name
    problems, corr = [], []
    wsr = case['with_step_result']
    try:
      with fec.for_each_client_backend(backend):
        if wsr:
          f = fec.for_each_client(self.init, step, self.final, with_step_result=True)
        else:
          f0 = fec.for_each_client(self.init, lambda s, b: step(s, b)[0], self.final)
          f = lambda sh, cl: ((cid, out, None) for cid, out in f0(sh, cl))
    except Exception as e:
      return Outcome(oracle_fail=f'constructing backend {backend_name} raised {type(e).__name__}: {str(e)[:200]}',
                     tags=(f'backend={backend_name}',))
    impl, ans = {}, None
    # the same function is called twice: the second call passes the SAME shared container with its
    # leaf replaced in place and the SAME client batch/input objects (they must still be valid)
    shared_vals = [case['shared']] + ([case['shared2']] if case.get('shared2') is not None else [])
    for call_no, sval in enumerate(shared_vals):
      if call_no > 0:
        shared['s'] = jnp.float32(sval)
        snap_shared = np.asarray(shared['s']).copy()
      try:
        res = [(back.get(repr(cid), repr(cid)), out, srs) for cid, out, srs in f(shared, clients)]
      except Exception as e:  # the property says every backend yields the results
        key = 'C02/pmap/unusable-api' if backend_name == 'pmap' and isinstance(e, AttributeError) else None
        return Outcome(oracle_fail=f'backend {backend_name} (D={D}) call {call_no} raised {type(e).__name__}: {str(e)[:200]}',
                       key=key, tags=(f'backend={backend_name}',), nontrivial=len(case['clients']) > 1)
      # monitors: inputs stay valid and unchanged
      try:
        if not np.array_equal(np.asarray(shared['s']), snap_shared):
          problems.append('shared input changed')
        for (ci_s, bs_s), (_, bs, ci) in zip(snap, clients):
          if not np.array_equal(np.asarray(ci['i']), ci_s[0] if isinstance(ci_s, tuple) else ci_s):
            problems.append('client input changed')
          for bb, b_s in zip(bs, bs_s):
            if not np.array_equal(np.asarray(bb['x']), b_s):
              problems.append('client batch changed')
      except RuntimeError as e:
        problems.append(f'caller input invalidated after call {call_no}: {str(e)[:120]}')
      ctx.count('input_validity_monitor')

      # independent oracle: plain Python fold per client without jit, on fresh copies of the inputs
      expect = {}
      sh_ref = {'s': jnp.float32(sval)}
      with jax.disable_jit():
        for cid, bs, ci in mk():
          cid = back[repr(cid)]
          st = self.init(sh_ref, ci)
          rs = []
          for bb in bs:
            st, r = step(st, bb)
            rs.append(r)
          expect[cid] = (self.final(sh_ref, st), rs)
      got_ids = [cid for cid, _, _ in res]
      if sorted(map(str, got_ids)) != sorted(map(str, expect)):
        problems.append(f'call {call_no}: result ids {got_ids} != input ids {sorted(expect)}')
      impl = {}
      for cid, out, srs in res:
        o = frac_list(out['o'])
        rs = None if srs is None else [frac_list(r['r'])[0] for r in srs]
        impl[cid] = (o, rs)
        if cid in expect:
          eo = frac_list(expect[cid][0]['o'])
          er = [frac_list(r['r'])[0] for r in expect[cid][1]]
          if o != eo:
            problems.append(f'call {call_no} client {cid}: output {o} != sequential fold {eo}')
          if rs is not None and rs != er:
            problems.append(f'call {call_no} client {cid}: step results {rs} != sequential {er}')
          if srs is not None and len(srs) == len(expect[cid][1]):
            for r_i, r_e in zip(srs, expect[cid][1]):
              if frac_list(r_i['px']) != frac_list(r_e['px']):
                problems.append(f'call {call_no} client {cid}: per-example step result differs from sequential')
          if frac_list(out['seen']) != frac_list(expect[cid][0]['seen']):
            problems.append(f'call {call_no} client {cid}: state leaf whose dtype changes at the first step: '
                            f'{frac_list(out["seen"])} != sequential fold {frac_list(expect[cid][0]["seen"])}')
          if any(x != x for x in np.asarray(out['o']).tolist()):
            problems.append(f'call {call_no} client {cid}: NaN in output')

      # correspondence with the model
      mclients = [[cid, inp, batches] for cid, inp, batches in case['clients']]
      if backend_name == 'pmap':
        ans = ctx.drv.ask1('c02.pmap', kind, D, sval, mclients)
      else:
        ans = ctx.drv.ask1('c02.seq', kind, sval, mclients)
      model = {m[0]: (m[1], m[2]) for m in ans}
      if sorted(map(str, model)) != sorted(map(str, impl)):
        corr.append(f'call {call_no}: model ids {sorted(model)} vs impl ids {sorted(impl)}')
      for cid in impl:
        if cid in model:
          mo, mr = model[cid]
          if [Fraction(x) for x in mo] != impl[cid][0]:
            corr.append(f'call {call_no} client {cid}: model output {mo} vs impl {impl[cid][0]}')
          if impl[cid][1] is not None and [Fraction(x) for x in mr] != impl[cid][1]:
            corr.append(f'call {call_no} client {cid}: model step results {mr} vs impl {impl[cid][1]}')
      if problems or corr:
        break
    mclients = [[cid, inp, batches] for cid, inp, batches in case['clients']]
    nbs = sorted({len(c[2]) for c in case['clients']})
    tags = (f'backend={backend_name}', f'kind={kind}', f'nclients={min(len(mclients), 6)}',
            f'mult_of_D={len(mclients) % D == 0}', f'batchcounts={"uniform" if len(nbs) <= 1 else "mixed"}',
            f'zero_batch_client={any(len(c[2]) == 0 for c in case["clients"])}', f'wsr={wsr}', f'committed_shared={bool(case.get("committed"))}',
            f'second_call={case.get("shared2") is not None}', f'ids={case.get("idkind", "int")}', f'typed_keys={bool(case.get("typed_keys"))}')
    return Outcome(oracle_fail='; '.join(problems[:4]) or None, corr_fail='; '.join(corr[:3]) or None,
                   nontrivial=len(nbs) > 1, tags=tags,
                   detail={'impl': {k: [list(map(str, v[0])), None if v[1] is None else list(map(str, v[1]))]
                                    for k, v in impl.items()}, 'model': str(ans)})

  # ---- thread-local backend choice
  def _label(self, b):
    fec = self.fec
    if b is None:
      return None
    if b is self.objs[10]:
      return 10
    if b is self.objs[11]:
      return 11
    if isinstance(b, fec.ForEachClientJitBackend):
      return 1
    if isinstance(b, fec.ForEachClientDebugBackend):
      return 2
    if isinstance(b, fec.ForEachClientPmapBackend):
      return 3
    return 99

  def _arg(self, a):
    return {-1: None, -2: 'no-such-backend', 1: 'jit', 2: 'debug', 3: 'pmap'}.get(a, self.objs.get(a))

  def _eval_sched(self, case, ctx):
    fec = self.fec
    self.objs = {10: fec.ForEachClientDebugBackend(), 11: fec.ForEachClientJitBackend()}
    nt = case['threads']
    # every bracket the schedule leaves open is closed at the end, in its own thread (an abandoned
    # generator context manager would otherwise be finalised by the garbage collector in whatever
    # thread happens to run it, i.e. its `finally` would restore a backend in the wrong thread)
    sched = [list(o) for o in case['sched']]
    open_kinds = [[] for _ in range(nt)]
    for t, code, arg, _ in sched:
      if code in (2, 4) and arg != -2:
        open_kinds[t].append('w' if code == 2 else 'd')
      if code in (3, 5) and open_kinds[t]:
        open_kinds[t].pop()
    for t in range(nt):
      for k in reversed(open_kinds[t]):
        sched.append([t, 3 if k == 'w' else 5, -1, False])
    qs = [queue.Queue() for _ in range(nt)]
    rs = [queue.Queue() for _ in range(nt)]

    class _Stop(BaseException):
      pass

    # ONE decorated function per argument value, shared by all threads (a contextmanager-based
    # context manager is also a decorator; every call must get its own saved state)
    def _run_nested(loop):
      return loop()
    wrapped = {}
    for a in (-2, -1, 1, 2, 3, 10, 11):
      try:
        wrapped[a] = fec.for_each_client_backend(self._arg(a))(_run_nested)
      except Exception as e:   # constructing the decorator must not fail
        wrapped[a] = e

    def worker(t):
      stack = []

      def respond(got, verr, ddepth):
        rs[t].put((got, verr, self._label(fec.get_for_each_client_backend()), len(stack) + ddepth))

      def loop(ddepth, announce):
        if announce:
          respond(None, False, ddepth)            # the decorated call has been entered
        while True:
          cmd = qs[t].get()
          if cmd is None:
            raise _Stop()
          code, arg, by_exc = cmd
          got, verr = None, False
          try:
            if code == 0:
              got = self._label(fec.get_for_each_client_backend())
            elif code == 1:
              fec.set_for_each_client_backend(self._arg(arg))
            elif code == 2:
              cm = fec.for_each_client_backend(self._arg(arg))
              cm.__enter__()
              stack.append(cm)
            elif code == 3:
              cm = stack.pop()
              if by_exc:
                etype = GeneratorExit if by_exc == 2 else KeyError
                e = etype('boom')
                try:
                  if cm.__exit__(etype, e, None):
                    got = 'swallowed'
                except (KeyError, GeneratorExit):
                  pass
              else:
                cm.__exit__(None, None, None)
            elif code == 4:
              w = wrapped[arg]
              if isinstance(w, Exception):
                raise w
              try:
                w(lambda: loop(ddepth + 1, True))
              except (KeyError, GeneratorExit):
                pass                               # the decorated function was left by an exception
              # the inner loop has answered the call op; this answer belongs to the return op
              respond(None, False, ddepth)
              continue
            elif code == 5:
              if by_exc:
                raise (GeneratorExit if by_exc == 2 else KeyError)('boom')
              return
            elif code == 6:
              contextvars.copy_context().run(fec.set_for_each_client_backend, self._arg(arg))
            elif code == 7:
              box = []
              cctx = contextvars.copy_context()   # what asyncio.to_thread / run_in_executor hand to a worker
              th = threading.Thread(target=lambda: box.append(cctx.run(lambda: self._label(fec.get_for_each_client_backend()))))
              th.start()
              th.join(30)
              got = box[0] if box else 'no-answer'
            elif code == 9:
              pass
          except ValueError:
            verr = True
          respond(got, verr, ddepth)

      try:
        loop(0, False)
      except _Stop:
        pass

    threads = [threading.Thread(target=worker, args=(t,), daemon=True) for t in range(nt)]
    for th in threads:
      th.start()
    obs = []
    try:
      for t, code, arg, by_exc in sched:
        qs[t].put((code, arg, by_exc))
        got, verr, _, _ = rs[t].get(timeout=30)
        curs, depths = [], []
        for u in range(nt):
          qs[u].put((9, -1, False))
          _, _, cur, depth = rs[u].get(timeout=30)
          curs.append(cur)
          depths.append(depth)
        obs.append([got, verr, curs, depths])
    finally:
      for q in qs:
        q.put(None)
      for th in threads:
        th.join(timeout=10)
    # the model knows get/set/enter/exit; op 6 is a set as far as a thread-scoped choice is concerned, op 7
    # (a read in another thread) is judged by the oracle only. The choice is observed through the public
    # get_for_each_client_backend(), which cannot tell "unset" from the default (jit) backend: both are 1.
    canon = lambda x: 1 if x is None else x
    midx = [i for i, o in enumerate(sched) if o[1] != 7]
    ans = ctx.drv.ask1('c02.tl', 1, nt, [[sched[i][0], {4: 2, 5: 3, 6: 1}.get(sched[i][1], sched[i][1]), sched[i][2]] for i in midx])
    corr, problems = [], []
    for a, i in zip(ans, midx):
      o = obs[i]
      a_c = [canon(a[0]) if sched[i][1] == 0 else a[0], a[1], [canon(x) for x in a[2]], a[3]]
      o_c = [o[0], o[1], [canon(x) for x in o[2]], o[3]]
      if a_c != o_c:
        corr.append(f'op {i} {sched[i]}: model {a_c} vs impl {o_c}')
        break
    # independent oracle: per-thread bracket discipline (restore on exit, other threads untouched)
    saved = [[] for _ in range(nt)]
    prev = [1] * nt
    for (t, code, arg, by_exc), (got, verr, curs, depths) in zip(sched, obs):
      curs = [canon(x) for x in curs]
      if code == 7:
        if got != 1:
          problems.append(f'a fresh thread running inside a copy of thread {t}\'s contextvars context (what asyncio.to_thread '
                          f'does) sees backend {got} instead of the default: the selection is not scoped to the thread')
        if curs[t] != prev[t]:
          problems.append('reading the choice from another thread changed it')
      if code == 6:
        want6 = prev[t] if arg == -2 else canon({-1: None, 1: 1, 2: 2, 3: 3}.get(arg, arg))
        if curs[t] != want6:
          problems.append(f'set_for_each_client_backend called inside a copied contextvars context in thread {t} is not '
                          f'visible afterwards in the same thread (sees {curs[t]}, set {want6}): the selection is not scoped to the thread')
        if arg == -2 and not verr:
          problems.append('unsupported backend name accepted')
      for u in range(nt):
        if u != t and curs[u] != prev[u]:
          problems.append(f'op of thread {t} changed the choice seen by thread {u}')
      if code in (2, 4):
        if arg == -2:
          if not verr:
            problems.append('unsupported backend name accepted')
          if curs[t] != prev[t]:
            problems.append('failed enter changed the choice')
        else:
          saved[t].append(prev[t])
      if code in (3, 5):
        want = saved[t].pop()
        if curs[t] != want:
          what = 'leaving a with block' if code == 3 else 'returning from a function decorated with the context manager'
          how = {0: '', 1: ' by an exception', 2: ' by GeneratorExit (a generator holding the block was closed early)'}[int(by_exc)]
          problems.append(f'{what}{how} restored {curs[t]} instead of {want}')
        if got == 'swallowed':
          problems.append('context manager swallowed the exception')
      prev = list(curs)
    ctx.count('schedule_ops', len(obs))
    n_enter = sum(1 for o in sched if o[1] in (2, 4))
    n_deco = sum(1 for o in sched if o[1] == 4)
    return Outcome(oracle_fail='; '.join(problems[:3]) or None, corr_fail='; '.join(corr[:2]) or None,
                   nontrivial=len(obs) >= 4 and n_enter > 0,
                   tags=('schedule', f'threads={nt}', f'enters={min(n_enter, 3)}', f'decorated_calls={min(n_deco, 3)}'),
                   detail={'impl': obs, 'model': ans})


PROPERTY = C02
