"""C16 — serialization round-trips every supported value exactly.

Three families of cases
  * ``tree``   : msgpack_serialize / msgpack_deserialize on generated trees. Correspondence with the
                 Lean model at wire level (independent msgpack parser of the real bytes vs the model's
                 ``encode``) and at value level (``msgpack_deserialize`` result vs the model's
                 ``decode ∘ encode``); independent Python oracle of the property on the real output.
  * ``sqlite`` : SQLiteFederatedDataBuilder -> file -> SQLiteFederatedData through a real temp dir;
                 model = ``addMany``/``clientIds``/``clientSizes``/``getClient``; oracle in Python.
  * ``ckpt`` / ``state`` : save_state/load_state and save_checkpoint/load_latest_checkpoint through
                 real temp files (pickle is a trusted codec: oracle only, nothing to model).

A case is JSON: trees are nested lists mirroring the protocol of ``Handlers/C16.lean``; array items
are hex strings of the item's bytes *in memory order* (so a swapped array holds big-endian items).
"""
import contextlib
import copy
import gc
import io
import os
import re
import shutil
import struct
import sys
import tempfile

import numpy as np

from vlib import core
from vlib.core import InfraError, Outcome, line

NUMERIC = ['bool', 'int8', 'int16', 'int32', 'int64', 'uint8', 'uint16', 'uint32', 'uint64',
           'float16', 'bfloat16', 'float32', 'float64', 'float128', 'complex64', 'complex128',
           'complex256']
ITEMSIZE = {'bool': 1, 'int8': 1, 'uint8': 1, 'int16': 2, 'uint16': 2, 'float16': 2, 'bfloat16': 2,
            'int32': 4, 'uint32': 4, 'float32': 4, 'int64': 8, 'uint64': 8, 'float64': 8,
            'complex64': 8, 'float128': 16, 'complex128': 16, 'complex256': 32}
JAX_OK = ['bool', 'int8', 'int16', 'int32', 'uint8', 'uint16', 'uint32', 'float16', 'bfloat16',
          'float32', 'complex64']
SHAPES = [[], [0], [0, 3], [2, 3, 4], [1], [3], [2, 2], [2, 0], [4], [1, 1, 1, 1, 2], [5, 1], [2, 3]]
LAYOUTS = ['C', 'F', 'strided', 'neg', 'T', 'jax']
# unsupported dtype tokens: token -> (numpy dtype constructor, model token)
FLEX = {'str32': ('<U1', 'str32'), 'str96': ('<U3', 'str96'), 'bytes8': ('S1', 'bytes8'),
        'bytes24': ('S3', 'bytes24'), 'void32': ('V4', 'void32'),
        'svoid64': ([('a', '<i4'), ('b', '<f4')], 'void64'),
        'svoid40': ([('a', 'i1'), ('b', '<f4')], 'void40'),
        'avoid64': ('aligned', 'avoid64')}


def _is_complex(dt):
  return dt.startswith('complex')


def np_dtype(tok):
  """numpy dtype (native order) of a dtype token."""
  if tok == 'bfloat16':
    import jax.numpy as jnp
    return np.dtype(jnp.bfloat16)
  if tok in FLEX:
    c = FLEX[tok][0]
    if c == 'aligned':
      return np.dtype([('a', 'i1'), ('b', '<f4')], align=True)
    return np.dtype(c)
  return np.dtype(tok)


def model_dtype(tok):
  return FLEX[tok][1] if tok in FLEX else tok


def item_size(tok):
  return ITEMSIZE[tok] if tok in ITEMSIZE else np_dtype(tok).itemsize


def swap_item(tok, b):
  """byte-swap of one item, stated independently of numpy: reverse (each half for complex)."""
  if _is_complex(tok):
    h = len(b) // 2
    return b[:h][::-1] + b[h:][::-1]
  return b[::-1]


def mask_ld(name, buf):
  """x87 long doubles occupy 16 bytes of which 6 are padding with arbitrary content: zero it."""
  if name not in ('float128', 'complex256'):
    return buf
  b = bytearray(buf)
  for i in range(0, len(b), 16):
    b[i + 10:i + 16] = b'\0' * len(b[i + 10:i + 16])
  return bytes(b)


def native_items(spec):
  _, shape, tok, swapped, layout, items = spec
  bs = [bytes.fromhex(i) for i in items]
  return [swap_item(tok, b) for b in bs] if swapped else bs


# ----------------------------------------------------------------------------------------------
# building Python objects from specs


def build(spec):
  k = spec[0]
  if k == 'none':
    return None
  if k == 'bool':
    return bool(spec[1])
  if k == 'int':
    return int(spec[1])
  if k == 'float':
    return struct.unpack('<d', bytes.fromhex(spec[1]))[0]
  if k == 'str':
    return bytes.fromhex(spec[1]).decode('utf-8')
  if k == 'bytes':
    return bytes.fromhex(spec[1])
  if k == 'complex':
    return complex(struct.unpack('<d', bytes.fromhex(spec[1]))[0],
                   struct.unpack('<d', bytes.fromhex(spec[2]))[0])
  if k == 'nd':
    return build_nd(spec)
  if k == 'nps':
    dt = np_dtype(spec[1])
    v = np.frombuffer(bytes.fromhex(spec[2]), dtype=dt)[0]
    if not isinstance(v, np.generic):
      raise InfraError(f'generator: {spec} did not build a numpy scalar')
    return v
  if k == 'obj':
    shape, elems = spec[1], spec[2]
    a = np.empty(len(elems), dtype=object)
    for i, e in enumerate(elems):
      a[i] = build(e)
    a = a.reshape(shape)
    layout = spec[3] if len(spec) > 3 else 'C'
    if layout == 'F' and a.ndim >= 2:
      a = np.asfortranarray(a)
    return a
  if k == 'tuple':
    return tuple(build(e) for e in spec[1])
  if k == 'list':
    return [build(e) for e in spec[1]]
  if k == 'dict':
    d = {}
    for kk, vv in spec[1]:
      key = build(kk)
      if key in d:
        raise InfraError('generator: duplicate dict key')
      d[key] = build(vv)
    return d
  if k == 'other':
    return {'set': set(), 'object': object(), 'frozenset': frozenset([1]), 'range': range(3),
            'ellipsis': Ellipsis}[spec[1]]
  raise InfraError(f'unknown spec {k}')


def build_nd(spec):
  _, shape, tok, swapped, layout, items = spec
  dt = np_dtype(tok)
  if swapped:
    dt = dt.newbyteorder('S')
  mem = b''.join(bytes.fromhex(i) for i in items)
  a = np.frombuffer(mem, dtype=dt).reshape(shape).copy()
  if layout == 'F' and a.ndim >= 1:
    a = np.asfortranarray(a)
  elif layout == 'T' and a.ndim >= 1:
    a = a.T.copy().T
  elif layout == 'strided' and a.ndim >= 1:
    big = np.zeros(tuple(shape[:-1]) + (2 * shape[-1] + 1,), dtype=dt)
    big[..., 1::2] = a
    a = big[..., 1::2]
  elif layout == 'neg' and a.ndim >= 1:
    a = a[::-1].copy()[::-1]
  elif layout == 'jax':
    import jax.numpy as jnp
    a = jnp.asarray(a)
    if a.dtype.name != tok:
      raise InfraError(f'generator: jax changed dtype {tok} -> {a.dtype.name}')
    return a
  # self-check of the generator (never a violation)
  if a.dtype.name != model_dtype(tok).replace('avoid', 'void') or list(a.shape) != list(shape):
    raise InfraError(f'generator: built {a.dtype.name}{a.shape} for {tok}{shape}')
  if tok in ITEMSIZE:
    if a.dtype.isnative == bool(swapped) and ITEMSIZE[tok] > 1:
      raise InfraError(f'generator: byte order flag wrong for {tok} swapped={swapped}')
    if (mask_ld(tok, np.ascontiguousarray(a).tobytes()) != mask_ld(tok, mem) and
        not (swapped and tok in ('float128', 'complex256'))):
      raise InfraError('generator: memory bytes differ from the spec')
  return a


# ----------------------------------------------------------------------------------------------
# independent statement of "supported" (the property's text) on specs


def bad_leaves(spec, in_key=False):
  """List of reasons why leaves of `spec` are outside the supported set (empty = supported)."""
  k = spec[0]
  if k in ('none', 'bool', 'float', 'str', 'bytes', 'complex'):
    return []
  if k == 'int':
    return [] if -2**63 <= int(spec[1]) < 2**64 else ['int-out-of-msgpack-range']
  if k == 'nd':
    return [] if spec[2] in ITEMSIZE else [f'dtype-{spec[2]}']
  if k == 'nps':
    return [] if spec[1] in ITEMSIZE else [f'scalar-dtype-{spec[1]}']
  if k == 'obj':
    return [] if all(e[0] == 'bytes' for e in spec[2]) else ['objarr-non-bytes']
  if k == 'tuple':
    return ['tuple']
  if k == 'other':
    return ['other-object']
  if k == 'list':
    return [r for e in spec[1] for r in bad_leaves(e)]
  if k == 'dict':
    res = []
    for kk, vv in spec[1]:
      if kk[0] not in ('str', 'bytes'):
        res.append('dict-key-' + kk[0])
      res += bad_leaves(vv)
    return res
  raise InfraError(f'unknown spec {k}')


# ----------------------------------------------------------------------------------------------
# protocol forms


def proto(spec):
  """spec -> nested lists of protocol tokens (layout is below the model)."""
  k = spec[0]
  if k in ('none',):
    return ['none']
  if k == 'bool':
    return ['bool', bool(spec[1])]
  if k == 'int':
    return ['int', int(spec[1])]
  if k in ('float', 'str', 'bytes'):
    return [k, 'x' + spec[1]]
  if k == 'complex':
    return ['complex', 'x' + spec[1], 'x' + spec[2]]
  if k == 'nd':
    return ['nd', list(spec[1]), model_dtype(spec[2]), bool(spec[3]), ['x' + i for i in spec[5]]]
  if k == 'nps':
    return ['nps', model_dtype(spec[1]), 'x' + spec[2]]
  if k == 'obj':
    return ['obj', list(spec[1]), [proto(e) for e in spec[2]]]
  if k in ('tuple', 'list'):
    return [k, [proto(e) for e in spec[1]]]
  if k == 'dict':
    return ['dict', [[proto(a), proto(b)] for a, b in spec[1]]]
  if k == 'other':
    return ['other']
  raise InfraError(f'unknown spec {k}')


def norm(v):
  """normal form shared with decoded model answers"""
  return core.dec(core.enc(v))


def dtype_token(dt):
  if dt.names is not None and dt.isalignedstruct:
    return 'avoid' + str(dt.itemsize * 8)
  return dt.name


def render(o):
  """A Python value as returned by msgpack_deserialize -> the model's `pyVal` form.
  Arrays are rendered through their values: items in native byte order, flag false."""
  import jax
  if o is None:
    return ['none']
  if type(o) is bool:
    return ['bool', o]
  if type(o) is int:
    return ['int', o]
  if type(o) is float:
    return ['float', 'x' + struct.pack('<d', o).hex()]
  if type(o) is str:
    return ['str', 'x' + o.encode('utf-8').hex()]
  if type(o) is bytes:
    return ['bytes', 'x' + o.hex()]
  if type(o) is complex:
    return ['complex', 'x' + struct.pack('<d', o.real).hex(), 'x' + struct.pack('<d', o.imag).hex()]
  if isinstance(o, jax.Array):
    return ['jaxarray']
  if isinstance(o, np.ndarray):
    if o.dtype.hasobject:
      return ['obj', list(o.shape), [render(e) for e in o.flatten()]]
    nat = np.ascontiguousarray(o).astype(o.dtype.newbyteorder('='))
    buf = mask_ld(o.dtype.name, nat.tobytes())
    n = o.dtype.itemsize
    return ['nd', list(o.shape), dtype_token(o.dtype), False,
            ['x' + buf[i:i + n].hex() for i in range(0, len(buf), n)] if n else []]
  if isinstance(o, np.generic):
    return ['nps', dtype_token(o.dtype), 'x' + mask_ld(o.dtype.name, np.asarray(o).tobytes()).hex()]
  if type(o) is list:
    return ['list', [render(e) for e in o]]
  if type(o) is tuple:
    return ['tuple', [render(e) for e in o]]
  if type(o) is dict:
    return ['dict', [[render(a), render(b)] for a, b in o.items()]]
  return ['other']


class WireError(Exception):
  pass


def parse_msgpack(b):
  """Independent reader of the msgpack wire format -> the model's `mvalVal` form.
  Ext payloads with fedjax's codes are themselves msgpack and are parsed recursively."""
  pos = 0

  def take(n):
    nonlocal pos
    if pos + n > len(b):
      raise WireError('truncated')
    r = b[pos:pos + n]
    pos += n
    return r

  def uint(n):
    return int.from_bytes(take(n), 'big')

  def arr(n):
    return ['arr', [val() for _ in range(n)]]

  def mp(n):
    return ['map', [[val(), val()] for _ in range(n)]]

  def ext(n):
    code = int.from_bytes(take(1), 'big', signed=True)
    data = take(n)
    if code in (1, 2, 3, 4):
      inner = parse_msgpack(data)
      if code in (1, 3):
        try:   # long-double padding bytes are not part of the value
          nm = bytes.fromhex(inner[1][1][1][1:]).decode()
          if nm in ('float128', 'complex256') and inner[1][2][0] == 'bin':
            inner[1][2][1] = 'x' + mask_ld(nm, bytes.fromhex(inner[1][2][1][1:])).hex()
        except (IndexError, TypeError, ValueError):
          pass
      return ['ext', code, inner]
    return ['ext', code, ['bin', 'x' + data.hex()]]

  def val():
    t = uint(1)
    if t <= 0x7f:
      return ['int', t]
    if t >= 0xe0:
      return ['int', t - 256]
    if 0x80 <= t <= 0x8f:
      return mp(t & 0x0f)
    if 0x90 <= t <= 0x9f:
      return arr(t & 0x0f)
    if 0xa0 <= t <= 0xbf:
      return ['str', 'x' + take(t & 0x1f).hex()]
    if t == 0xc0:
      return ['nil']
    if t == 0xc2:
      return ['bool', False]
    if t == 0xc3:
      return ['bool', True]
    if t in (0xc4, 0xc5, 0xc6):
      return ['bin', 'x' + take(uint(1 << (t - 0xc4))).hex()]
    if t in (0xc7, 0xc8, 0xc9):
      return ext(uint(1 << (t - 0xc7)))
    if t == 0xca:
      return ['float32', 'x' + take(4)[::-1].hex()]
    if t == 0xcb:
      return ['float', 'x' + take(8)[::-1].hex()]
    if t in (0xcc, 0xcd, 0xce, 0xcf):
      return ['int', uint(1 << (t - 0xcc))]
    if t in (0xd0, 0xd1, 0xd2, 0xd3):
      return ['int', int.from_bytes(take(1 << (t - 0xd0)), 'big', signed=True)]
    if t in (0xd4, 0xd5, 0xd6, 0xd7, 0xd8):
      return ext(1 << (t - 0xd4))
    if t in (0xd9, 0xda, 0xdb):
      return ['str', 'x' + take(uint(1 << (t - 0xd9))).hex()]
    if t in (0xdc, 0xdd):
      return arr(uint(2 if t == 0xdc else 4))
    if t in (0xde, 0xdf):
      return mp(uint(2 if t == 0xde else 4))
    raise WireError(f'unknown type byte {t:#x}')

  v = val()
  if pos != len(b):
    raise WireError('trailing bytes')
  return v


# ----------------------------------------------------------------------------------------------
# the independent oracle: structural equality with equal dtype, shape, values


def deep_diff(x, out, spec, path='$'):
  """None if `out` is an equal structure (equal dtype name/kind, shape, values), else a text."""
  import jax
  k = spec[0]
  if k == 'dict':
    if type(out) is not dict:
      return f'{path}: dict came back as {type(out).__name__}'
    kx = [(type(a).__name__, a) for a in x]
    ko = [(type(a).__name__, a) for a in out]
    if sorted(kx, key=repr) != sorted(ko, key=repr):
      return f'{path}: keys {ko} != {kx}'
    for kk, vv in spec[1]:
      key = build(kk)
      d = deep_diff(x[key], out[key], vv, f'{path}[{key!r}]')
      if d:
        return d
    return None
  if k == 'list':
    if type(out) is not list or len(out) != len(x):
      return f'{path}: list of {len(x)} came back as {type(out).__name__} of {len(out) if hasattr(out, "__len__") else "?"}'
    for i, (a, b, s) in enumerate(zip(x, out, spec[1])):
      d = deep_diff(a, b, s, f'{path}[{i}]')
      if d:
        return d
    return None
  if k == 'nd':
    xa = np.asarray(x)
    if not isinstance(out, np.ndarray) or isinstance(out, jax.Array):
      return f'{path}: array came back as {type(out).__name__}'
    if out.dtype.name != xa.dtype.name or out.dtype.kind != xa.dtype.kind:
      return f'{path}: dtype {xa.dtype.name} came back as {out.dtype.name}'
    if out.shape != xa.shape:
      return f'{path}: shape {xa.shape} came back as {out.shape}'
    if xa.dtype.names is not None:   # structured: padding bytes are not values; compare field-wise
      for f in xa.dtype.names:
        if np.ascontiguousarray(xa[f]).tobytes() != np.ascontiguousarray(out[f]).tobytes():
          return f'{path}: values of field {f} changed'
      return None
    want = mask_ld(spec[2], b''.join(native_items(spec)))
    got = mask_ld(spec[2], np.ascontiguousarray(out).astype(out.dtype.newbyteorder('=')).tobytes())
    if got != want:
      try:
        return (f'{path}: values changed: {xa.dtype.str}{list(xa.shape)} '
                f'{np.asarray(xa).flatten()[:4].tolist()} came back as {out.flatten()[:4].tolist()}')
      except Exception:
        return f'{path}: values changed (bytes {want.hex()[:32]} -> {got.hex()[:32]})'
    return None
  if k == 'obj':
    if not isinstance(out, np.ndarray) or out.dtype != object:
      return f'{path}: object array came back as {type(out).__name__}'
    if out.shape != x.shape:
      return f'{path}: shape {x.shape} came back as {out.shape}'
    for a, b, es in zip(x.flatten(), out.flatten(), spec[2]):
      if deep_diff(a, b, es, path):
        return f'{path}: element {a!r} came back as {b!r}'
    return None
  if k == 'nps':
    if type(out) is not type(x):
      return f'{path}: {type(x).__name__} came back as {type(out).__name__}'
    if mask_ld(spec[1], np.asarray(out).tobytes()) != mask_ld(spec[1], np.asarray(x).tobytes()):
      return f'{path}: scalar {x!r} came back as {out!r}'
    return None
  if k == 'float':
    if type(out) is not float or struct.pack('<d', out) != struct.pack('<d', x):
      return f'{path}: float {x!r} came back as {out!r}'
    return None
  if k == 'complex':
    if type(out) is not complex or (struct.pack('<dd', out.real, out.imag) !=
                                    struct.pack('<dd', x.real, x.imag)):
      return f'{path}: complex {x!r} came back as {out!r}'
    return None
  if k == 'tuple':
    if type(out) is not tuple or len(out) != len(x):
      return f'{path}: tuple came back as {type(out).__name__}'
    for i, (a, b, s) in enumerate(zip(x, out, spec[1])):
      d = deep_diff(a, b, s, f'{path}[{i}]')
      if d:
        return d
    return None
  if k == 'other':
    return None if type(out) is type(x) else f'{path}: {type(x).__name__} came back as {type(out).__name__}'
  if type(out) is not type(x) or out != x:
    return f'{path}: {x!r} came back as {out!r}'
  return None


def find_kind(spec, pred):
  if pred(spec):
    return True
  k = spec[0]
  if k in ('list', 'tuple'):
    return any(find_kind(e, pred) for e in spec[1])
  if k == 'dict':
    return any(find_kind(a, pred) or find_kind(b, pred) for a, b in spec[1])
  if k == 'obj':
    return any(find_kind(e, pred) for e in spec[2])
  return False


def depth(spec):
  k = spec[0]
  if k in ('list', 'tuple'):
    return 1 + max([depth(e) for e in spec[1]] + [0])
  if k == 'dict':
    return 1 + max([depth(b) for _, b in spec[1]] + [0])
  return 0


def leaf_tags(spec, acc):
  k = spec[0]
  if k in ('list', 'tuple'):
    if k == 'tuple':
      acc.add('leaf=tuple')
    for e in spec[1]:
      leaf_tags(e, acc)
  elif k == 'dict':
    for a, b in spec[1]:
      if a[0] not in ('str', 'bytes'):
        acc.add('leaf=badkey')
      leaf_tags(b, acc)
  elif k == 'nd':
    acc.add('dtype=' + spec[2])
    acc.add('layout=' + spec[4])
    acc.add('order=' + ('swapped' if spec[3] else 'native'))
    n = len(spec[5])
    acc.add('shape=' + ('0d' if not spec[1] else 'empty' if n == 0 else f'rank{len(spec[1])}'))
  elif k == 'obj':
    acc.add('leaf=obj' + ('' if all(e[0] == 'bytes' for e in spec[2]) else '-mixed') +
            ('-empty' if not spec[2] else ''))
  elif k == 'nps':
    acc.add('leaf=npscalar')
  else:
    acc.add('leaf=py' + k)


# ----------------------------------------------------------------------------------------------
# generators


def rand_item(rng, tok):
  n = item_size(tok)
  if tok == 'bool':
    return bytes([rng.randrange(2)])
  if tok in FLEX:
    if tok.startswith('str'):
      s = ''.join(rng.choice('abzé') for _ in range(n // 4))
      return s.encode('utf-32-le')
    if tok.startswith('bytes'):
      return bytes(rng.choice(b'abz') for _ in range(n))
    return bytes(rng.randrange(1, 256) for _ in range(n))
  r = rng.random()
  if r < 0.25:
    # small integer pattern in the low byte (asymmetric so a byte swap is visible)
    return bytes([rng.randrange(1, 8)] + [0] * (n - 1)) if n > 1 else bytes([rng.randrange(256)])
  if tok in ('float128', 'complex256'):
    # keep x87 padding bytes zero and the value a valid extended float
    half = []
    for _ in range(2 if tok == 'complex256' else 1):
      v = np.array([rng.choice([0.0, 1.5, -2.25, 1e300, -3.0])], dtype=np.longdouble)
      half.append(v.tobytes())
    return mask_ld(tok, b''.join(half))
  return bytes(rng.randrange(256) for _ in range(n))


def gen_nd(rng, tok=None, swapped=None, layout=None, shape=None):
  tok = tok or rng.choice(NUMERIC)
  shape = list(shape if shape is not None else rng.choice(SHAPES))
  if swapped is None:
    swapped = rng.random() < 0.4
  if ITEMSIZE.get(tok, 1) == 1 or tok == 'bfloat16' or tok in FLEX:
    swapped = False
  layout = layout or rng.choice(LAYOUTS)
  if layout == 'jax' and (tok not in JAX_OK or swapped):
    layout = 'C'
  n = int(np.prod(shape)) if shape else 1
  items = []
  for _ in range(n):
    it = rand_item(rng, tok)
    items.append((swap_item(tok, it) if swapped else it).hex())
  return ['nd', shape, tok, bool(swapped), layout, items]


def gen_bytes(rng):
  return bytes(rng.randrange(256) for _ in range(rng.choice([0, 1, 1, 2, 5]))).hex()


def gen_str(rng):
  return ''.join(rng.choice(['a', 'b', 'Z', '0', ' ', 'é', '日', '\x00', '😀'])
                 for _ in range(rng.choice([0, 1, 2, 4]))).encode('utf-8').hex()


def gen_float_hex(rng):
  v = rng.choice([0.0, -0.0, 1.5, -2.25, float('inf'), float('-inf'), 5e-324, 1e308, 3.14159])
  if rng.random() < 0.15:
    return rng.choice(['000000000000f87f', '010000000000f87f', '000000000000f8ff'])  # NaNs, one with payload
  return struct.pack('<d', v).hex()


def gen_obj(rng, bad=False):
  shape = list(rng.choice([[0], [1], [3], [2, 2], [2, 0], [], [3, 1]]))
  n = int(np.prod(shape)) if shape else 1
  elems = [['bytes', gen_bytes(rng)] for _ in range(n)]
  if bad and n:
    others = [['str', gen_str(rng)], ['int', rng.randrange(-3, 300)], ['none'],
              ['float', gen_float_hex(rng)], ['bool', True]]
    pos = rng.choice([0, n - 1, rng.randrange(n)])
    if n > 1 and rng.random() < 0.7:
      pos = rng.randrange(1, n)      # the branch the unchanged code does not check
    elems[pos] = rng.choice(others)
  spec = ['obj', shape, elems]
  if len(shape) >= 2 and rng.random() < 0.3:
    spec.append('F')
  return spec


def gen_good_leaf(rng):
  r = rng.random()
  if r < 0.45:
    return gen_nd(rng)
  if r < 0.57:
    return gen_obj(rng)
  if r < 0.67:
    tok = rng.choice(NUMERIC)
    return ['nps', tok, rand_item(rng, tok).hex()]
  k = rng.choice(['none', 'bool', 'int', 'int', 'float', 'str', 'bytes', 'complex'])
  if k == 'none':
    return ['none']
  if k == 'bool':
    return ['bool', rng.random() < 0.5]
  if k == 'int':
    return ['int', rng.choice([0, 1, -1, 127, 128, -32, -33, 255, 256, 65535, 65536, 2**31, 2**32,
                               2**63 - 1, 2**63, 2**64 - 1, -2**31 - 1, -2**63, rng.randrange(-10**6, 10**6)])]
  if k == 'float':
    return ['float', gen_float_hex(rng)]
  if k == 'str':
    return ['str', gen_str(rng)]
  if k == 'bytes':
    return ['bytes', gen_bytes(rng)]
  return ['complex', gen_float_hex(rng), gen_float_hex(rng)]


def gen_bad_leaf(rng):
  r = rng.randrange(9)
  if r == 0:
    return ['tuple', [gen_good_leaf(rng) for _ in range(rng.randrange(0, 3))]]
  if r == 1:
    tok = rng.choice(['str32', 'str96', 'bytes8', 'bytes24'])
    return gen_nd(rng, tok=tok, layout=rng.choice(['C', 'F', 'strided']))
  if r == 2:
    tok = rng.choice(['void32', 'svoid64', 'svoid40', 'avoid64'])
    return gen_nd(rng, tok=tok, layout='C')
  if r in (3, 4):
    return gen_obj(rng, bad=True) if rng.random() < 0.9 else ['obj', [1], [['none']]]
  if r == 5:
    return ['int', rng.choice([2**64, -2**63 - 1, 2**70, -2**64])]
  if r == 6:
    return ['other', rng.choice(['set', 'object', 'frozenset', 'range', 'ellipsis'])]
  if r == 7:
    tok = rng.choice(['str32', 'bytes8', 'void32', 'str96'])
    return ['nps', tok, rand_item(rng, tok).hex()]
  key = rng.choice([['int', 3], ['none'], ['float', gen_float_hex(rng)], ['bool', True],
                    ['nps', 'int64', (5).to_bytes(8, 'little').hex()], ['tuple', [['int', 1]]]])
  if key[0] == 'float' and key[1].endswith(('f87f', 'f8ff')):
    key = ['float', struct.pack('<d', 2.5).hex()]
  return ['dict', [[key, gen_good_leaf(rng)]]]


def gen_key(rng, used):
  for _ in range(20):
    k = ['str', gen_str(rng)] if rng.random() < 0.8 else ['bytes', gen_bytes(rng)]
    if (k[0], k[1]) not in used:
      used.add((k[0], k[1]))
      return k
  k = ['str', ('k%d' % len(used)).encode().hex()]
  used.add((k[0], k[1]))
  return k


def gen_tree(rng, d, bad_at):
  """Tree of nesting depth <= d; `bad_at` = list with one flag: place a bad leaf somewhere once."""
  if d == 0 or rng.random() < 0.25:
    if bad_at and bad_at[0] and rng.random() < 0.5:
      bad_at[0] = False
      return gen_bad_leaf(rng)
    return gen_good_leaf(rng)
  n = rng.choice([0, 1, 2, 2, 3])
  if rng.random() < 0.5:
    return ['list', [gen_tree(rng, d - 1, bad_at) for _ in range(n)]]
  used = set()
  return ['dict', [[gen_key(rng, used), gen_tree(rng, d - 1, bad_at)] for _ in range(n)]]


def gen_examples(rng, n_rows, mode='ok'):
  """examples of one client: dict of features with leading dimension n_rows."""
  feats = []
  used = set()
  nf = rng.choice([1, 2, 3])
  for j in range(nf):
    key = ['str', ('f%d' % j).encode().hex()] if rng.random() < 0.8 else gen_key(rng, used)
    used.add((key[0], key[1]))
    rows = n_rows
    if mode == 'ragged' and j == nf - 1:
      rows = n_rows + 1
    if rng.random() < 0.25:
      shape = [rows] + rng.choice([[], [2]])
      n = int(np.prod(shape))
      v = ['obj', shape, [['bytes', gen_bytes(rng)] for _ in range(n)]]
    else:
      shape = [rows] + rng.choice([[], [2], [2, 2], [0]])
      tok = rng.choice(NUMERIC[:13] + ['complex64'])
      v = gen_nd(rng, tok=tok, shape=shape, layout=rng.choice(['C', 'F', 'strided', 'neg']))
    feats.append([key, v])
  if mode == 'ragged' and nf == 1:
    feats.append([['str', b'extra'.hex()], gen_nd(rng, tok='int32', shape=[n_rows + 1], layout='C')])
  if mode == 'empty':
    feats = []
  if mode == 'zerod':
    feats[0][1] = gen_nd(rng, tok='float32', shape=[], layout='C')
  if mode == 'strfeat':
    feats[0][1] = gen_nd(rng, tok='str32', shape=[n_rows], layout='C')
  return ['dict', feats]


def gen_sqlite(rng):
  ids = set()

  def new_id():
    for _ in range(50):
      base = rng.choice([b'', b'a', b'ab', b'a\x00', b'\x00', b'\xff', b'client', b'b'])
      i = base + bytes(rng.randrange(256) for _ in range(rng.choice([0, 0, 1, 2])))
      if i not in ids:
        ids.add(i)
        return i
    i = b'id%d' % len(ids)
    ids.add(i)
    return i

  calls = []
  for _ in range(rng.choice([1, 1, 2, 3])):
    calls.append([[new_id().hex(), gen_examples(rng, rng.choice([0, 1, 2, 3, 5]))]
                  for _ in range(rng.choice([0, 1, 2, 3]))])
  fail = rng.choice(['none', 'none', 'none', 'ragged', 'empty', 'zerod', 'dup', 'strfeat'])
  if fail in ('ragged', 'empty', 'zerod'):
    calls.append([[new_id().hex(), gen_examples(rng, 2)],
                  [new_id().hex(), gen_examples(rng, 2, mode=fail)]])
  elif fail == 'dup' and ids:
    calls.append([[new_id().hex(), gen_examples(rng, 1)],
                  [rng.choice(sorted(ids)).hex(), gen_examples(rng, 2)]])
  elif fail == 'strfeat':
    calls.append([[new_id().hex(), gen_examples(rng, 2, mode='strfeat')]])
  return {'kind': 'sqlite', 'calls': calls, 'arg': rng.choice(['list', 'list', 'gen', 'iter', 'tuple']),
          'ctx': rng.choice([True, True, True, False, 'drop'])}


def gen_sqlite_many_small(rng, n_calls):
  """many small add_many calls (0..3 clients each) into one builder"""
  calls, g = [], rng.randrange(0, 50)
  for _ in range(n_calls):
    k = rng.choice([0, 1, 1, 2, 3])
    calls.append([[big_id(g + j).hex(), big_examples(g + j)] for j in range(k)])
    g += k
  return {'kind': 'sqlite', 'calls': calls, 'arg': rng.choice(['list', 'gen', 'iter']), 'ctx': rng.choice([True, False, 'drop'])}


def big_id(g):
  """distinct ids for the g-th client of a large build; a third of them end in a zero byte,
  a third share a one-byte prefix (SQLite BLOB keys: prefixes / trailing NULs must stay distinct)."""
  base = g.to_bytes(3, 'big')
  if g % 3 == 0:
    return base + b'\x00'
  if g % 3 == 1:
    return b'c' + base
  return base


def big_examples(g):
  """tiny dataset of the g-th client: one int32 feature holding g, mostly one example."""
  rows = 0 if g % 11 == 10 else 2 if g % 5 == 4 else 1
  item = (g % 2**31).to_bytes(4, 'little').hex()
  return ['dict', [[['str', '78'], ['nd', [rows], 'int32', False, 'C', [item] * rows]]]]


def expand_calls(case):
  """The add_many calls of a sqlite case. Large builds are stored compactly as
  {'big': [n1, n2, ...]} = one add_many call per entry with that many tiny clients."""
  if 'big' not in case:
    return case['calls']
  calls, g = [], 0
  for n in case['big']:
    calls.append([[big_id(g + j).hex(), big_examples(g + j)] for j in range(n)])
    g += n
  return calls


def size_class(n):
  return str(n) if n <= 11 else '12..999' if n < 1000 else '1000' if n == 1000 else '1001..' if n <= 2000 else '2001..'


def gen_ckpt_history(rng):
  """A history of save_checkpoint calls in one directory: list of round numbers, None = the default
  round_num. Patterns: increasing; the same round saved again with another state (default round, explicit
  round); a run restarted from an older checkpoint that redoes rounds still on disk; arbitrary order."""
  pat = rng.choice(['inc', 'inc', 'default', 'same', 'restart', 'restart', 'random', 'mixed'])
  if pat == 'inc':
    return sorted(rng.sample(range(0, 2000), rng.choice([1, 2, 3, 4])))
  if pat == 'default':
    return [None] * rng.choice([2, 3]) + ([rng.randrange(1, 5)] if rng.random() < 0.5 else [])
  if pat == 'same':
    r = rng.choice([0, 1, 7, 1234])
    return [r] * rng.choice([2, 3])
  if pat == 'restart':
    a = rng.randrange(0, 5)
    n = rng.choice([2, 3, 4])
    back = rng.randrange(1, n + 1)
    first = list(range(a, a + n))
    return first + list(range(a + n - back, a + n + rng.choice([0, 1, 2])))
  if pat == 'random':
    return [rng.choice([None, 0, 1, 2, 3, 5, 99999999]) for _ in range(rng.choice([2, 3, 4, 5]))]
  return [3, None, 3, 2, None, 4][:rng.choice([3, 4, 5, 6])]


ALGOS = ['fed_avg', 'fed_prox', 'mime', 'mime_lite', 'hyp_cluster', 'agnostic_fed_avg', 'apfl']
OPTS = ['sgd', 'momentum', 'adam', 'adagrad', 'rmsprop', 'yogi']


class C16(core.Property):
  ID = 'C16'
  RULE = ('tree cases: generated from the dispatch branches of _msgpack_ext_pack/_unpack (leaf kind, '
          'dtype x byte order x layout x shape class, object-array element position, scalar boundaries, '
          'dict-key type, nesting depth 0..4, at most one unsupported leaf per tree); sqlite cases: '
          'add_many call sequences incl. ragged/empty/0-d/duplicate-id/str-feature failures, single calls of 1000..5000 tiny clients and many small calls, list/generator/iterator/tuple arguments, builder as context manager or plain object; '
          'ckpt/state cases: every algorithm x server optimizer x a history of save_checkpoint calls (increasing, same round again incl. the default round, restarted runs, arbitrary order; keep 1..3), and generated trees through pickle; sqlite reads are repeated after the caller edited in place what it was handed. '
          'non-trivial = the case holds an array / numpy scalar / object array / unsupported leaf, or is a '
          'sqlite/ckpt case with at least one client/round; distinct by case digest')
  TRUSTED = ['msgpack wire codec (packb/unpackb inverse on msgpack values; the real bytes are re-read by an '
             'independent parser in the harness), numpy tobytes("C")/frombuffer/astype byte-order conversion, '
             'zlib, sqlite3 (BLOB storage, rowid order, primary key), pickle and tf.io.gfile (checkpoint '
             'round trip is checked by the oracle only, there is nothing to model)',
             'memory layout (C/F/strided/negative strides/jax.Array) is below the model; covered by the generators']
  ASSUMPTIONS = ['little-endian host (asserted at start-up)',
                 'equal dtype = equal dtype.name and kind; the byte-order flag of the in-memory representation '
                 'is not part of the value (numpy: array_equal), the values are compared bit for bit',
                 'Python ints outside msgpack\'s 64-bit range and dict keys other than str/bytes are outside the '
                 'supported set: they must be rejected with an error (they are)',
                 'datetime64/timedelta64/bytearray leaves are not generated (not named by the property on either side)']
  QUICK_BUDGET_S = 110
  THOROUGH_BUDGET_S = 560

  def setup(self, ctx):
    if sys.byteorder != 'little':
      raise InfraError('C16 harness assumes a little-endian host')
    from fedjax.core import serialization
    from fedjax.core import sqlite_federated_data
    from fedjax.training import checkpoint
    self.ser = serialization
    self.sq = sqlite_federated_data
    self.ckpt = checkpoint
    self._states = {}

  # ---------------------------------------------------------------- generation
  def gen_cases(self, rng, tier):
    # 1. systematic grid: dtype x byte order x layout on a fixed asymmetric shape (+ shape classes)
    grid_shapes = [[2, 3]] if tier == 'quick' else [[], [0, 3], [2, 3], [2, 3, 4], [3]]
    grid_layouts = ['C', 'strided'] if tier == 'quick' else LAYOUTS
    for tok in NUMERIC:
      for swapped in (False, True):
        if swapped and (ITEMSIZE[tok] == 1 or tok == 'bfloat16'):
          continue
        for layout in grid_layouts:
          for shape in grid_shapes:
            if layout == 'jax' and (tok not in JAX_OK or swapped):
              continue
            yield {'kind': 'tree', 'tree': ['dict', [[['str', b'a'.hex()],
                   gen_nd(rng, tok=tok, swapped=swapped, layout=layout, shape=shape)]]]}
    # 2. object arrays: every position of a non-bytes element for n <= 3
    for n in range(0, 4):
      for pos in range(-1, n):
        for other in (['str', b'b'.hex()], ['int', 7], ['none']):
          elems = [['bytes', bytes([97 + i]).hex()] for i in range(n)]
          if pos >= 0:
            elems[pos] = other
          yield {'kind': 'tree', 'tree': ['obj', [n], elems]}
          if pos < 0:
            break
    # 2b. every leaf kind under every container path (list / dict chains) up to a depth
    protos = []
    for tok in NUMERIC:
      protos.append(gen_nd(rng, tok=tok, swapped=False, layout='C', shape=[2]))
      if ITEMSIZE[tok] > 1 and tok != 'bfloat16':
        protos.append(gen_nd(rng, tok=tok, swapped=True, layout='F', shape=[1, 2]))
      protos.append(['nps', tok, rand_item(rng, tok).hex()])
    protos += [['none'], ['bool', True], ['int', -2**63], ['int', 2**64 - 1], ['int', 2**64], ['float', gen_float_hex(rng)],
               ['str', gen_str(rng)], ['bytes', gen_bytes(rng)], ['complex', gen_float_hex(rng), gen_float_hex(rng)],
               ['obj', [2], [['bytes', '61'], ['bytes', '']]], ['obj', [2], [['bytes', '61'], ['str', '62']]],
               ['obj', [2, 0], []], ['tuple', []], ['tuple', [['int', 1]]], ['other', 'set'],
               gen_nd(rng, tok='str32', layout='C', shape=[2]), gen_nd(rng, tok='bytes8', layout='C', shape=[2]),
               gen_nd(rng, tok='svoid64', layout='C', shape=[1]), gen_nd(rng, tok='avoid64', layout='C', shape=[1]),
               ['nps', 'str32', 'e9000000'], ['dict', [[['int', 1], ['int', 2]]]], ['list', []], ['dict', []]]
    max_d = 1 if tier == 'quick' else 3
    paths = [[]]
    for dd in range(1, max_d + 1):
      paths += [[c] + q for c in 'ld' for q in paths if len(q) == dd - 1]
    if tier == 'quick':
      protos = rng.sample(protos, 30)
    for leaf in protos:
      for path in paths:
        t = leaf
        for c in reversed(path):
          t = ['list', [['int', 0], t]] if c == 'l' else ['dict', [[['str', '6b'], t], [['bytes', '6b'], ['none']]]]
        yield {'kind': 'tree', 'tree': t}
    # 2c. SQLite builder: large single add_many calls (list / generator / iterator argument, builder as
    # context manager or plain object), calls of exactly / just under / just over round sizes, many small calls
    if tier == 'quick':
      bigs = [([1001], 'gen', True), ([rng.choice([2500, 3003])], 'list', False),
              ([rng.choice([999, 1000]), rng.choice([1000, 1002])], 'iter', True)]
    else:
      bigs = [([n], a, c) for n, a, c in
              [(1000, 'list', True), (1001, 'gen', True), (1001, 'list', False), (1002, 'iter', True),
               (2001, 'gen', False), (2002, 'list', True), (2500, 'gen', True), (3003, 'iter', False),
               (3004, 'tuple', True), (4004, 'gen', True), (rng.randrange(1003, 5000), 'gen', True),
               (129, 'gen', True), (257, 'list', False), (513, 'iter', True), (1025, 'gen', False),
               (2049, 'list', True), (4097, 'gen', True), (8193, 'iter', True), (10001, 'gen', True)]]
      bigs += [([999, 1001], 'gen', True), ([1000, 1000, 7], 'list', False), ([1001, 1001], 'iter', True),
               ([700, 700, 700], 'gen', True), ([1, 2000, 1], 'gen', False)]
    for sizes, arg, cm in bigs:
      yield {'kind': 'sqlite', 'big': sizes, 'arg': arg, 'ctx': cm}
    for _ in range(3 if tier == 'quick' else 25):
      yield gen_sqlite_many_small(rng, rng.choice([8, 20, 40]))
    # 3. checkpoint / state round trips (the first dozen use fixed history patterns, then random ones)
    n_ckpt = 0
    for i, algo in enumerate(ALGOS):
      opts = OPTS if tier == 'thorough' else [OPTS[(i + rng.randrange(6)) % 6], 'sgd']
      for opt in opts:
        n_ckpt += 1
        fixed = [[None, None], [5, 5], [1, 2, 3, 2, 3, 4], [3, 1, 2], [None, 0, None, 1], [0, 1, 2]]
        yield {'kind': 'ckpt', 'algo': algo, 'opt': opt, 'shape': rng.choice([[3], [2, 2], []]),
               'hist': fixed[n_ckpt % len(fixed)] if n_ckpt <= 2 * len(fixed) else gen_ckpt_history(rng),
               'keep': 1 + (n_ckpt // len(fixed)) % 3 if n_ckpt <= 2 * len(fixed) else rng.choice([1, 2, 3])}
    # 4. random trees, sqlite tables, pickled trees
    n = 600 if tier == 'quick' else 9000
    for i in range(n):
      r = rng.random()
      if r < 0.72:
        bad = [rng.random() < 0.35]
        yield {'kind': 'tree', 'tree': gen_tree(rng, rng.choice([0, 1, 1, 2, 2, 3, 4]), bad)}
      elif r < 0.92:
        yield gen_sqlite(rng)
      else:
        t = gen_tree(rng, rng.choice([0, 1, 2]), [rng.random() < 0.3])
        if not find_kind(t, lambda s: s[0] == 'other'):   # object() has no equality to round-trip to
          yield {'kind': 'state', 'tree': t}

  # ---------------------------------------------------------------- shrinking
  def shrink(self, case):
    k = case['kind']
    if k in ('tree', 'state'):
      for t in shrink_tree(case['tree']):
        yield {**case, 'tree': t}
    elif k == 'sqlite' and 'big' in case:
      big = case['big']
      for i in range(len(big)):
        if len(big) > 1:
          yield {**case, 'big': big[:i] + big[i + 1:]}
      for i, n in enumerate(big):
        for c in sorted({n // 2, n - 1000, n - 100, n - 10, n - 1}):
          if 0 < c < n:
            yield {**case, 'big': big[:i] + [c] + big[i + 1:]}
      if case.get('arg', 'list') != 'list':
        yield {**case, 'arg': 'list'}
      if case.get('ctx', True) is not True:
        yield {**case, 'ctx': True}
    elif k == 'sqlite':
      calls = case['calls']
      if case.get('arg', 'list') != 'list':
        yield {**case, 'arg': 'list'}
      if case.get('ctx', True) is not True:
        yield {**case, 'ctx': True}
      for i in range(len(calls)):
        if len(calls) > 1:
          yield {**case, 'calls': calls[:i] + calls[i + 1:]}
        for j in range(len(calls[i])):
          if len(calls[i]) > 1:
            yield {**case, 'calls': calls[:i] + [calls[i][:j] + calls[i][j + 1:]] + calls[i + 1:]}
          for t in shrink_tree(calls[i][j][1]):
            if t[0] == 'dict':
              yield {**case, 'calls': calls[:i] + [calls[i][:j] + [[calls[i][j][0], t]] + calls[i][j + 1:]] + calls[i + 1:]}
    elif k == 'ckpt':
      hist = case['hist'] if 'hist' in case else list(case['rounds'])
      for i in range(len(hist)):
        if len(hist) > 1:
          yield {**{kk: v for kk, v in case.items() if kk != 'rounds'}, 'hist': hist[:i] + hist[i + 1:]}
      if case['opt'] != 'sgd':
        yield {**case, 'opt': 'sgd'}
      if case['algo'] != 'fed_avg':
        yield {**case, 'algo': 'fed_avg'}
      if case['keep'] > 1:
        yield {**case, 'keep': case['keep'] - 1}

  # ---------------------------------------------------------------- evaluation
  def evaluate(self, case, ctx):
    k = case['kind']
    if k == 'tree':
      return self._eval_tree(case, ctx)
    if k == 'sqlite':
      return self._eval_sqlite(case, ctx)
    if k == 'state':
      return self._eval_state(case, ctx)
    if k == 'ckpt':
      return self._eval_ckpt(case, ctx)
    raise InfraError(f'unknown case kind {k}')

  def _run_impl(self, obj):
    """('ok', out, wire) | ('err', stage, exception name, wire or None)"""
    buf = io.StringIO()
    try:
      with contextlib.redirect_stdout(buf):
        wire = self.ser.msgpack_serialize(obj)
    except Exception as e:   # pylint: disable=broad-except
      return ('err', 'enc', type(e).__name__, None)
    try:
      with contextlib.redirect_stdout(buf):
        out = self.ser.msgpack_deserialize(wire)
    except Exception as e:   # pylint: disable=broad-except
      return ('err', 'dec', type(e).__name__, wire)
    return ('ok', out, wire)

  def _eval_tree(self, case, ctx):
    spec = case['tree']
    obj = build(spec)
    bad = bad_leaves(spec)
    sup = not bad
    impl = self._run_impl(obj)
    problems, corr = [], []
    key = None

    # ---- independent oracle
    if sup:
      if impl[0] != 'ok':
        problems.append(f'supported value rejected by msgpack_{"serialize" if impl[1] == "enc" else "deserialize"}: {impl[2]}')
        key = 'C16/roundtrip/rejected'
      else:
        d = deep_diff(obj, impl[1], spec)
        if d:
          problems.append('round trip changed the value: ' + d)
          key = ('C16/byteorder/swapped-values'
                 if find_kind(spec, lambda s: s[0] == 'nd' and s[3]) and 'values changed' in d
                 else 'C16/roundtrip/altered')
    else:
      if impl[0] == 'ok':
        d = deep_diff(obj, impl[1], spec)
        problems.append(f'unsupported leaf ({", ".join(bad[:3])}) was not rejected' +
                        (f' and was silently altered: {d}' if d else ' (returned as if supported)'))
        key = 'C16/objarr/first-element-only' if bad == ['objarr-non-bytes'] else 'C16/reject/accepted'

    # ---- correspondence with the Lean model
    tok = proto(spec)
    ans = ctx.drv.ask([line('c16.class', tok), line('c16.rt', 'repaired', tok),
                       line('c16.enc', 'repaired', tok)])
    if ans[0][0] is not True:
      raise InfraError(f'generator produced an ill-formed tree for the model: {tok}')
    if ans[0][1] != sup:
      corr.append(f'supported-set classification: model {ans[0][1]} vs harness {sup}')
    mrt = ans[1]
    if impl[0] == 'ok':
      got = norm(['ok', render(impl[1])])
      if mrt != got:
        corr.append(f'msgpack_deserialize result differs from the model: impl {_short(got)} model {_short(mrt)}')
    else:
      if mrt[0] != 'err':
        corr.append(f'impl raised {impl[2]} in {impl[1]}, model returns {_short(mrt)}')
      elif len(bad) == 1 and [impl[1], impl[2]] != mrt[1:]:
        # which call rejects the value, and with which exception class, is not fixed by the property
        # ("rejected with an error"): recorded, never a failure
        ctx.count('monitor:error_stage_or_class_differs_from_model')
    # Wire level (below the property, which only fixes deserialize(serialize(x))): the real bytes are re-read by an
    # independent msgpack parser and compared with the model's `encode`. A difference is recorded in the
    # evidence (monitors) but is not a failure — a different on-the-wire layout that round-trips is legitimate.
    if impl[-1] is not None:
      try:
        wire_impl = norm(parse_msgpack(impl[-1]))
        menc = ans[2]
        if menc[0] == 'ok' and menc[1] == wire_impl:
          ctx.count('monitor:wire_format_equals_model')
        else:
          ctx.count('monitor:wire_format_differs_from_model')
      except (WireError, Exception):   # pylint: disable=broad-except
        ctx.count('monitor:wire_not_msgpack')

    tags = set()
    leaf_tags(spec, tags)
    tags.add(f'depth={depth(spec)}')
    tags.add('supported' if sup else 'unsupported:' + bad[0].split('-')[0])
    tags.add('impl=' + (impl[0] if impl[0] == 'ok' else f'{impl[1]}:{impl[2]}'))
    nontrivial = find_kind(spec, lambda s: s[0] in ('nd', 'nps', 'obj')) or not sup
    return Outcome(oracle_fail='; '.join(problems[:3]) or None, corr_fail='; '.join(corr[:3]) or None,
                   key=key, nontrivial=nontrivial, tags=tuple(sorted(tags)),
                   detail={'python': _short(repr(obj), 600), 'impl': _short(norm(['ok', render(impl[1])]) if impl[0] == 'ok' else list(impl[:3]), 1500),
                           'model_roundtrip': _short(mrt, 1500), 'unsupported_leaves': bad})

  # ---------------------------------------------------------------- sqlite
  def _eval_sqlite(self, case, ctx):
    calls = expand_calls(case)
    arg_mode, use_ctx = case.get('arg', 'list'), case.get('ctx', True)

    def as_arg(pairs):
      """the same (id, examples) pairs as the kind of iterable the caller may hand to add_many"""
      if arg_mode == 'gen':
        return (p for p in pairs)
      if arg_mode == 'iter':
        return iter(pairs)
      if arg_mode == 'tuple':
        return tuple(pairs)
      return pairs

    def fill(b):
      for call in calls:
        rows = [(bytes.fromhex(i), build(s), s) for i, s in call]
        try:
          b.add_many(as_arg([(i, o) for i, o, _ in rows]))
          log.append('ok')
          stored.extend(rows)
          # add_many has returned: what it was given is in the file now, also for a reader opened while the
          # builder is still open (and for a builder that is never closed, see `drop` below)
          mid = self.sq.SQLiteFederatedData.new(path)
          try:
            listed = set(mid.client_ids())
          finally:
            _close_reader(mid)
          lost = [i for i, _, _ in stored if i not in listed and i not in optional_ids]
          if lost and len(midbuild) < 2:
            midbuild.append(f'after add_many #{len(log) - 1} returned (builder still open), a new reader of the file '
                            f'does not list {len(lost)} of the clients written so far (first: {lost[:3]})')
        except Exception as e:   # pylint: disable=broad-except
          log.append(type(e).__name__)
          break                  # the builder is closed after a failed call (rollback)

    # Which calls are inside the property's domain (valid examples: >= 1 feature, all with the same number of
    # rows; ids not written before). What add_many does with anything else — reject it, which exception,
    # whether rows of the same call that came earlier are kept — is not stated by the property: such calls are
    # still made, but nothing is demanded of them except that they do not disturb the other clients.
    def call_in_domain(call, seen):
      ok = True
      for i, s in call:
        dims = [v[1][0] if (v[0] in ('nd', 'obj') and v[1]) else None for _, v in s[1]] if s[0] == 'dict' else []
        if not dims or None in dims or len(set(dims)) != 1:
          ok = False
        if bad_leaves(s):
          # an unsupported leaf must be rejected rather than silently altered — by add_many OR by the later
          # read: the property does not say at which call. Judged below: if it is listed, reading it must raise.
          ok = False
          unsupported[bytes.fromhex(i)] = bad_leaves(s)
        if bytes.fromhex(i) in seen:
          ok = False
          optional_ids.add(bytes.fromhex(i))
        seen.add(bytes.fromhex(i))
      return ok

    optional_ids = set()
    unsupported = {}
    seen_ids = set()
    in_domain = [call_in_domain(c, seen_ids) for c in calls]
    for c, okc in zip(calls, in_domain):
      if not okc:
        optional_ids |= {bytes.fromhex(i) for i, _ in c}

    d = tempfile.mkdtemp(prefix='c16sq')
    path = os.path.join(d, 'data.sqlite')
    problems, corr = [], []
    log, stored, midbuild = [], [], []   # stored: (id bytes, object, spec) of rows of calls that returned normally
    out_buf = io.StringIO()
    try:
      with contextlib.redirect_stdout(out_buf):
        if use_ctx is True:
          with self.sq.SQLiteFederatedDataBuilder(path) as b:
            fill(b)
        elif use_ctx == 'drop':      # plain object that is simply dropped when the caller is done
          b = self.sq.SQLiteFederatedDataBuilder(path)
          fill(b)
          del b
          gc.collect()
        else:                        # plain object, closed explicitly through its exit protocol
          b = self.sq.SQLiteFederatedDataBuilder(path)
          try:
            fill(b)
          finally:
            b.__exit__(None, None, None)
        fd = self.sq.SQLiteFederatedData.new(path)
        try:
          ids = list(fd.client_ids())
          ids2 = list(fd.client_ids())
          sizes = list(fd.client_sizes())
          nclients = fd.num_clients()
          per = []
          for cid in ids:
            try:
              sz = ['ok', fd.client_size(cid)]
            except Exception as e:   # pylint: disable=broad-except
              sz = ['err', type(e).__name__]
            try:
              ex = ('ok', fd.get_client(cid).raw_examples)
            except Exception as e:   # pylint: disable=broad-except
              ex = ('err', type(e).__name__)
            per.append((sz, ex))
          try:
            via_clients = [(cid, ds.raw_examples) for cid, ds in fd.clients()]
          except Exception as e:   # pylint: disable=broad-except
            via_clients = type(e).__name__
          try:
            fd.client_size(b'\x01not-there\x02')
            problems.append('client_size of an absent id did not raise')
          except KeyError:
            pass
          # reads of ONE reader object interleaved with each other
          strict = [r for r in stored if r[0] not in optional_ids]
          inter = self._interleaved_reads(fd, ids, per, strict)
          # what was handed out so far is judged as it was when handed out ...
          per = copy.deepcopy(per)
          via_clients = copy.deepcopy(via_clients)
          # ... and then the caller edits what it is handed, and reads again
          reread = self._reread_after_mutation(fd, path, ids, per, strict)
        finally:
          _close_reader(fd)
    finally:
      shutil.rmtree(d, ignore_errors=True)

    # ---- independent oracle
    for j, (okc, res) in enumerate(zip(in_domain, log)):
      if okc and res != 'ok':
        problems.append(f'add_many #{j} of valid examples raised {res}')
    stored = [r for r in stored if r[0] not in optional_ids]     # the rows the property speaks about
    want_ids = [i for i, _, _ in stored]
    # the order in which ids are listed is not part of the property (rowid vs sorted order are both fine)
    if not (set(want_ids) <= set(ids) <= set(want_ids) | optional_ids) or len(ids) != len(set(ids)):
      missing = sorted(set(want_ids) - set(ids))
      extra = sorted(set(ids) - set(want_ids) - optional_ids)
      pos = [want_ids.index(m) for m in missing[:5]]
      problems.append(f'client ids read back differ from the {len(want_ids)} committed by add_many (sizes of the calls made: '
                      f'{[len(c) for c in calls[:len(log)]]}, results {log[:6]}): {len(ids)} listed, {len(missing)} missing '
                      f'(first: {missing[:5]} = written at positions {pos}), {len(extra)} unexpected {extra[:5]}'
                      + (f', {len(ids) - len(set(ids))} listed twice' if len(ids) != len(set(ids)) else ''))
    if ids != ids2:
      problems.append('client_ids() is not deterministic')
    if nclients != len(ids) or not len(want_ids) <= nclients <= len(want_ids) + len(optional_ids):
      problems.append(f'num_clients {nclients} != {len(want_ids)} (client_ids lists {len(ids)})')
    def lead(s):
      try:
        return s[1][0][1][1][0]
      except (IndexError, TypeError):
        return None

    want_sizes = [(i, lead(s)) for i, _, s in stored]
    if sorted(tuple(x) for x in sizes if x[0] not in optional_ids) != sorted(want_sizes):
      problems.append(f'client sizes read back != row counts written: {_short(repr(sorted(set(map(tuple, sizes)) ^ set(want_sizes))[:6]))}')
    key = None
    per_by_id = dict(zip(ids, per))
    for cid, obj, spec in stored:
      if cid not in per_by_id:
        continue
      sz, ex = per_by_id[cid]
      bad = bad_leaves(spec)
      if sz != ['ok', lead(spec)]:
        problems.append(f'client_size({cid!r}) = {sz}')
      if not bad:
        if ex[0] != 'ok':
          problems.append(f'get_client({cid!r}) raised {ex[1]} for valid examples')
        else:
          dd = deep_diff(obj, ex[1], spec)
          if dd:
            problems.append(f'examples of client {cid!r} changed in the SQLite round trip: {dd}')
            if 'values changed' in dd and find_kind(spec, lambda s: s[0] == 'nd' and s[3]):
              key = 'C16/byteorder/swapped-values'
      elif ex[0] == 'ok':
        problems.append(f'client {cid!r}: unsupported feature ({bad[0]}) came back without an error')
    for cid, (_, ex) in zip(ids, per):
      if cid in unsupported and ex[0] == 'ok':
        problems.append(f'client {cid!r}: unsupported feature ({unsupported[cid][0]}) was accepted by add_many and '
                        f'came back from get_client without an error')
        key = key or 'C16/reject/accepted'
    if isinstance(via_clients, list):
      if [c for c, _ in via_clients] != ids:
        problems.append('clients() lists other clients than client_ids()')
      for (cid, exs), (_, ex) in zip(via_clients, per):
        if ex[0] == 'ok' and norm(render(exs)) != norm(render(ex[1])):
          problems.append(f'clients() and get_client() disagree for {cid!r}')
    elif all(ex[0] == 'ok' for _, ex in per):
      problems.append(f'clients() raised {via_clients}')

    if midbuild:
      problems = midbuild + problems
      key = key or 'C16/sqlite/not-durable-after-add_many'
    if inter:
      problems = inter + problems
      key = key or 'C16/sqlite/interleaved-reads'
    if reread:
      problems = reread + problems       # most specific first
      key = key or 'C16/sqlite/reread-after-caller-mutation'

    # ---- correspondence with the model (only the calls that were executed)
    executed = calls[:len(log)]
    ans = ctx.drv.ask([line('c16.sqlite', 'repaired',
                            [[['x' + i, proto(s)] for i, s in call] for call in executed])])[0]
    order = sorted(range(len(ids)), key=lambda j: ids[j])
    impl_obs = norm([log, ['x' + ids[j].hex() for j in order],
                     sorted(['x' + i.hex(), n] for i, n in sizes),
                     [[per[j][0], (['ok', render(per[j][1][1])] if per[j][1][0] == 'ok' else ['err', per[j][1][1]])]
                      for j in order]])
    morder = sorted(range(len(ans[1])), key=lambda j: bytes.fromhex(ans[1][j][1:]))
    ans = [ans[0], [ans[1][j] for j in morder], sorted(ans[2]), [ans[3][j] for j in morder]]
    keep_ids = {'x' + r[0].hex() for r in stored}

    def in_domain_part(obs):
      log_, ids_, sizes_, per_ = obs
      sel = [j for j, i in enumerate(ids_) if i in keep_ids]
      return [[x for x, okc in zip(log_, in_domain) if okc], [ids_[j] for j in sel],
              [z for z in sizes_ if z[0] in keep_ids], [per_[j] for j in sel]]

    ans, impl_obs = in_domain_part(ans), in_domain_part(impl_obs)

    def err_class_free(obs):
      """'rejected with an error': which exception class is not part of the observation"""
      log_, ids_, sizes_, per_ = obs
      return [['ok' if x == 'ok' else 'err' for x in log_], ids_, sizes_,
              [[(sz if sz[0] == 'ok' else ['err']), (ex if ex[0] == 'ok' else ['err'])] for sz, ex in per_]]

    if ans != impl_obs and err_class_free(ans) == err_class_free(impl_obs):
      ctx.count('monitor:sqlite_error_class_differs_from_model')
    ans, impl_obs = err_class_free(ans), err_class_free(impl_obs)
    if ans != impl_obs:
      for name, a, b in zip(('add_many log', 'client_ids', 'client_sizes', 'clients'), impl_obs, ans):
        if a != b:
          corr.append(f'sqlite {name}: impl {_short(a)} vs model {_short(b)}')
    tags = {'kind=sqlite', f'calls={size_class(len(calls))}', f'clients={size_class(len(stored))}',
            f'add_many_arg={arg_mode}', 'builder=' + ('with' if use_ctx is True else 'plain+dropped' if use_ctx == 'drop' else 'plain+exit')}
    tags |= {f'add_many={x}' for x in log} | {f'call_size={size_class(len(c))}' for c in calls}
    for _, _, s in stored[:50]:
      leaf_tags(s, tags)
    return Outcome(oracle_fail='; '.join(problems[:3]) or None, corr_fail='; '.join(corr[:3]) or None,
                   key=key or ('C16/sqlite/other' if problems else None),
                   nontrivial=len(stored) > 0, tags=tuple(sorted(tags)),
                   detail={'impl': _short(impl_obs, 1500), 'model': _short(ans, 1500), 'log': log})

  def _interleaved_reads(self, fd, ids, per, stored):
    """Iterators and point queries of the SAME reader used at the same time: loops over client_ids() /
    client_sizes() / clients() / shuffled_clients() with get_client / client_size / num_clients /
    get_clients inside, two iterators zipped, a pass suspended while complete passes run, nested loops.
    Every read must still be what was written (`ids` = the listing of an undisturbed pass)."""
    import itertools
    by_id = {cid: (obj, spec) for cid, obj, spec in stored}
    readable = {cid for cid, (_, ex) in zip(ids, per) if ex[0] == 'ok'}
    all_readable = len(readable) == len(ids)
    rows = {cid: (spec[1][0][1][1][0] if spec[0] == 'dict' and spec[1] and spec[1][0][1][0] in ('nd', 'obj')
                  and spec[1][0][1][1] else None) for cid, _, spec in stored}
    n = len(ids)
    small = n <= 64
    found = []

    def say(msg):
      if len(found) < 4:
        found.append('interleaved reads on one reader: ' + msg)

    def judge(how, cid, ex):
      if cid in by_id and not bad_leaves(by_id[cid][1]):
        dd = deep_diff(by_id[cid][0], ex, by_id[cid][1])
        if dd:
          say(f'{how}: client {cid!r} is not read back as written: {dd}')

    def same_listing(how, got):
      if list(got) != list(ids):
        missing = [c for c in ids if c not in set(got)]
        say(f'{how} visited {len(got)} of {n} clients (missing first: {missing[:3]}, order kept: '
            f'{list(got) == [c for c in ids if c in set(got)]})')

    # 1. point queries inside a loop over client_ids()
    seen = []
    for cid in fd.client_ids():
      seen.append(cid)
      if cid in readable:
        judge('get_client inside a client_ids() loop', cid, fd.get_client(cid).raw_examples)
      try:
        sz = fd.client_size(cid)
        if cid in rows and rows[cid] is not None and sz != rows[cid]:
          say(f'client_size({cid!r}) inside a client_ids() loop = {sz}, written {rows[cid]} rows')
      except KeyError:
        say(f'client_size({cid!r}) inside a client_ids() loop raised KeyError')
      if fd.num_clients() != n:
        say(f'num_clients() inside a client_ids() loop = {fd.num_clients()} != {n}')
      if len(seen) > n + 2:
        break
    same_listing('a client_ids() loop with get_client/client_size/num_clients calls inside', seen)

    # 2. two iterators of the reader consumed in lock step
    pairs = list(itertools.islice(zip(fd.client_ids(), fd.client_sizes()), n + 2))
    same_listing('zip(client_ids(), client_sizes()): the ids side', [a for a, _ in pairs])
    for a, b in pairs:
      if tuple(b)[0] != a or (a in rows and rows[a] is not None and tuple(b)[1] != rows[a]):
        say(f'zip(client_ids(), client_sizes()) paired id {a!r} with {tuple(b)!r} (written rows: {rows.get(a)})')
        break

    # 3. a client_sizes() pass suspended while complete passes run, then resumed
    it = fd.client_sizes()
    head = list(itertools.islice(it, 1))
    full_ids = list(fd.client_ids())
    full_sizes = list(fd.client_sizes())
    rest = list(itertools.islice(it, n + 2))
    same_listing('a complete client_ids() pass run while a client_sizes() pass was suspended', full_ids)
    same_listing('a client_sizes() pass suspended after one item and resumed after other passes',
                 [tuple(x)[0] for x in head + rest])
    if sorted(map(tuple, full_sizes)) != sorted((c, rows[c]) for c in ids if c in rows) and all(
        rows.get(c) is not None for c in ids):
      say('a complete client_sizes() pass run while another was suspended differs from what was written')

    if all_readable:
      # 4. a clients() pass with other queries in between
      seen = []
      for cid, ds in itertools.islice(fd.clients(), n + 2):
        seen.append(cid)
        judge('clients() loop', cid, ds.raw_examples)
        if fd.num_clients() != n:
          say(f'num_clients() inside a clients() loop = {fd.num_clients()} != {n}')
        if small:
          for c2, ds2 in fd.get_clients([cid, ids[0]]):
            judge('get_clients inside a clients() loop', c2, ds2.raw_examples)
      same_listing('a clients() loop with num_clients/get_clients calls inside', seen)
      if small and n:
        # 5. one epoch of shuffled_clients() with point queries inside
        seen = []
        for cid, ds in itertools.islice(fd.shuffled_clients(buffer_size=2, seed=3), n):
          seen.append(cid)
          judge('shuffled_clients() loop', cid, ds.raw_examples)
          fd.client_size(cid)
          judge('get_client inside a shuffled_clients() loop', cid, fd.get_client(cid).raw_examples)
        if sorted(seen) != sorted(ids):
          say(f'the first {n} items of shuffled_clients() with get_client/client_size calls inside are not one '
              f'pass over the clients: {len(set(seen))} distinct of {n}')
        # 6. nested loops over the same reader
        outer = []
        for cid in fd.client_ids():
          outer.append(cid)
          inner = [c for c, _ in fd.clients()]
          if inner != list(ids):
            say(f'a clients() pass nested inside a client_ids() loop visited {len(inner)} of {n} clients')
            break
          if len(outer) > n + 2:
            break
        same_listing('the outer client_ids() loop around nested clients() passes', outer)
    return found

  def _reread_after_mutation(self, fd, path, ids, per, stored):
    """Reads clients again (same reader, derived views, a fresh reader; get_client / get_clients /
    clients / shuffled_clients) after the caller modified IN PLACE everything it had been handed
    (directly, and inside a preprocess_client function). Every read must still equal what was written."""
    import itertools
    by_id = {cid: (obj, spec) for cid, obj, spec in stored}
    ok_ids = [cid for cid, (_, ex) in zip(ids, per)
              if ex[0] == 'ok' and cid in by_id and not bad_leaves(by_id[cid][1])]
    if not ok_ids:
      return []
    # full passes only when every stored client is readable (a str feature makes clients() raise, as it must)
    small = len(ids) <= 64 and all(ex[0] == 'ok' for _, ex in per)
    if len(ok_ids) > 40:
      step = len(ok_ids) // 38
      sample = ok_ids[::step][:38] + [ok_ids[-1]]
    else:
      sample = list(ok_ids)
    found = []

    def mutate(ex):
      for k in list(ex):
        v = ex[k]
        if isinstance(v, np.ndarray) and v.size:
          try:
            if v.dtype == object:
              v.flat[0] = b'\xffEDITED-BY-CALLER'
              v.flat[v.size - 1] = b''
            else:
              v.flat[0] = np.ones((), v.dtype) if not v.flat[0] else np.zeros((), v.dtype)
          except (ValueError, TypeError):
            pass                      # read-only buffers cannot be edited: fine
      k0 = next(iter(ex))
      ex[(k0 + '~renamed') if isinstance(k0, str) else (k0 + b'~renamed')] = ex.pop(k0)
      ex['\x00added-by-caller'] = np.arange(len(next(iter(ex.values()))))   # consistent row count
      if len(ex) > 3:
        del ex[next(iter(ex))]
      return ex

    def judge(how, cid, ex):
      if len(found) >= 4 or cid not in by_id or bad_leaves(by_id[cid][1]):
        return
      obj, spec = by_id[cid]
      dd = deep_diff(obj, ex, spec)
      if dd:
        found.append(f'{how}: client {cid!r} no longer reads back as written after the caller edited, in place, '
                     f'the examples a previous read had returned: {dd}')

    def read_all(how, reader):
      for cid in sample:
        judge(f'{how}.get_client', cid, reader.get_client(cid).raw_examples)
      for cid, ds in reader.get_clients(sample[:10]):
        judge(f'{how}.get_clients', cid, ds.raw_examples)
      if small:
        for cid, ds in reader.clients():
          judge(f'{how}.clients', cid, ds.raw_examples)
        for cid, ds in itertools.islice(reader.shuffled_clients(buffer_size=3, seed=1), len(ids)):
          judge(f'{how}.shuffled_clients', cid, ds.raw_examples)

    def fresh():
      return self.sq.SQLiteFederatedData.new(path)

    # round A: edit what get_client returned
    for cid in sample:
      mutate(fd.get_client(cid).raw_examples)
    read_all('same reader', fd)
    read_all('slice view', fd.slice(start=min(sample)))
    f2 = fresh()
    try:
      read_all('fresh reader', f2)
      if small:
        # round B: edit what a full pass of clients() / get_clients() returned
        for _, ds in fd.clients():
          mutate(ds.raw_examples)
        for _, ds in f2.get_clients(sample):
          mutate(ds.raw_examples)
        read_all('same reader, 2nd pass', fd)
        # round C: a client preprocessor that edits its argument in place, then plain reads
        edited = fd.preprocess_client(lambda cid, ex: mutate(ex))
        for _, ds in edited.clients():
          ds.raw_examples            # pylint: disable=pointless-statement
        for cid in sample:
          edited.get_client(cid)
        read_all('after an in-place preprocess_client pass', fd)
        read_all('fresh reader, after all edits', f2)
    finally:
      _close_reader(f2)
    return found

  # ---------------------------------------------------------------- pickle: save_state/load_state
  def _eval_state(self, case, ctx):
    spec = case['tree']
    obj = build(spec)
    d = tempfile.mkdtemp(prefix='c16st')
    problems = []
    try:
      p = os.path.join(d, 'state')
      try:
        self.ser.save_state(obj, p)
        out = self.ser.load_state(p)
        dd = deep_diff_exact(obj, out, spec)
        if dd:
          problems.append('load_state(save_state(x)) != x: ' + dd)
      except Exception as e:   # pylint: disable=broad-except
        problems.append(f'save_state/load_state raised {type(e).__name__}: {e}')
    finally:
      shutil.rmtree(d, ignore_errors=True)
    tags = {'kind=state'}
    leaf_tags(spec, tags)
    return Outcome(oracle_fail='; '.join(problems) or None, key='C16/state/other' if problems else None,
                   nontrivial=True, tags=tuple(sorted(tags)), detail={'python': _short(repr(obj), 600)})

  def _make_state(self, algo, opt, shape):
    import jax
    import jax.numpy as jnp
    import fedjax
    from fedjax.algorithms import (agnostic_fed_avg, apfl, fed_avg, fed_prox, hyp_cluster, mime,
                                   mime_lite)
    mk = {'sgd': lambda: fedjax.optimizers.sgd(0.1),
          'momentum': lambda: fedjax.optimizers.sgd(0.1, momentum=0.9),
          'adam': lambda: fedjax.optimizers.adam(0.1, 0.9, 0.999, 1e-8),
          'adagrad': lambda: fedjax.optimizers.adagrad(0.1),
          'rmsprop': lambda: fedjax.optimizers.rmsprop(0.1),
          'yogi': lambda: fedjax.optimizers.yogi(0.1)}
    server_opt = mk[opt]()
    client_opt = fedjax.optimizers.sgd(0.1)
    params = {'linear': {'w': jnp.arange(int(np.prod(shape)) if shape else 1, dtype=jnp.float32).reshape(shape) / 4 + 1,
                         'b': jnp.float32(0.5)},
              'emb': jnp.arange(6, dtype=jnp.float32).reshape(3, 2)}

    def loss(p, batch, rng):
      del rng
      return (batch['x'] * jnp.sum(p['emb'])) ** 2

    grad_fn = jax.grad(lambda p, b, r: jnp.mean(loss(p, b, r)))
    sh = fedjax.ShuffleRepeatBatchHParams(batch_size=2)
    pb = fedjax.PaddedBatchHParams(batch_size=2)
    if algo == 'fed_avg':
      return fed_avg.federated_averaging(grad_fn, client_opt, server_opt, sh).init(params)
    if algo == 'fed_prox':
      return fed_prox.fed_prox(loss, client_opt, server_opt, sh, 0.1).init(params)
    if algo == 'mime':
      return mime.mime(loss, server_opt, sh, pb, 1.0).init(params)
    if algo == 'mime_lite':
      return mime_lite.mime_lite(loss, server_opt, sh, pb, 1.0).init(params)
    if algo == 'hyp_cluster':
      p2 = jax.tree_util.tree_map(lambda x: x + 1, params)
      return hyp_cluster.hyp_cluster(loss, client_opt, server_opt, pb, sh).init([params, p2])
    if algo == 'agnostic_fed_avg':
      return agnostic_fed_avg.agnostic_federated_averaging(
          loss, client_opt, server_opt, sh, pb, init_domain_weights=[0.25, 0.75],
          domain_learning_rate=0.1, domain_window_size=2, init_domain_window=[1.0, 2.0]).init(params)
    if algo == 'apfl':
      st = apfl.adaptive_personalized_federated_learning(grad_fn, client_opt, server_opt, sh, 0.5).init(params)
      cs = apfl.ClientState(params=jax.tree_util.tree_map(lambda x: x * 2, params),
                            interpolation_coefficients=jax.tree_util.tree_map(lambda _: 0.5, params))
      return apfl.ServerState(params=st.params, opt_state=st.opt_state, client_states={b'c\x00': cs, b'd': cs})
    raise InfraError(algo)

  def _eval_ckpt(self, case, ctx):
    import jax
    algo, opt, shape, keep = case['algo'], case['opt'], case['shape'], case['keep']
    hist = case['hist'] if 'hist' in case else list(case['rounds'])
    try:
      base = self._make_state(algo, opt, shape)
    except InfraError:
      raise
    except Exception as e:   # pylint: disable=broad-except
      raise InfraError(f'cannot build {algo}/{opt} server state in this environment: {type(e).__name__}: {e}')
    problems, corr, obs = [], [], []
    d = tempfile.mkdtemp(prefix='c16ck')
    try:
      # save_state / load_state directly, also onto a path that already holds another state
      p = os.path.join(d, 'plain_state')
      other = jax.tree_util.tree_map(lambda x: x + 5 if hasattr(x, 'dtype') and x.dtype.kind == 'f' else x, base)
      for st in (other, base):
        self.ser.save_state(st, p)
        dd = state_diff(st, self.ser.load_state(p))
        if dd:
          problems.append(f'load_state(save_state({algo} state)) differs: {dd}')
      # a history of checkpoints in one directory; every save has its own distinguishable state.
      # Reference (independent of the code): files = round -> state of the LAST save under that round;
      # after each save only the `keep` highest rounds remain.
      root = os.path.join(d, 'ckpts')
      os.makedirs(root)
      if self.ckpt.load_latest_checkpoint(root) is not None:
        problems.append('load_latest_checkpoint of an empty directory is not None')
      files = {}
      states = [jax.tree_util.tree_map(
          lambda x, step=step: x + (step + 1) * 8 if hasattr(x, 'dtype') and x.dtype.kind == 'f' else x, base)
                for step in range(len(hist))]

      def which(loaded):
        """index of the save whose state this is (-1: none of them)"""
        for j, sj in enumerate(states):
          if state_diff(sj, loaded) is None:
            return j
        return -1

      for step, r in enumerate(hist):
        st = states[step]
        if r is None:
          self.ckpt.save_checkpoint(root, st, keep=keep)       # default round_num
          r = 0
        else:
          self.ckpt.save_checkpoint(root, st, r, keep)
        files[r] = (st, step)
        for old_r in sorted(files)[:-keep]:
          del files[old_r]
        what = f'after save #{step} (round {r}) of history {hist} with keep={keep}'
        # The file naming is not part of the property: the listing is judged only when the directory has
        # the documented `checkpoint_<8 digits>` layout; otherwise only the public loaders are.
        names = sorted(os.listdir(root))
        listing = None
        if all(re.fullmatch(r'checkpoint_[0-9]{8}', n) for n in names):
          listing = []
          for n in names:
            try:
              listing.append([int(n[-8:]), which(self.ser.load_state(os.path.join(root, n)))])
            except Exception:   # pylint: disable=broad-except
              listing.append([int(n[-8:]), -2])
          if [x for x, _ in listing] != sorted(files):
            problems.append(f'{what}: checkpoint files {names} != the {keep} highest rounds '
                            f'{["checkpoint_%08d" % x for x in sorted(files)]}')
        top = max(files)
        got = self.ckpt.load_latest_checkpoint(root)
        obs.append([listing, None if got is None else [got[1], which(got[0])]])
        if got is None:
          problems.append(f'{what}: load_latest_checkpoint returned None')
        else:
          dd = state_diff(files[top][0], got[0])
          if got[1] != top or dd:
            problems.append(f'{what}: load_latest_checkpoint returned round {got[1]}'
                            + (f' whose state is not the one last saved under round {top} (save #{files[top][1]}): {dd}' if dd else f', expected round {top}'))
        for x, (sx, stepx) in sorted(files.items()):
          fp = os.path.join(root, 'checkpoint_%08d' % x)
          if os.path.exists(fp):
            dd = state_diff(sx, self.ser.load_state(fp))
            if dd:
              problems.append(f'{what}: load_state({os.path.basename(fp)}) is not the state last saved under '
                              f'round {x} (save #{stepx}): {dd}')
        if len(problems) >= 3:
          break
    except InfraError:
      raise
    except Exception as e:   # pylint: disable=broad-except
      problems.append(f'checkpoint round trip raised {type(e).__name__}: {e}')
    finally:
      shutil.rmtree(d, ignore_errors=True)
    rs = [0 if r is None else r for r in hist]
    # ---- correspondence with the Lean model of the checkpoint directory (Dir = round -> state, ascending)
    model = None
    if obs and all(r < 10**8 for r in rs) and keep >= 0:
      model = ctx.drv.ask([line('c16.ckpt', keep, [[r, j] for j, r in enumerate(rs)])])[0]
      for j, (o, m) in enumerate(zip(obs, model)):
        if o[1] != m[1]:
          corr.append(f'after save #{j}: load_latest_checkpoint gives (round, save#) {o[1]}, model {m[1]}')
        if o[0] is not None and o[0] != m[0]:
          corr.append(f'after save #{j}: directory (round, save#) {o[0]}, model {m[0]}')
    shape_tag = ('increasing' if all(a < b for a, b in zip(rs, rs[1:])) else
                 'repeats-a-round' if len(set(rs)) < len(rs) else 'non-monotone')
    return Outcome(oracle_fail='; '.join(problems[:3]) or None, corr_fail='; '.join(corr[:3]) or None,
                   key='C16/ckpt/other' if problems else None,
                   nontrivial=True, tags=('kind=ckpt', f'algo={algo}', f'opt={opt}', f'keep={keep}',
                                          f'saves={len(hist)}', f'history={shape_tag}',
                                          'default_round=' + str(any(r is None for r in hist))),
                   detail={'algo': algo, 'opt': opt, 'hist': hist, 'impl': obs, 'model': model})


def _close_reader(fd):
  """Best-effort release of a reader's SQLite handle (there is no public close; never an error)."""
  try:
    conn = getattr(fd, '_connection', None)
    if conn is not None:
      conn.close()
  except Exception:   # pylint: disable=broad-except
    pass


def _short(v, n=400):
  s = v if isinstance(v, str) else core.enc(v) if not isinstance(v, dict) else repr(v)
  return s if len(s) <= n else s[:n] + f'…(+{len(s) - n})'


def deep_diff_exact(x, out, spec, path='$'):
  """pickle must return exactly the value: as deep_diff, plus tuples and the jax array type preserved."""
  import jax
  k = spec[0]
  if k == 'nd':
    if isinstance(x, jax.Array) != isinstance(out, jax.Array):
      return f'{path}: array type {type(x).__name__} came back as {type(out).__name__}'
    if isinstance(x, jax.Array):
      out = np.asarray(out)
    # numpy's own pickling returns swapped arrays in native order (same values): the byte-order
    # flag is not part of the value here either
    return deep_diff(x, out, spec, path)
  if k in ('list', 'tuple'):
    if type(out) is not type(x) or len(out) != len(x):
      return f'{path}: {type(x).__name__} came back as {type(out).__name__}'
    for i, (a, b, s) in enumerate(zip(x, out, spec[1])):
      d = deep_diff_exact(a, b, s, f'{path}[{i}]')
      if d:
        return d
    return None
  if k == 'dict':
    if type(out) is not dict or list(out) != list(x):
      return f'{path}: dict keys changed'
    for kk, vv in spec[1]:
      key = build(kk)
      d = deep_diff_exact(x[key], out[key], vv, f'{path}[{key!r}]')
      if d:
        return d
    return None
  return deep_diff(x, out, spec, path)


def state_diff(a, b):
  """None if two server states are equal pytrees (same structure, leaf types, dtypes, shapes, bits)."""
  import jax
  if type(a) is not type(b):
    return f'type {type(a).__name__} -> {type(b).__name__}'
  la, ta = jax.tree_util.tree_flatten(a)
  lb, tb = jax.tree_util.tree_flatten(b)
  if ta != tb:
    return f'tree structure {ta} -> {tb}'
  for i, (x, y) in enumerate(zip(la, lb)):
    if isinstance(x, (jax.Array, np.ndarray, np.generic)):
      if isinstance(x, jax.Array) != isinstance(y, jax.Array):
        return f'leaf {i}: {type(x).__name__} -> {type(y).__name__}'
      xa, ya = np.asarray(x), np.asarray(y)
      if xa.dtype != ya.dtype or xa.shape != ya.shape or xa.tobytes() != ya.tobytes():
        return f'leaf {i}: {xa.dtype}{xa.shape} {xa.flatten()[:3]} -> {ya.dtype}{ya.shape} {ya.flatten()[:3]}'
    elif type(x) is not type(y) or x != y:
      return f'leaf {i}: {x!r} -> {y!r}'
  return None


def shrink_tree(spec):
  k = spec[0]
  if k in ('list', 'tuple'):
    for e in spec[1]:
      yield e
    for i in range(len(spec[1])):
      yield [k, spec[1][:i] + spec[1][i + 1:]]
    for i, e in enumerate(spec[1]):
      for t in shrink_tree(e):
        yield [k, spec[1][:i] + [t] + spec[1][i + 1:]]
  elif k == 'dict':
    for _, v in spec[1]:
      yield v
    for i in range(len(spec[1])):
      yield ['dict', spec[1][:i] + spec[1][i + 1:]]
    for i, (kk, v) in enumerate(spec[1]):
      for t in shrink_tree(v):
        yield ['dict', spec[1][:i] + [[kk, t]] + spec[1][i + 1:]]
  elif k == 'nd':
    _, shape, tok, swapped, layout, items = spec
    if layout != 'C':
      yield ['nd', shape, tok, swapped, 'C', items]
    n = len(items)
    if shape and shape[0] > 0 and n > 0:
      # keep the trailing shape, fewer leading rows
      per = n // shape[0]
      for rows in sorted({1, shape[0] // 2, shape[0] - 1}):
        if 0 < rows < shape[0]:
          yield ['nd', [rows] + shape[1:], tok, swapped, layout, items[:rows * per]]
    if len(shape) > 1 and n > 0:
      yield ['nd', [n], tok, swapped, layout, items]
    if n > 0:
      simple = [(bytes([0] * (len(bytes.fromhex(i)) - 1) + [1]) if swapped else
                 bytes([1] + [0] * (len(bytes.fromhex(i)) - 1))).hex() for i in items]
      if simple != items and tok in ITEMSIZE and not _is_complex(tok) and tok != 'bool':
        yield ['nd', shape, tok, swapped, layout, simple]
  elif k == 'obj':
    shape, elems = spec[1], spec[2]
    if len(shape) != 1:
      yield ['obj', [len(elems)], elems]
    else:
      for i in range(len(elems)):
        yield ['obj', [len(elems) - 1], elems[:i] + elems[i + 1:]]
      for i, e in enumerate(elems):
        if e[0] == 'bytes' and e[1] != '61':
          yield ['obj', shape, elems[:i] + [['bytes', '61']] + elems[i + 1:]]


PROPERTY = C16
