"""C13 — client sampling is a pure function of (seed, round number)."""
import atexit
import itertools
import os
import shutil
import tempfile

import numpy as np

from props import _fd_xproc
from vlib import core
from vlib.core import Outcome, line

P = 2**31 - 1
ID_POOL = [b'a', b'a\x00', b'a\x00\x00', b'ab', b'\x00', b'\x00\x00', b'\xff', b'\xff\x00', b'b',
           b'b\x00', b'', b'0123456789012345678901234', b'0123456789012345678901234\x00', b'z\x00z']


def gen_ids(rng, k):
  """k distinct ids; always some with trailing zero bytes / prefixes of one another."""
  pool = list(ID_POOL)
  rng.shuffle(pool)
  ids = pool[:min(k, rng.randrange(1, len(pool) + 1))]
  i = 0
  while len(ids) < k:
    ids.append(b'%04d' % i + (b'\x00' if rng.random() < 0.3 else b''))
    i += 1
  rng.shuffle(ids)
  return [x.hex() for x in ids[:k]]


def table_of(ids_hex):
  """Deterministic example table: client j (in the given order) owns rows 100*j .. 100*j+size-1."""
  tab = {}
  for j, h in enumerate(ids_hex):
    size = (j * 7 + 1) % 4
    tab[bytes.fromhex(h)] = {'x': (np.arange(size, dtype=np.int32) + 100 * j)}
  return tab


def large_ids(N):
  """N distinct ids for a large population (some with trailing zero bytes, some prefixes of others)."""
  return [(b'c%05d' % i + (b'\x00' if i % 7 == 3 else b'')).hex() for i in range(N)]


def case_ids(case):
  return large_ids(case['ids_n']) if 'ids_n' in case else case['ids']


class InjectedFault(OSError):
  pass


def make_faulty_class(base):
  """A FederatedData (subclass of the public interface) that delegates to another one and whose dataset loading
  can be made to fail once (a transient storage error).

  `arm(j)`: the j-th dataset load from now on (0-based, counted over `get_clients` yields and `get_client`
  calls) raises InjectedFault instead; j = 0 fails before anything is yielded. One shot."""

  class FaultyData(base):

    def __init__(self, fd):
      self._fd = fd
      self._armed = None
      self.triggered = False

    def arm(self, j):
      self._armed, self.triggered = j, False

    def disarm(self):
      self._armed = None

    def _load(self):
      if self._armed is not None:
        if self._armed == 0:
          self._armed, self.triggered = None, True
          raise InjectedFault('injected transient storage error')
        self._armed -= 1

    def get_clients(self, client_ids):
      it = iter(self._fd.get_clients(client_ids))
      while True:
        self._load()
        try:
          item = next(it)
        except StopIteration:
          return
        yield item

    def get_client(self, client_id):
      self._load()
      return self._fd.get_client(client_id)

    def slice(self, start=None, stop=None):
      return self._fd.slice(start, stop)

    def num_clients(self):
      return self._fd.num_clients()

    def client_ids(self):
      return self._fd.client_ids()

    def client_sizes(self):
      return self._fd.client_sizes()

    def client_size(self, client_id):
      return self._fd.client_size(client_id)

    def clients(self):
      return self._fd.clients()

    def shuffled_clients(self, buffer_size, seed=None):
      return self._fd.shuffled_clients(buffer_size, seed)

    def preprocess_client(self, fn):
      return self._fd.preprocess_client(fn)

    def preprocess_batch(self, fn):
      return self._fd.preprocess_batch(fn)

  return FaultyData


def keydata(k):
  import jax
  try:
    a = np.asarray(k)
    if a.dtype == np.uint32:
      return tuple(int(v) for v in a.ravel())
  except TypeError:
    pass
  return tuple(int(v) for v in np.asarray(jax.random.key_data(k)).ravel())


class C13(core.Property):
  CASE_TIMEOUT_S = 60
  ID = 'C13'
  RULE = ('cases = (backend in-memory/SQLite, id set incl. trailing-zero / prefix ids, seed, cohort size, '
          'start round, history of sample()/set_round_num(r) calls incl. sample() calls whose dataset loading fails '
          'once - before the first client or after j clients of the lazy get_clients - followed by the plain retry), '
          'large populations (1000..5000 one-example clients, cohorts 20..500 <= population/10, a few dozen rounds) '
          'LONG histories on one sampler object (>= 130 consecutive rounds, jumps of 63/64/65/127/128/129 rounds forward '
          'and back, streaming runs of >= 135 rounds restarted at 1/30/63/64/65), one pair of fresh interpreters with '
          'different PYTHONHASHSEED per run over a sliced dataset (listings, shuffled passes, both samplers) '
          'and streaming restarts (buffer, stream seed, cohort, start round r0, k calls); non-trivial = history has '
          '>= 2 sample() calls with a jump or a failed sample, or stream restart with r0 >= 1; distinct by case digest')
  TRUSTED = ['numpy RandomState determinism and jax.random key derivation (distinctness of ids and keys is checked on '
             'every observed cohort)',
             'what "the cohort and keys of round r" are is taken from the implementation through its public API (a fresh '
             'sampler started at r); the numpy/jax replicas of the anchored derivation (RandomState(lehmer).choice over '
             'the object id array, split(PRNGKey(r), n), get_pseudo_random_state) are evidence counts '
             '(replica_*_agree / _differ), not requirements: the property fixes the samplers only as functions of '
             '(seed, round). The C13_lehmer_* theorems therefore describe the anchored derivation as long as '
             'replica_lehmer_differ stays 0 in the evidence']
  ASSUMPTIONS = ['round numbers < 2**31 (jax.random.PRNGKey(r) wraps modulo 2**32 without x64, so keys of '
                 'rounds r and r + 2**32 coincide; outside the tested domain)',
                 'the streaming sampler is given a fresh iterator of the same seeded client stream',
                 'a sample() that raises hands out nothing and therefore must not consume its round (the caller '
                 'retries with a plain sample()); faults are injected by a wrapper around the dataset (get_clients / '
                 'get_client), not inside fedjax',
                 'on large populations the fresh-sampler / re-seated comparison is made for the first two and the '
                 'last round of the history and for every retry after a failure; distinctness, membership, keys and '
                 'the comparison with a fresh sampler at the round the model names are made for every round']
  QUICK_BUDGET_S = 100
  THOROUGH_BUDGET_S = 540

  def setup(self, ctx):
    import jax
    from fedjax.core import client_samplers as cs
    from fedjax.core import in_memory_federated_data as mem
    from fedjax.core import sqlite_federated_data as sql
    from fedjax.core import federated_data as fdm
    self.jax, self.cs, self.mem, self.sql = jax, cs, mem, sql
    self.FaultyData = make_faulty_class(fdm.FederatedData)
    self.stream_key_cache = {}
    self.tmp = tempfile.mkdtemp(prefix='c13_')
    self.sql_cache = {}
    self.big_cache = {}
    self.key_cache = {}

    atexit.register(self._cleanup)

  def _cleanup(self):
    for fd in self.sql_cache.values():
      try:
        fd._connection.close()
      except Exception:
        pass
    shutil.rmtree(self.tmp, ignore_errors=True)

  # ---------------------------------------------------------------- datasets
  def dataset(self, backend, ids_hex):
    big = len(ids_hex) >= 500
    if big and (backend, len(ids_hex)) in self.big_cache and self.big_cache[(backend, len(ids_hex))][2] == ids_hex:
      return self.big_cache[(backend, len(ids_hex))][:2]
    if big:      # 1-example datasets
      tab = {bytes.fromhex(h): {'x': np.array([j], dtype=np.int32)} for j, h in enumerate(ids_hex)}
    else:
      tab = table_of(ids_hex)
    if backend == 'mem':
      fd = self.mem.InMemoryFederatedData(tab)
      if big:
        self.big_cache[(backend, len(ids_hex))] = (fd, tab, ids_hex)
      return fd, tab
    key = tuple(ids_hex)
    if key not in self.sql_cache:
      path = os.path.join(self.tmp, f'd{len(self.sql_cache)}.sqlite')
      with self.sql.SQLiteFederatedDataBuilder(path) as b:
        b.add_many(list(tab.items()))   # insertion order = generated (shuffled) order
      self.sql_cache[key] = self.sql.SQLiteFederatedData.new(path)
    if big:
      self.big_cache[(backend, len(ids_hex))] = (self.sql_cache[key], tab, ids_hex)
    return self.sql_cache[key], tab

  def stream_keys_ref(self, r, n):
    """Keys a streaming sampler hands out at round r for a cohort of n, obtained through the public API (a sampler
    started at round r over a dummy stream); the property fixes them only as 'a function of the round'."""
    if (r, n) not in self.stream_key_cache:
      s = self.cs.UniformShuffledClientSampler(((b'k%d' % i, None) for i in itertools.count()), n, r)
      self.stream_key_cache[(r, n)] = [list(keydata(k)) for _, _, k in s.sample()]
    return self.stream_key_cache[(r, n)]

  def keys_of(self, r, n):
    if (r, n) not in self.key_cache:
      ks = self.jax.random.split(self.jax.random.PRNGKey(r), n)
      self.key_cache[(r, n)] = [keydata(k) for k in ks]
    return self.key_cache[(r, n)]

  @staticmethod
  def obs(cohort):
    """Observation of a sample() result: (id hex, example rows, key words) per member."""
    return [[cid.hex() if isinstance(cid, (bytes, np.bytes_)) else repr(cid),
             [int(v) for v in ds.all_examples()['x']], list(keydata(k))] for cid, ds, k in cohort]

  # ---------------------------------------------------------------- generation
  def gen_cases(self, rng, tier):
    if tier == 'thorough':
      # exhaustive small scope: every history of length <= 3 over {sample, set 0, set 1, set 2}
      alphabet = [-1, 0, 1, 2, [-2, 0], [-2, 1]]
      for nc in (1, 2, 3, 4):
        ids = [x.hex() for x in [b'a', b'a\x00', b'a\x00\x00', b'b'][:nc]]
        for n in range(1, nc + 1):
          for L in (1, 2, 3):
            for ops in itertools.product(alphabet, repeat=L):
              yield {'kind': 'get', 'backend': 'mem' if (n + L) % 2 else 'sqlite', 'ids': ids, 'seed': nc + L,
                     'n': n, 'r0': 0, 'ops': list(ops) + [-1]}
    ncases = 150 if tier == 'quick' else 1500
    large = {5: (2000, 100), 45: (1000, 100), 95: (5000, 200)} if tier == 'quick' else {
        7 + 40 * j: (N, n) for j, (N, n) in enumerate(
            [(1000, 100), (1000, 20), (2000, 100), (2000, 200), (2000, 50), (5000, 200), (5000, 120), (5000, 500),
             (1000, 100), (3000, 300), (1500, 150), (2000, 100), (1000, 101), (999, 99), (5000, 20), (2000, 199)])}
    long_at = ({12: 'consecutive', 30: 'stream', 70: 'jumps', 110: 'stream'} if tier == 'quick' else
               {11 + 29 * j: w for j, w in enumerate(['consecutive', 'stream', 'jumps', 'stream', 'chain'] * 5)})
    xproc_at = {20} if tier == 'quick' else {20, 520, 1020}
    for i in range(ncases):
      if i in xproc_at:
        yield self.gen_xproc(rng)
        continue
      if i in long_at:
        yield self.gen_long(rng, long_at[i])
        continue
      if i in large:
        # large population, small cohort: a few dozen rounds, mostly sequential, some jumps, one failed load
        N, n = large[i]
        ops, r = [], 0
        for _ in range(22 if tier == 'quick' else 40):
          u = rng.random()
          if u < 0.08:
            ops.append(rng.randrange(0, 60))
          elif u < 0.13:
            ops.append([-2, rng.randrange(0, n)])
            ops.append(-1)
          else:
            ops.append(-1)
        yield {'kind': 'get', 'backend': 'sqlite' if (N == 1000 and rng.random() < 0.5) else 'mem', 'ids_n': N,
               'seed': rng.choice([0, 1, rng.randrange(0, 2**32)]), 'n': n, 'r0': rng.choice([0, 3]), 'ops': ops}
        continue
      nc = rng.choice([1, 2, 3, 4, 5, 8, 13, 30]) if rng.random() < 0.6 else rng.randrange(1, 31)
      ids = gen_ids(rng, nc)
      backend = rng.choice(['mem', 'sqlite'])
      if i % 4 == 3:
        n = rng.randrange(1, min(2 * nc, 9) + 1)
        yield {'kind': 'stream', 'backend': backend, 'ids': ids, 'n': n, 'r0': rng.randrange(0, 7),
               'k': rng.randrange(1, 4), 'buffer': rng.choice([1, 2, 3, nc, nc + 3, 100]),
               'sseed': rng.choice([0, 0, rng.randrange(0, 1000), rng.randrange(0, 2**32)]),
               'sseed_np': rng.random() < 0.3}
        continue
      n = rng.choice([1, nc, rng.randrange(1, nc + 1)])
      seed = rng.choice([0, 1, 2, 7, 123456789, 2**32 - 1, rng.randrange(0, 2**32)])
      ops = []
      for _ in range(rng.randrange(1, 7)):
        u = rng.random()
        if u < 0.47:
          ops.append(-1)
        elif u < 0.57:
          # a sample() whose dataset loading fails (before anything is yielded, or after j clients), then
          # usually the caller's plain retry
          ops.append([-2, rng.choice([0, 0, rng.randrange(0, n)])])
          if rng.random() < 0.8:
            ops.append(-1)
        elif u < 0.85:
          ops.append(rng.randrange(0, 8))          # forward/backward/repeated jumps among small rounds
        elif u < 0.95:
          ops.append(rng.choice([10**3, 10**6, 54321, 2**20 + 1]))
        else:
          ops.append(rng.choice([P - 2, P - 1, P, 2**31 - 5]))
      if -1 not in ops or isinstance(ops[-1], list):
        ops.append(-1)
      yield {'kind': 'get', 'backend': backend, 'ids': ids, 'seed': seed, 'n': n,
             'r0': rng.choice([0, 0, 1, 3, 100]), 'ops': ops}

  def gen_long(self, rng, which):
    """LONG histories on ONE sampler object (>= 130 rounds; jumps of 63/64/65/127/128/129 rounds): whatever a
    sampler caches per block of rounds must not leak across block boundaries."""
    nc = rng.choice([2, 3, 4, 5])
    ids = gen_ids(rng, nc)
    backend = rng.choice(['mem', 'mem', 'sqlite'])
    if which == 'stream':
      r0 = rng.choice([1, 30, 63, 64, 65, rng.randrange(2, 63)])
      return {'kind': 'stream', 'backend': backend, 'ids': ids, 'n': rng.choice([1, 2, 3]), 'r0': r0,
              'k': rng.randrange(136, 200) - r0, 'buffer': rng.choice([1, 2, nc, 100]),
              'sseed': rng.choice([0, rng.randrange(0, 1000)]), 'sseed_np': rng.random() < 0.3}
    n = rng.choice([1, min(2, nc)])
    seed = rng.choice([0, 1, rng.randrange(0, 2**32)])
    if which == 'consecutive':
      ops = [-1] * rng.randrange(130, 141)
      ops.insert(rng.randrange(1, len(ops)), [-2, 0])
      return {'kind': 'get', 'backend': backend, 'ids': ids, 'seed': seed, 'n': n, 'r0': rng.choice([0, 3, 100]),
              'ops': ops}
    ds = [63, 64, 65, 127, 128, 129]
    rng.shuffle(ds)
    b = rng.randrange(0, 50)
    if which == 'jumps':      # from the same round b forward by d and back, for every d
      ops = [b, -1]
      for d in ds:
        ops += [b + d, -1, b, -1]
      ops += [b + 200, -1]
      for d in ds:            # backward by d, then forward again
        ops += [b + 200 - d, -1, b + 200, -1]
    else:                     # chains: each jump starts where the previous one landed
      cur = b
      ops = [cur, -1]
      for d in ds + ds[:3]:
        cur += d
        ops += [cur, -1]
      for d in ds:
        cur = max(0, cur - d)
        ops += [cur, -1, -1]
    return {'kind': 'get', 'backend': backend, 'ids': ids, 'seed': seed, 'n': n, 'r0': rng.choice([0, b]), 'ops': ops}

  def gen_xproc(self, rng):
    """One sliced dataset observed in this process and in two fresh interpreters with different hash salts."""
    k = rng.randrange(9, 14)
    pool = list(ID_POOL)
    rng.shuffle(pool)
    ids = [c for c in pool if c][:6]
    j = 0
    while len(ids) < k:
      ids.append(b'%03d' % j + (b'\x00' if rng.random() < 0.3 else b''))
      j += 1
    rng.shuffle(ids)                                    # insertion order of the mapping / of the SQLite rows
    srt = sorted(ids)
    slices = [[srt[1].hex(), None if rng.random() < 0.5 else srt[-1].hex()]]
    if rng.random() < 0.4:
      slices.append([None, srt[-2].hex()])
    x = rng.randrange(0, 1000)
    return {'kind': 'xproc', 'hashseeds': [1 + 2 * x, 2 + 2 * x],
            'spec': {'table': [[c.hex(), [10 * t + 1 + r for r in range(t % 3 + 1)]] for t, c in enumerate(ids)],
                     'slices': slices, 'buffer': rng.choice([2, 3, 100]), 'seed': rng.randrange(0, 1000),
                     'cohort': rng.choice([2, 3]), 'r0': 2, 'rounds': 6, 'gseed': rng.randrange(0, 1000)}}

  def shrink(self, case):
    if case['kind'] == 'xproc':
      sp = case['spec']
      t = sp['table']
      if len(sp['slices']) > 1:
        yield {**case, 'spec': {**sp, 'slices': sp['slices'][:1]}}
      if len(t) > 4:
        yield {**case, 'spec': {**sp, 'table': t[:len(t) // 2 + 1]}}
        yield {**case, 'spec': {**sp, 'table': t[len(t) // 2 - 1:]}}
        yield {**case, 'spec': {**sp, 'table': t[:-1]}}
      return
    if len(case.get('ops', [])) > 12:
      ops = case['ops']           # long histories: drop whole blocks first
      for size in (len(ops) // 2, len(ops) // 4, len(ops) // 8):
        for a in range(0, len(ops), max(1, size)):
          c = ops[:a] + ops[a + size:]
          if -1 in c and not isinstance(c[-1], list):
            yield {**case, 'ops': c}
    if case['kind'] == 'stream' and case['k'] > 8:
      yield {**case, 'k': case['k'] // 2}
      yield {**case, 'k': case['k'] - 8}
    if case['kind'] == 'stream' and case['r0'] > 8:
      yield {**case, 'r0': case['r0'] // 2}
    if case['kind'] == 'get':
      ops = case['ops']
      for i in range(len(ops)):
        c = ops[:i] + ops[i + 1:]
        if -1 in c:
          yield {**case, 'ops': c}
      for i, o in enumerate(ops):
        if isinstance(o, list):
          if o[1] > 0:
            yield {**case, 'ops': ops[:i] + [[-2, 0]] + ops[i + 1:]}
        elif o > 2:
          yield {**case, 'ops': ops[:i] + [o // 2] + ops[i + 1:]}
      if case['r0'] > 0:
        yield {**case, 'r0': 0}
      if case['seed'] > 0:
        yield {**case, 'seed': case['seed'] // 2}
    else:
      for k in ('r0', 'k', 'sseed'):
        lo = 1 if k == 'k' else 0
        if case[k] > lo:
          yield {**case, k: case[k] - 1}
      if case['buffer'] > 1:
        yield {**case, 'buffer': case['buffer'] // 2}
    if 'ids_n' in case:
      N = case['ids_n']
      for c in sorted({N // 2, 1000, N - 100, N - 1}):
        if case['n'] <= c < N:
          yield {**case, 'ids_n': c}
      for c in sorted({case['n'] // 2, case['n'] - 10}):
        if 1 <= c < case['n']:
          yield {**case, 'n': c}
      ids = []
    else:
      ids = case['ids']
    if len(ids) > 1:
      for i in range(len(ids)):
        c = ids[:i] + ids[i + 1:]
        if case['kind'] == 'stream' or case['n'] <= len(c):
          yield {**case, 'ids': c}
    if case['n'] > 1:
      yield {**case, 'n': case['n'] - 1}
    if case['backend'] == 'sqlite':
      yield {**case, 'backend': 'mem'}

  # ---------------------------------------------------------------- evaluation
  def evaluate(self, case, ctx):
    if case['kind'] == 'stream':
      return self._eval_stream(case, ctx)
    if case['kind'] == 'xproc':
      return self._eval_xproc(case, ctx)
    cs = self.cs
    ids_hex = case_ids(case)
    big = len(ids_hex) >= 500
    fd, tab = self.dataset(case['backend'], ids_hex)
    faulty = self.FaultyData(fd)
    n, seed, r0, ops = case['n'], case['seed'], case['r0'], case['ops']
    problems, corr, key = [], [], None

    def fail(k, msg):
      nonlocal key
      key = key or k
      problems.append(msg)

    # ---- implementation: the history
    outs, rounds_at = [], []          # per successful sample(): observation, round number it was taken at
    eff_ops = []                      # the history as it happened (-2 = a sample() that raised while loading)
    after_failure = set()             # rounds sampled right after a failed sample()
    cur = r0
    failed_last = False
    try:
      sampler = cs.UniformGetClientSampler(faulty, n, seed, r0)
      for o in ops:
        if isinstance(o, list):
          # sample() with a transient failure of the j-th dataset load (get_clients is lazy: j clients were
          # already yielded). A failed sample() hands out nothing, so it must not consume the round.
          faulty.arm(min(o[1], n - 1))
          try:
            res = sampler.sample()
          except Exception as e:
            faulty.disarm()
            if not faulty.triggered:
              raise
            ctx.count('failed_samples')
            eff_ops.append(-2)
            failed_last = True
            continue
          faulty.disarm()         # the implementation did not load that many datasets, or swallowed the error
          outs.append(self.obs(res))
          rounds_at.append(cur)
          eff_ops.append(-1)
          cur += 1
          failed_last = False
        elif o == -1:
          outs.append(self.obs(sampler.sample()))
          rounds_at.append(cur)
          if failed_last:
            after_failure.add(cur)
          failed_last = False
          eff_ops.append(-1)
          cur += 1
        else:
          sampler.set_round_num(o)
          eff_ops.append(o)
          cur = o
          failed_last = False
    except Exception as e:   # the sampler must work for every round of every history
      fail('C13/get/exception', f'history raised {type(e).__name__}: {e}')
      return Outcome(oracle_fail='; '.join(problems), key=key, tags=('get', 'exception'),
                     detail={'outs': outs})

    # ---- independent oracle: purity in (seed, round), membership, distinctness
    by_round = {}
    for r, out in zip(rounds_at, outs):
      if r in by_round and by_round[r] != out:
        fail('C13/get/history-dependent', f'round {r} sampled twice in the history gave different results')
      by_round.setdefault(r, out)
    ref = {}          # round -> what a fresh sampler started at that round returns (public API)
    rs = sorted(by_round)
    recheck = set(rs) if not big else set(rs[:2] + rs[-1:]) | (after_failure & set(rs))
    for r, out in sorted(by_round.items()):
      if r not in recheck:
        continue
      try:
        fresh = ref[r] = self.obs(cs.UniformGetClientSampler(fd, n, seed, r).sample())
        s2 = cs.UniformGetClientSampler(fd, n, seed, 0)
        s2.sample()
        s2.set_round_num(r)
        seated = self.obs(s2.sample())
      except Exception as e:
        fail('C13/get/exception', f'fresh sampler at round {r} raised {type(e).__name__}: {e}')
        continue
      if fresh != out:
        fail('C13/get/failed-sample-consumed-round' if r in after_failure else 'C13/get/history-dependent',
             f'round {r}: result inside the history differs from a fresh sampler started at round {r}'
             + (' (the sample() before it raised while loading its datasets and handed out nothing, so this '
                f'retry must still be round {r})' if r in after_failure else ''))
      if seated != out:
        fail('C13/get/history-dependent',
             f'round {r}: result differs from a sampler seated at round {r} by set_round_num after a restart')
    allkeys = {}
    for r, out in sorted(by_round.items()):
      ids = [m[0] for m in out]
      if len(out) != n:
        fail('C13/get/ids', f'round {r}: cohort has {len(out)} members, expected {n}')
      if len(set(ids)) != len(ids):
        dup = sorted({i for i in ids if ids.count(i) > 1})
        fail('C13/get/ids', f'round {r}: cohort of {len(ids)} repeats client(s) {dup}')
      for h, rows, k in out:
        try:
          cid = bytes.fromhex(h)
        except ValueError:
          cid = None
        if cid not in tab:
          fail('C13/get/ids', f'round {r}: returned id {h} is not a client id of the dataset')
        elif rows != [int(v) for v in tab[cid]['x']]:
          fail('C13/get/ids', f'round {r}: dataset returned for id {h} is not that client\'s dataset')
      ks = [tuple(m[2]) for m in out]
      if len(set(ks)) != len(ks):
        fail('C13/get/keys', f'round {r}: client keys not pairwise distinct')
      for kk in ks:
        if kk in allkeys and allkeys[kk] != r:
          fail('C13/get/keys', f'key {kk} handed out in rounds {allkeys[kk]} and {r}')
        allkeys[kk] = r

    # ---- correspondence with the Lean model. The model names, for every successful sample() of the history, the
    # round it belongs to (and the numpy seed of that round). What "the cohort of round r" is, is taken from the
    # implementation through its public API (a fresh sampler started at r), because the property fixes cohorts and
    # keys only as functions of (seed, round). The numpy / jax replicas (RandomState(lehmer).choice over the id
    # array, split(PRNGKey(r), n), get_pseudo_random_state) are recorded as agreement counts in the evidence: a
    # sampler that derives its per-round randomness differently is not a violation.
    start = int(np.random.RandomState(seed).randint(1, P - 1))
    ans = ctx.drv.ask([line('c13.run', start, n, r0, eff_ops)])[0]
    final_round, mouts = ans
    msamples = [m for m in mouts if m is not None]
    if len(msamples) != len(outs):
      corr.append(f'model answered {len(msamples)} samples for {len(outs)}')

    def reference(r):
      if r not in ref:
        ref[r] = self.obs(cs.UniformGetClientSampler(fd, n, seed, r).sample())
      return ref[r]
    ids_arr = np.array(list(fd.client_ids()), dtype=object)
    for j, (m, out) in enumerate(zip(msamples, outs)):
      npseed, rnd = m[0]
      if len(m) != n or any(x != [npseed, rnd] for x in m):
        corr.append(f'malformed model answer {m}')
        continue
      try:
        want = reference(rnd)
      except Exception as e:
        corr.append(f'fresh sampler at the model\'s round {rnd} raised {type(e).__name__}')
        continue
      if out != want:
        got_ids, want_ids = [x[0] for x in out], [x[0] for x in want]
        corr.append(f'sample #{j}: the model places it at round {rnd}, but it is not what a fresh sampler started at '
                    f'round {rnd} returns' + (f': ids {got_ids} vs {want_ids}' if n <= 12 else ''))
      # replicas (informational)
      try:
        rep_ids = [c.hex() for c in np.random.RandomState(npseed).choice(ids_arr, size=n, replace=False)]
        ctx.count('replica_ids_agree' if [x[0] for x in out] == rep_ids else 'replica_ids_differ')
        ctx.count('replica_keys_agree' if [x[2] for x in out] == [list(k) for k in self.keys_of(rnd, n)]
                  else 'replica_keys_differ')
      except Exception:
        ctx.count('replica_unavailable')
    # the round the history ends in, observed through the public API: one more sample()
    try:
      extra = self.obs(sampler.sample())
      if extra != reference(final_round):
        corr.append(f'after the history the model is at round {final_round}, but one more sample() does not return '
                    f'what a fresh sampler started at round {final_round} returns')
    except Exception as e:
      corr.append(f'one more sample() after the history raised {type(e).__name__}: {e}')
    # the seed derivation itself (informational; the helper is not part of the property)
    lans = ctx.drv.ask([line('c13.lehmer', start, r) for r in sorted(by_round)])
    for r, ms in zip(sorted(by_round), lans):
      if not 1 <= ms <= P - 1:
        corr.append(f'lehmer value {ms} outside [1, 2^31-2]')      # about the model alone (C13_lehmer_nonzero)
      helper = getattr(cs, 'get_pseudo_random_state', None)
      if helper is None:
        ctx.count('replica_lehmer_unavailable')
        continue
      try:
        st_impl = helper(seed, r).get_state()
        st_model = np.random.RandomState(ms).get_state()
        ctx.count('replica_lehmer_agree' if (np.array_equal(st_impl[1], st_model[1]) and st_impl[2] == st_model[2])
                  else 'replica_lehmer_differ')
      except Exception:
        ctx.count('replica_lehmer_unavailable')

    jumps = sum(1 for o in ops if isinstance(o, int) and o >= 0)
    nfail = eff_ops.count(-2)
    tags = ('get', case['backend'], f'n={"1" if n == 1 else ("all" if n == len(ids_hex) else "mid")}',
            f'jumps={min(jumps, 3)}', f'samples={min(len(outs), 4)}',
            'trailing0' if any(h.endswith('00') for h in ids_hex) else 'plain-ids',
            'biground' if any(isinstance(o, int) and o > 10**5 for o in ops) else 'smallround',
            f'failed-samples={min(nfail, 2)}', f'retries-after-failure={min(len(after_failure), 2)}',
            f'population={"<500" if not big else len(ids_hex)}') + (
                ('long-history',) if len(outs) >= 100 else ()) + (
                ('block-jumps',) if any(abs(a - b) in (63, 64, 65, 127, 128, 129)
                                        for a, b in zip(rounds_at, rounds_at[1:])) else ())
    return Outcome(oracle_fail='; '.join(problems[:4]) or None, corr_fail='; '.join(corr[:3]) or None,
                   key=key, nontrivial=len(outs) >= 2 and (jumps >= 1 or nfail >= 1), tags=tags,
                   detail={'impl': outs[:6] if not big else [[m[0] for m in o] for o in outs[:3]],
                           'rounds': rounds_at, 'effective_ops': eff_ops,
                           'model': ans if not big else ans[0], 'start': start})

  def _eval_stream(self, case, ctx):
    cs = self.cs
    fd, tab = self.dataset(case['backend'], case['ids'])
    n, r0, k, buf, sseed = case['n'], case['r0'], case['k'], case['buffer'], case['sseed']
    if case.get('sseed_np'):
      sseed = np.int64(sseed)       # a legal seed that is falsy when 0, like the python int 0
    problems, corr, key = [], [], None
    try:
      a = cs.UniformShuffledClientSampler(fd.shuffled_clients(buf, sseed), n, 0)
      outs_a = [self.obs(a.sample()) for _ in range(r0 + k)]
      b = cs.UniformShuffledClientSampler(fd.shuffled_clients(buf, sseed), n, r0)
      outs_b = [self.obs(b.sample()) for _ in range(k)]
    except Exception as e:
      return Outcome(oracle_fail=f'streaming sampler raised {type(e).__name__}: {e}',
                     key='C13/stream/exception', tags=('stream', 'exception'))
    # ---- independent oracle: restart at r0 reproduces rounds r0.. of the run from 0
    if outs_b != outs_a[r0:]:
      key = 'C13/stream/restart'
      j = next(i for i in range(k) if outs_b[i] != outs_a[r0 + i])
      problems.append(f'sampler started at round {r0}: its call {j} differs from call {r0 + j} of the sampler '
                      f'started at round 0: {outs_b[j]} vs {outs_a[r0 + j]}')
    seen = {}
    for r, out in enumerate(outs_a):
      ks = [tuple(m[2]) for m in out]
      if len(set(ks)) != len(ks):
        key = key or 'C13/stream/keys'
        problems.append(f'round {r}: client keys not pairwise distinct')
      for kk in ks:
        if kk in seen and seen[kk] != r:
          key = key or 'C13/stream/keys'
          if len(problems) < 4:
            problems.append(f'streaming sampler started at round 0 handed out key {kk} in rounds {seen[kk]} and {r}')
        seen.setdefault(kk, r)
    seen = {}
    for j, out in enumerate(outs_b):
      for kk in (tuple(m[2]) for m in out):
        if kk in seen and seen[kk] != j:
          key = key or 'C13/stream/keys'
          if len(problems) < 4:
            problems.append(f'streaming sampler started at round {r0} handed out key {kk} in rounds '
                            f'{r0 + seen[kk]} and {r0 + j}')
        seen.setdefault(kk, j)
    for r, out in enumerate(outs_a):
      for h, rows, _ in out:
        cid = bytes.fromhex(h)
        if cid not in tab or rows != [int(v) for v in tab[cid]['x']]:
          key = key or 'C13/stream/ids'
          problems.append(f'round {r}: ({h}, {rows}) is not a client of the dataset')
    # ---- the stream of a sampler must not depend on OTHER reads of the same dataset object made meanwhile
    # (evaluation passes, point lookups, a second sampler over another stream of the same object)
    try:
      inter = self._interleaved(fd, tab, n, r0, k, buf, sseed, outs_a)
    except Exception as e:
      inter = [f'raised {type(e).__name__}: {str(e)[:150]}']
    for msg in inter[:2]:
      key = key or 'C13/stream/interleaved-queries'
      problems.append(msg)
    # ---- correspondence: positions of the stream named by the model
    prefix = [(cid.hex(), [int(v) for v in ds.all_examples()['x']])
              for cid, ds in itertools.islice(fd.shuffled_clients(buf, sseed), (r0 + k) * n)]
    ans = ctx.drv.ask([line('c13.stream', n, r0, k), line('c13.stream', n, 0, r0 + k)])
    for (cohorts, pos, rnd), outs, name in ((ans[0], outs_b, f'start={r0}'), (ans[1], outs_a, 'start=0')):
      if len(cohorts) != len(outs):
        corr.append(f'{name}: model {len(cohorts)} cohorts vs impl {len(outs)}')
        continue
      for c, out in zip(cohorts, outs):
        want = [[prefix[p][0], prefix[p][1], self.stream_keys_ref(r, n)[i]] for i, (p, r) in enumerate(c)]
        if c:
          ctx.count('replica_stream_keys_agree' if [w[2] for w in want] == [list(x) for x in self.keys_of(c[0][1], n)]
                    else 'replica_stream_keys_differ')
        if want != out:
          corr.append(f'{name}: cohort at stream positions {[p for p, _ in c]} differs: impl {out} vs {want}')
          break
    # the round the restarted sampler ends in, through the public API: the keys of one more sample()
    try:
      if [m[2] for m in self.obs(b.sample())] != self.stream_keys_ref(ans[0][2], n):
        corr.append(f'restarted sampler: the model ends at round {ans[0][2]}, one more sample() has other keys')
    except Exception as e:
      corr.append(f'one more sample() of the restarted sampler raised {type(e).__name__}')
    # the stream is genuinely shuffled/seeded: a pass visits every client once (monitor, C08/C15 prove it)
    nc = len(case['ids'])
    if len(prefix) >= nc and len({p[0] for p in prefix[:nc]}) != nc:
      corr.append('first pass of shuffled_clients does not visit every client once')
    tags = ('stream', case['backend'], f'r0={min(r0, 3)}', 'n>clients' if n > nc else 'n<=clients',
            'buffer>=clients' if buf >= nc else 'buffer<clients')
    return Outcome(oracle_fail='; '.join(problems[:3]) or None, corr_fail='; '.join(corr[:3]) or None, key=key,
                   nontrivial=r0 >= 1, tags=tags + (('long-history',) if r0 + k >= 130 else ()),
                   detail={'from0': outs_a[:4], 'restarted': outs_b[:4],
                           'model': ans[0] if r0 + k < 20 else ans[0][1:]})

  def _interleaved(self, fd, tab, n, r0, k, buf, sseed, outs_a):
    """Samplers whose dataset object is also read by others between their reads: same rounds as alone."""
    cs = self.cs
    problems = []
    ids = sorted(tab)
    rounds = min(r0 + k, 40)

    def noisy(stream):
      q = 0
      while True:
        kind = q % 7
        if kind == 0:
          fd.num_clients()
        elif kind == 1:
          list(fd.client_ids())
        elif kind == 2:
          fd.get_client(ids[q % len(ids)])
        elif kind == 3:
          list(fd.get_clients(ids[:2]))
        elif kind == 4:
          list(fd.client_sizes())
        elif kind == 5:
          fd.client_size(ids[q % len(ids)])
        else:
          next(iter(fd.clients()))
        q += 1
        yield next(stream)
    # (1) other queries on the same object between every two reads of the stream and between rounds
    a2 = cs.UniformShuffledClientSampler(noisy(fd.shuffled_clients(buf, sseed)), n, 0)
    ev = cs.UniformGetClientSampler(fd, min(n, len(ids)), 1, 0)       # periodic evaluation on the same object
    other = fd.shuffled_clients(buf, 12345)                           # somebody else's stream of the same object
    for r in range(rounds):
      out = self.obs(a2.sample())
      ev.sample()
      next(other)
      if out != outs_a[r]:
        problems.append(f'streaming sampler over shuffled_clients({buf}, {int(sseed)}): when the same dataset object '
                        f'is also queried between its reads (num_clients, client_ids, get_client, get_clients, '
                        f'client_sizes, client_size, clients, a round-indexed sampler, a second stream) round {r} is '
                        f'{[m[0] for m in out]} instead of {[m[0] for m in outs_a[r]]}')
        break
    # (2) the original sampler and a sampler restarted at r0 over the same object, advanced in lock step
    a3 = cs.UniformShuffledClientSampler(fd.shuffled_clients(buf, sseed), n, 0)
    for r in range(min(r0, 40)):
      a3.sample()
    if r0 <= 40:
      b3 = cs.UniformShuffledClientSampler(fd.shuffled_clients(buf, sseed), n, r0)
      for j in range(min(k, 40)):
        ob, oa = self.obs(b3.sample()), self.obs(a3.sample())
        if ob != outs_a[r0 + j] or oa != outs_a[r0 + j]:
          problems.append(f'original and restarted (round {r0}) streaming samplers over the same dataset object, '
                          f'advanced in lock step: round {r0 + j} is {[m[0] for m in oa]} / {[m[0] for m in ob]}, '
                          f'alone it is {[m[0] for m in outs_a[r0 + j]]}')
          break
    return problems

  def _eval_xproc(self, case, ctx):
    """The same sliced dataset, streams and samplers in this process and in two fresh interpreters that differ
    only in PYTHONHASHSEED: every listing, every shuffled pass and every sampled round must be identical."""
    spec, (h1, h2) = case['spec'], case['hashseeds']
    tags = ('xproc', f'slices={len(spec["slices"])}')
    try:
      mine = _fd_xproc.run_spec(spec, tmpdir=tempfile.mkdtemp(prefix='xm_', dir=self.tmp))
    except Exception as e:
      return Outcome(oracle_fail=f'building / reading the sliced dataset raised {type(e).__name__}: {e}',
                     key='C13/xproc/exception', tags=tags)
    try:
      kids = _fd_xproc.probe(spec, [h1, h2], os.path.join(core.VERIF, 'harness'), core.REPO, self.tmp)
    except RuntimeError as e:
      raise core.InfraError(str(e))
    ctx.count('cross_process_probes')
    problems, key = [], None
    for a, b, who in ((kids[h1], kids[h2], f'PYTHONHASHSEED={h1} vs PYTHONHASHSEED={h2}'),
                      (mine, kids[h1], f'this process vs a fresh interpreter (PYTHONHASHSEED={h1})')):
      for impl in sorted(a):
        if a[impl] != b.get(impl):
          key = key or 'C13/xproc/process-dependent'
          problems.append(f'{impl}: the same sliced dataset ({len(spec["table"])} clients, slices {spec["slices"]}, '
                          f'shuffled_clients({spec["buffer"]}, {spec["seed"]}), cohort {spec["cohort"]}) gives different '
                          f'results in two interpreter processes ({who}), first at '
                          f'{_fd_xproc.first_difference(a[impl], b.get(impl))} - iteration order / sampled rounds '
                          f'depend on the per-process salt of hash()')
          break
      if problems:
        break
    # what each single record must satisfy anyway (plain statement of the property on this process's record)
    want = sorted(c for c, _ in ((bytes.fromhex(h), r) for h, r in spec['table'])
                  if all((s is None or bytes.fromhex(s) <= c) and (e is None or c < bytes.fromhex(e))
                         for s, e in spec['slices']))
    for impl, rec in sorted(mine.items()):
      nm = (lambda c: 's:' + c.decode('latin-1')) if impl == 'memstr' else (lambda c: c.hex())
      ids = sorted(nm(c) for c in want)
      if sorted(rec['client_ids']) != ids or sorted(c for c, _ in rec['clients']) != ids:
        key = key or 'C13/xproc/ids'
        problems.append(f'{impl}: sliced view lists {rec["client_ids"]} / {[c for c, _ in rec["clients"]]}, expected {ids}')
      if ids:
        n = len(ids)
        for t in range(3):
          if sorted(rec.get('shuffled', [])[t * n:(t + 1) * n]) != ids:
            key = key or 'C13/xproc/shuffled'
            problems.append(f'{impl}: pass {t} of shuffled_clients is not every client once')
        if not (rec.get('shuffled_seed0') == rec.get('shuffled_seed0_again') == rec.get('shuffled_seed0_np')):
          key = key or 'C13/stream/seed-not-honoured'
          problems.append(f'{impl}: three streams shuffled_clients({spec["buffer"]}, seed) with seed 0, 0 and '
                          f'np.int64(0) differ: {rec.get("shuffled_seed0")} / {rec.get("shuffled_seed0_again")} / '
                          f'{rec.get("shuffled_seed0_np")}')
        if rec.get('stream_from_r0') != rec.get('stream_from0', [])[spec['r0']:]:
          key = key or 'C13/stream/restart'
          problems.append(f'{impl}: streaming sampler restarted at round {spec["r0"]} differs from the original run')
    return Outcome(oracle_fail='; '.join(problems[:3]) or None, key=key, nontrivial=True, tags=tags,
                   detail={'this_process': {k: {f: v[f] for f in ('client_ids', 'shuffled') if f in v}
                                            for k, v in mine.items()}})


PROPERTY = C13
