"""C05 — evaluation is invariant to batching and padding (metric monoid)."""
import itertools
import json
import random
from fractions import Fraction

import numpy as np

from vlib import core
from vlib import metricslib as ml
from vlib.core import Outcome, line

PDPP_KEY = 'C05/perdomain-perposition/zero-shape'
# one "world" = shapes shared by every case so that jit compilations are reused
WORLDS = {'quick': [dict(C=4, L=3, D=2, Dpp=3)], 'thorough': [dict(C=4, L=3, D=2, Dpp=3), dict(C=3, L=2, D=3, Dpp=2)]}


def exc_enum(e):
  n = type(e).__name__
  return n if n in ('ValueError', 'TypeError', 'KeyError', 'IndexError') else 'other:' + n


def end_to_end(spec):
  """Specs whose per-example reference (Model/Metrics.lean) can be composed with the C05 model without
  re-reporting the two C14 findings (negative k, OOV value sets of size != 1) under this property."""
  b = ml.base_of(spec)
  if b[0] in ('topk', 'sttopk') and b[1] < 0:
    return False
  if b[0] == 'oov' and len(b[1]) != 1:
    return False
  return True


def dyadic(rng, lo=-8, hi=8):
  return Fraction(rng.randint(lo * 4, hi * 4), 4)


def make_bundle(rng, w):
  """One spec per metric class (+ both per_position settings, + PerDomain over several bases)."""
  C, D, Dpp = w['C'], w['D'], w['Dpp']
  specs = [ml.gen_base_spec(rng, n, C) for n in ml.BASE_NAMES]
  for s in list(specs):
    if s[0] in ('stce', 'stacc', 'sttopk', 'oov'):
      specs.append(s[:-1] + [not s[-1]])              # the other per_position setting
  # k < 1 / k >= C / negative k and several OOV values at least once
  specs.append(['topk', rng.choice([0, -1, -2])])
  specs.append(['sttopk', rng.choice([C, C + 1]), ml.gen_values(rng, C), ml.gen_lmask(rng, C), True])
  specs.append(['oov', sorted(rng.sample(range(C), 2)), [0], rng.random() < 0.5])
  pd = []
  for s in specs:
    if ml.is_per_position(s):
      if ml.is_loss(s) or rng.random() < 0.6:
        pd.append(['pd', s, Dpp])                      # D == L: the only shape PerDomain handles (see PDPP_KEY)
    elif ml.is_loss(s) or rng.random() < 0.5 or s[0] in ('cm', 'acc'):
      pd.append(['pd', s, D])
  return specs + pd


def gen_example(rng, w):
  C, L = w['C'], w['L']
  big = rng.random() < 0.15
  lo, hi = (-12, 12) if big else (-2, 2)
  ys_mode = rng.randrange(4)
  ys = [0 if (ys_mode == 0 or (ys_mode == 1 and i >= 1)) else rng.randrange(C) for i in range(L)]
  return {'y': rng.randrange(C), 'ys': ys,
          'p': [rng.randint(lo, hi) for _ in range(C)],
          'ps': [[rng.randint(lo, hi) for _ in range(C)] for _ in range(L)],
          'd': rng.randrange(min(w['D'], w['Dpp']))}


def fval(v):
  """score token -> float: 'ninf' / 'pinf' are -inf / +inf logits"""
  return -np.inf if v == 'ninf' else np.inf if v == 'pinf' else v


def has_nonfinite(r):
  return any(isinstance(v, str) for v in r['p']) or any(isinstance(v, str) for row in r['ps'] for v in row)


def make_hard(rng, e):
  """A REAL example whose target class has a -inf logit (a class the model rules out; its cross-entropy is
  +inf as a single example) or, less often, a +inf logit (cross-entropy inf - inf = NaN)."""
  tok = 'ninf' if rng.random() < 0.8 else 'pinf'
  which = rng.randrange(3)
  if which in (0, 2):
    e['p'] = list(e['p'])
    e['p'][e['y']] = tok
  if which in (1, 2):
    i = rng.randrange(len(e['ys']))
    e['ps'] = [list(r) for r in e['ps']]
    e['ps'][i][e['ys'][i]] = tok
  return e


def same(v, ref, tol):
  """inf-aware equality: NaN only where the reference is NaN, +-inf exactly, finite within tol"""
  if np.isnan(ref):
    return bool(np.isnan(v))
  if np.isinf(ref):
    return bool(v == ref)
  return bool(np.isfinite(v) and abs(v - ref) <= tol)


def vsame(got, ref, tol):
  got, ref = np.asarray(got, dtype=np.float64), np.asarray(ref, dtype=np.float64)
  tol = np.broadcast_to(np.asarray(tol, dtype=np.float64), ref.shape)
  with np.errstate(invalid='ignore'):
    fin = np.isfinite(ref) & np.isfinite(got) & (np.abs(got - ref) <= np.where(np.isfinite(tol), tol, 0.0))
  return np.where(np.isnan(ref), np.isnan(got), np.where(np.isinf(ref), got == ref, fin))


BIG = [float(np.float32(3e38)), float(np.float32(1e38)), float(2.0 ** 127), float(np.float32(3.4e38)), float(2.0 ** 100)]
SENTINEL = Fraction(12345)      # stands for a non-finite statistic of a MASKED row in the protocol


def gen_junk(rng, w):
  """Content of a masked padding row: any value of the example/prediction types within the metric's
  input domain — half of the time with extreme finite float32 scores (magnitude up to ~3e38, mixed
  signs), whose per-example statistics (cross-entropy) overflow to +inf.  Targets / domain ids stay
  in range."""
  e = gen_example(rng, w)
  if rng.random() < 0.5:
    return e

  def extreme_row(n):
    mode = rng.randrange(3)
    row = []
    for _ in range(n):
      if mode == 0 or rng.random() < 0.7:
        row.append(rng.choice([-1.0, 1.0]) * rng.choice(BIG))
      else:
        row.append(float(rng.randint(-2, 2)))
    if all(v > 0 for v in row) or all(v < 0 for v in row):
      row[rng.randrange(n)] *= -1.0                      # mixed signs: log-softmax spans > 3e38
    return row

  C, L = w['C'], w['L']
  e['p'] = extreme_row(C)
  e['ps'] = [extreme_row(C) if rng.random() < 0.8 else e['ps'][i] for i in range(L)]
  if rng.random() < 0.7:
    # aim the targets at the most negative class so that the cross-entropy is +inf
    e['y'] = int(np.argmin(e['p']))
    e['ys'] = [int(np.argmin(r)) if rng.random() < 0.8 else t for r, t in zip(e['ps'], e['ys'])]
  return e


def _apply_for_eval(params, batch):
  """the "model": predictions are features of the batch (one function object shared by every Model)"""
  return {'p': batch['p'], 'ps': batch['ps']}


def _apply_with_params(params, batch):
  """a "model" with parameters: a per-class bias added to the scores"""
  return {'p': batch['p'] + params['w'], 'ps': batch['ps'] + params['w']}


def reconfigure(rng, spec, C):
  """Another configuration of the same metric class with the same statistic structure/shape."""
  n = spec[0]
  if n == 'pd':
    return ['pd', reconfigure(rng, spec[1], C), spec[2]]
  new = ml.gen_base_spec(rng, n, C)
  if n in ('stce', 'stacc', 'sttopk', 'oov'):
    new[-1] = spec[-1]                                   # per_position decides the shape
  return new


class C05(core.Property):
  ID = 'C05'
  RULE = ('eval cases = (metric bundle: every built-in metric class incl. per-position, PerDomain and '
          'ConfusionMatrix variants; 0..12 examples; a partition into batches by the real padded_batch or '
          'by hand with arbitrary mask positions, random batch order, padded rows overwritten with random '
          'in-domain content — half of it extreme finite float32 scores up to ~3e38 with mixed signs, whose '
          'per-example loss statistics are +inf —, batches without a mask feature, fully masked batches); stat cases = raw '
          'MeanStat/SumStat new/merge/reduce/result on dyadic values incl. values outside the domain; '
          'the batches are also passed as tuple / generator / iter / map / chain / PaddedBatchView; twin cases = two '
          'Models sharing functions and metric names but differently configured metrics; big cases = one batch of '
          '4097..9000 rows; monoid monitor = the real unreduced single-example statistics of the bundle merged directly (no-zero, '
          'right, tree folds, swapped/regrouped operands, zero on either side, reduce of the stack); '
          'non-trivial = at least one real example and (more than one batch or a masked row); distinct by digest')
  TRUSTED = ['per-example statistics are taken from the real evaluate_example (under vmap, spot-checked '
             'against eager calls); the reference merge is re-implemented in numpy float64',
             'float32 rounding of loss-valued sums is covered by the tolerance policy, not by the theorems']
  ASSUMPTIONS = ['padded rows hold arbitrary values of the example/prediction types (in-domain), '
                 'mask and rows have equal length']
  QUICK_BUDGET_S = 180
  THOROUGH_BUDGET_S = 560

  def setup(self, ctx):
    import jax
    import jax.numpy as jnp
    from fedjax.core import client_datasets as cds
    from fedjax.core import for_each_client as fec
    from fedjax.core import metrics as M
    from fedjax.core import models
    self.jax, self.jnp, self.M, self.models, self.cds, self.fec = jax, jnp, M, models, cds, fec
    fec.set_for_each_client_backend('jit')
    self._bundles = {}
    self.ctx = ctx

  # ------------------------------------------------------------------ real objects
  def _tkey(self, spec):
    return 'ys' if ml.is_seq(spec) else 'y'

  def _pkey(self, spec):
    return 'ps' if ml.is_seq(spec) else 'p'

  def _bundle(self, specs, base=None):
    """metrics, Model, jitted per-example statistics, ModelEvaluator for a list of specs.  All Models share
    the same function objects and the metric names '0', '1', …; with `base` (another spec list) the Model is
    `Model(base).replace(eval_metrics=…)`, as a user re-configuring the metrics of a model would build it."""
    key = json.dumps([specs, base])
    if key not in self._bundles:
      M, models, jax = self.M, self.models, self.jax
      metrics = {str(i): ml.build_metric(M, s, self._tkey(s), self._pkey(s), 'd') for i, s in enumerate(specs)}
      if base is None:
        model = models.Model(init=None, apply_for_train=None, apply_for_eval=_apply_for_eval,
                             train_loss=None, eval_metrics=metrics)
      else:
        model = self._bundle(base)[1].replace(eval_metrics=metrics)

      def per_example(batch):
        pred = {'p': batch['p'], 'ps': batch['ps']}
        return {k: jax.vmap(m.evaluate_example)(batch, pred) for k, m in metrics.items()}

      self._bundles[key] = (metrics, model, jax.jit(per_example), models.ModelEvaluator(model))
    return self._bundles[key]

  # ------------------------------------------------------------------ generation
  def gen_cases(self, rng, tier):
    worlds = WORLDS['thorough' if tier == 'thorough' else 'quick']
    n_eval = {'quick': 26, 'thorough': 110, 'search': 40}[tier]
    n_stat = {'quick': 150, 'thorough': 1200, 'search': 100}[tier]
    sizes_all = list(range(1, 9))
    for wi, w in enumerate(worlds):
      specs = make_bundle(rng, w)
      # few distinct batch sizes per run => few jit compilations
      sizes = sorted(rng.sample(sizes_all, 3)) if tier != 'thorough' else sizes_all
      yield {'kind': 'eval', 'w': w, 'specs': specs, 'examples': [], 'batches': []}          # no batches at all
      yield {'kind': 'pdpp', 'w': w, 'spec': ['pd', ['stacc', [0], None, True], w['L'] + 1],
             'examples': [gen_example(rng, w) for _ in range(2)], 'size': sizes[-1]}
      for i in range(n_eval // len(worlds)):
        yield self._eval_case(rng, w, specs, sizes)
        if i % 9 == 4:
          base = rng.choice([s for s in specs if ml.is_per_position(s)])
          yield {'kind': 'pdpp', 'w': w, 'spec': ['pd', base, rng.choice([d for d in (1, 2, 3, 4, 5) if d != w['L']])],
                 'examples': [gen_example(rng, w) for _ in range(rng.randrange(1, 4))], 'size': rng.choice(sizes)}
    # two differently configured Models sharing functions and metric names, both evaluation orders
    w = worlds[0]
    for order in (['A', 'B', 'A'], ['B', 'A', 'B']) if tier != 'thorough' else (['A', 'B', 'A'], ['B', 'A', 'B']) * 3:
      names = rng.sample(['stacc', 'sttopk', 'oov', 'count', 'len', 'trunc', 'sce', 'stce', 'topk', 'scount'], 5)
      specs_a = [ml.gen_base_spec(rng, nm, w['C']) for nm in names]
      specs_a.append(['pd', specs_a[0], w['Dpp'] if ml.is_per_position(specs_a[0]) else w['D']])
      for _ in range(20):
        specs_b = [reconfigure(rng, sp, w['C']) for sp in specs_a]
        if all(x != y for x, y in zip(specs_a[:3], specs_b[:3])):
          break
      exs = [gen_example(rng, w) for _ in range(rng.randrange(3, 9))]
      size = 4
      idx = list(range(len(exs)))
      batches = [{'rows': idx[i:i + size] + [None] * (size - len(idx[i:i + size])), 'mask': True}
                 for i in range(0, len(idx), size)]
      yield {'kind': 'twin', 'w': w, 'specsA': specs_a, 'specsB': specs_b, 'examples': exs, 'batches': batches,
             'junk_seed': rng.randrange(10 ** 6), 'order': order}
    # one ModelEvaluator on the pmap backend, reused while the params change
    pm_specs = [['acc'], ['ce'], ['cm', w['C']], ['stacc', [0], None, False]]
    for D in (1, 2):
      exs = [gen_example(rng, w) for _ in range(rng.randrange(4, 10))]
      idx = list(range(len(exs)))
      rng.shuffle(idx)
      ncl = rng.choice([2, 3])
      per = [idx[i::ncl] for i in range(ncl)]
      clients = [[{'rows': c[i:i + 4] + [None] * (4 - len(c[i:i + 4])), 'mask': True} for i in range(0, len(c), 4)]
                 for c in per]
      ws = []
      while len(ws) < 9:
        v = [rng.choice([-6, -3, 0, 3, 6]) for _ in range(w['C'])]
        if not ws or v != ws[-1]:
          ws.append(v)
      yield {'kind': 'pmap', 'w': w, 'devices': D, 'specs': pm_specs, 'examples': exs, 'clients': clients,
             'ws': ws, 'junk_seed': rng.randrange(10 ** 6)}
    # single batches of several thousand rows (evaluate_batch over more rows than any block size)
    big_specs = [['acc'], ['cm', w['C']], ['ce'], ['pd', ['acc'], w['D']], ['stacc', [0], None, True]]
    big_sizes = [4097, 4500, 9000]
    n_big = rng.choice(big_sizes)
    for n in ([n_big] if tier != 'thorough' else big_sizes):
      for mode in ('all', 'prefix', 'random', 'none'):
        n_real = rng.randrange(n - (n % 4096) + 1, n) if n % 4096 > 1 else n - 0
        yield {'kind': 'big', 'w': w, 'specs': big_specs, 'n': n, 'n_real': n_real, 'mask': mode,
               'seed': rng.randrange(10 ** 6)}
    # stat cases: the model is asked once for all of them (one driver process instead of one per case)
    stat_cases = [self._stat_case(rng) for _ in range(n_stat)]
    lines = [l for c in stat_cases for l in self._stat_lines(c)]
    ans = self.ctx.drv.ask(lines)
    self._stat_answers = {core.case_digest(c): ans[4 * i:4 * i + 4] for i, c in enumerate(stat_cases)}
    yield from stat_cases

  @staticmethod
  def _stat_lines(case):
    stats = [[Fraction(a), Fraction(wt)] for a, wt in case['stats']]
    return [line('c05.new', stats[0][0], stats[0][1]), line('c05.merge', stats[0], stats[1]),
            line('c05.merge', stats[1], stats[2]), line('c05.reduce', stats[:case['n_reduce']])]

  def _eval_case(self, rng, w, specs, sizes):
    n = rng.choice([0, 1, 2, 3, 5, 8, 12, rng.randrange(0, 13)])
    examples = [gen_example(rng, w) for _ in range(n)]
    if n and rng.random() < 0.3:
      # one (sometimes two) REAL rows whose target class has a -inf / +inf logit: the single-example loss is
      # +inf (NaN), and so must be the batched / merged statistic
      for i in rng.sample(range(n), min(n, rng.choice([1, 1, 1, 2]))):
        make_hard(rng, examples[i])
    mode = rng.randrange(3)
    if mode == 0 and n > 0:
      # the real ClientDataset.padded_batch does the partition; batch order is then permuted
      bs = rng.choice(sizes)
      nb = -(-n // bs)
      order = list(range(nb))
      rng.shuffle(order)
      return {'kind': 'eval', 'w': w, 'specs': specs, 'examples': examples,
              'padded_batch': {'bs': bs, 'B': rng.randrange(1, 4), 'order': order},
              'junk_seed': rng.randrange(10 ** 6), 'extra_masked': rng.choice([0, 0, 1]) * rng.choice(sizes)}
    # hand-made partition: random assignment of examples to batches, arbitrary mask positions
    idx = list(range(n))
    rng.shuffle(idx)
    batches = []
    while idx or not batches or rng.random() < 0.2:
      size = rng.choice(sizes)
      k = min(len(idx), rng.randrange(0, size + 1))
      nomask = False
      if len(idx) >= size and rng.random() < 0.3:
        k, nomask = size, True
      real, idx = idx[:k], idx[k:]
      if k == size and (nomask or rng.random() < 0.4):
        batches.append({'rows': real, 'mask': False})               # batch without a mask feature
      else:
        rows = real + [None] * (size - k)
        if mode == 1:
          rng.shuffle(rows)                                          # masked rows anywhere
        batches.append({'rows': rows, 'mask': True})
      if len(batches) > 12:
        break
    if idx:                                                          # leftovers: one more full pass
      for i in range(0, len(idx), sizes[-1]):
        chunk = idx[i:i + sizes[-1]]
        batches.append({'rows': chunk + [None] * (sizes[-1] - len(chunk)), 'mask': True})
    return {'kind': 'eval', 'w': w, 'specs': specs, 'examples': examples, 'batches': batches,
            'junk_seed': rng.randrange(10 ** 6)}

  def _stat_case(self, rng):
    def pair(valid):
      if valid:
        if rng.random() < 0.25:
          return [Fraction(0), Fraction(0)]
        return [dyadic(rng), Fraction(rng.randint(1, 32), 4)]
      return [dyadic(rng), rng.choice([Fraction(0), dyadic(rng, -4, 4), Fraction(-1)])]
    valid = rng.random() < 0.6
    n = rng.randrange(0, 6)
    return {'kind': 'stat', 'valid': valid,
            'stats': [[str(x) for x in pair(valid)] for _ in range(max(n, 3))], 'n_reduce': n}

  # ------------------------------------------------------------------ shrinking
  def shrink(self, case):
    if case['kind'] in ('stat', 'big'):
      return
    if case['kind'] == 'pmap':
      if len(case['clients']) > 1:
        yield {**case, 'clients': case['clients'][:1]}
      if len(case['specs']) > 1:
        for i in range(len(case['specs'])):
          yield {**case, 'specs': [case['specs'][i]]}
      return
    if case['kind'] == 'twin':
      for i in range(len(case['specsA'])):
        if len(case['specsA']) > 1:
          yield {**case, 'specsA': case['specsA'][:i] + case['specsA'][i + 1:],
                 'specsB': case['specsB'][:i] + case['specsB'][i + 1:]}
      if len(case['batches']) > 1:
        yield {**case, 'batches': case['batches'][:1]}
      return
    if case['kind'] == 'pdpp':
      if len(case['examples']) > 1:
        yield {**case, 'examples': case['examples'][:1]}
      return
    if len(case['specs']) > 1:
      h = len(case['specs']) // 2
      yield {**case, 'specs': case['specs'][:h]}
      yield {**case, 'specs': case['specs'][h:]}
      for i in range(len(case['specs'])):
        yield {**case, 'specs': [case['specs'][i]]}
    if 'padded_batch' in case:
      # make the partition explicit so that it can be reduced
      ex = case['examples']
      yield {k: v for k, v in {**case, 'batches': self._explicit(case)}.items() if k not in ('padded_batch', 'extra_masked')}
      return
    bs = case['batches']
    used = sorted(r for b in bs for r in b['rows'] if r is not None)
    if len(used) < len(case['examples']):
      ren = {old: new for new, old in enumerate(used)}                # drop unreferenced examples
      yield {**case, 'examples': [case['examples'][i] for i in used],
             'batches': [{**b, 'rows': [None if r is None else ren[r] for r in b['rows']]} for b in bs]}
    for i in range(len(bs)):
      yield {**case, 'batches': bs[:i] + bs[i + 1:]}
    for i, b in enumerate(bs):
      for j in range(len(b['rows'])):
        if len(b['rows']) > 1:
          nb = {**b, 'rows': b['rows'][:j] + b['rows'][j + 1:]}
          yield {**case, 'batches': bs[:i] + [nb] + bs[i + 1:]}

  def _explicit(self, case):
    pb, n = case['padded_batch'], len(case['examples'])
    out = []
    for j in pb['order']:
      rows = list(range(j * pb['bs'], min(n, (j + 1) * pb['bs'])))
      out.append({'rows': rows + [None], 'mask': True})
    return out

  # ------------------------------------------------------------------ building concrete batches
  def _arrays(self, rows, w):
    """rows: list of example dicts -> feature arrays"""
    C, L = w['C'], w['L']
    n = len(rows)
    return {'y': np.array([r['y'] for r in rows], dtype=np.int32).reshape(n),
            'ys': np.array([r['ys'] for r in rows], dtype=np.int32).reshape(n, L),
            'p': np.array([[fval(v) for v in r['p']] for r in rows], dtype=np.float32).reshape(n, C),
            'ps': np.array([[[fval(v) for v in row] for row in r['ps']] for r in rows],
                           dtype=np.float32).reshape(n, L, C),
            'd': np.array([r['d'] for r in rows], dtype=np.int32).reshape(n)}

  def _concrete(self, case):
    """Returns list of (rows: [example dict], mask: [bool] | None, batch dict of numpy arrays)."""
    cds, w = self.cds, case['w']
    jrng = random.Random(case.get('junk_seed', 0))
    out = []
    if 'padded_batch' in case:
      pb = case['padded_batch']
      ds = cds.ClientDataset(self._arrays(case['examples'], w))
      got = list(ds.padded_batch(batch_size=pb['bs'], num_batch_size_buckets=pb['B']))
      got = [got[j] for j in pb['order']]
      for b in got:
        mask = [bool(x) for x in b[cds.EXAMPLE_MASK_KEY]]
        b = {k: np.array(v) for k, v in b.items()}
        for i, m in enumerate(mask):
          if not m:                                   # overwrite the padding with in-domain junk
            junk = self._arrays([gen_junk(jrng, w)], w)
            for k in junk:
              b[k][i] = junk[k][0]
        num = lambda v: ('ninf' if v < 0 else 'pinf') if np.isinf(v) else int(v) if abs(float(v)) < 2 ** 24 else float(v)
        rows = [{'y': int(b['y'][i]), 'ys': b['ys'][i].tolist(), 'p': [num(v) for v in b['p'][i]],
                 'ps': [[num(v) for v in r] for r in b['ps'][i]], 'd': int(b['d'][i])} for i in range(len(mask))]
        out.append((rows, mask, b))
      if case.get('extra_masked'):
        rows = [gen_junk(jrng, w) for _ in range(case['extra_masked'])]
        b = self._arrays(rows, w)
        b[cds.EXAMPLE_MASK_KEY] = np.zeros(len(rows), dtype=bool)
        out.insert(jrng.randrange(len(out) + 1), (rows, [False] * len(rows), b))
      return out
    for bspec in case['batches']:
      rows, mask = [], []
      for r in bspec['rows']:
        if r is None:
          rows.append(gen_junk(jrng, w))
          mask.append(False)
        else:
          rows.append(case['examples'][r])
          mask.append(True)
      b = self._arrays(rows, w)
      if bspec['mask']:
        b[cds.EXAMPLE_MASK_KEY] = np.array(mask, dtype=bool)
        out.append((rows, mask, b))
      else:
        out.append((rows, None, b))
    return out

  def _model_rows(self, spec, rows, logp):
    """examples in the protocol form for one spec"""
    out = []
    for r, lp in zip(rows, logp):
      if ml.is_seq(spec):
        out.append([r['ys'], r['ps'], lp['ps'] if ml.is_loss(spec) else [], r['d']])
      else:
        out.append([[r['y']], [r['p']], [lp['p']] if ml.is_loss(spec) else [], r['d']])
    return out

  def _logp(self, arrays):
    jax = self.jax
    lp = np.asarray(jax.nn.log_softmax(arrays['p']), dtype=np.float64)
    lps = np.asarray(jax.nn.log_softmax(arrays['ps']), dtype=np.float64)
    fr = lambda v: Fraction(float(v)) if np.isfinite(v) else SENTINEL     # extreme (masked) rows only
    return [{'p': [fr(v) for v in lp[i]],
             'ps': [[fr(v) for v in row] for row in lps[i]]} for i in range(len(lp))]

  # ------------------------------------------------------------------ evaluation
  def evaluate(self, case, ctx):
    if case['kind'] == 'stat':
      return self._evaluate_stat(case, ctx)
    if case['kind'] == 'pdpp':
      return self._evaluate_pdpp(case, ctx)
    if case['kind'] == 'twin':
      return self._evaluate_twin(case, ctx)
    if case['kind'] == 'big':
      return self._evaluate_big(case, ctx)
    if case['kind'] == 'pmap':
      return self._evaluate_pmap(case, ctx)
    return self._evaluate_eval(case, ctx)

  def _evaluate_twin(self, case, ctx):
    """Two Models with the same functions and metric names but differently configured metrics
    (model.replace(eval_metrics=…)), evaluated one after the other on the same batches, each against the
    merge of its own single-example statistics."""
    variants = {'A': (case['specsA'], None), 'B': (case['specsB'], case['specsA'])}
    outs = []
    for which in case['order']:
      specs, base = variants[which]
      sub = {'kind': 'eval', 'w': case['w'], 'specs': specs, 'examples': case['examples'],
             'batches': case['batches'], 'junk_seed': case['junk_seed']}
      if base is not None:
        sub['twin_base'] = base
      o = self._evaluate_eval(sub, ctx)
      outs.append((which, o))
    problems = [f'model {which} (evaluated #{i + 1} of {"".join(case["order"])}): {o.oracle_fail}'
                for i, (which, o) in enumerate(outs) if o.oracle_fail]
    corr = [f'model {which}: {o.corr_fail}' for which, o in outs if o.corr_fail]
    ctx.count('twin_model_evaluations', len(outs))
    return Outcome(oracle_fail='; '.join(problems[:2]) or None, corr_fail='; '.join(corr[:2]) or None,
                   nontrivial=True, tags=('twin-models', 'order=' + ''.join(case['order'])), key='C05/twin-models',
                   detail={'specsA': case['specsA'], 'specsB': case['specsB']})

  def _evaluate_pmap(self, case, ctx):
    """ONE ModelEvaluator on the pmap backend, called repeatedly with params that change between the calls
    (the same dict mutated in place; fresh short-lived dicts in a loop): every result must be the merge of the
    single-example statistics under the CURRENT params."""
    jax, jnp, M, models, fec = self.jax, self.jnp, self.M, self.models, self.fec
    w, D, specs, ws = case['w'], case['devices'], case['specs'], case['ws']
    L = w['L']
    devices = jax.local_devices()[:D]
    if len(devices) < D:
      return Outcome(nontrivial=False, tags=('pmap-skipped',))
    key = 'pmap' + json.dumps(specs)
    if key not in self._bundles:
      metrics = {str(i): ml.build_metric(M, sp, self._tkey(sp), self._pkey(sp), 'd') for i, sp in enumerate(specs)}
      model = models.Model(init=None, apply_for_train=None, apply_for_eval=_apply_with_params, train_loss=None,
                           eval_metrics=metrics)

      def per_example(batch, wvec):
        pred = _apply_with_params({'w': wvec}, batch)
        return {k: jax.vmap(m.evaluate_example)(batch, pred) for k, m in metrics.items()}

      self._bundles[key] = (metrics, model, jax.jit(per_example))
    metrics, model, per_example = self._bundles[key]
    clients = []
    for ci, cl in enumerate(case['clients']):
      conc = self._concrete({'w': w, 'examples': case['examples'], 'batches': cl, 'junk_seed': case['junk_seed'] + ci})
      clients.append((b'c%d' % ci, conc))

    def expected(wvec):
      out = {}
      for cid, conc in clients:
        leaves = {k: [] for k in metrics}
        for rows, mask, b in conc:
          feats = {kk: jnp.asarray(v) for kk, v in b.items() if kk != self.cds.EXAMPLE_MASK_KEY}
          st = {k: ml.stat_arrays(v) for k, v in per_example(feats, jnp.asarray(wvec, dtype=jnp.float32)).items()}
          for i in range(len(rows)):
            if mask is None or mask[i]:
              for k, sp in enumerate(specs):
                shape = ml.stat_shape(sp, L)
                leaves[str(k)].append(tuple(ml.lead_broadcast(a[i], shape) for a in st[str(k)][1:]))
        out[cid] = {k: self._ref_merge('sum' if ml.is_sum(specs[int(k)]) else 'mean', leaves[k],
                                       ml.stat_shape(specs[int(k)], L)) for k in metrics}
      return out

    problems = []

    def check(how, wvec, res):
      exp = expected(wvec)
      for cid, conc in clients:
        for k, sp in enumerate(specs):
          k = str(k)
          ra, rw, rres, absum = exp[cid][k]
          shape = ml.stat_shape(sp, L)
          loss = ml.is_loss(sp)
          rscale = absum / np.where(rw != 0, rw, 1) if rw is not None else absum
          tol = (1e-5 * rscale + 1e-4 * np.abs(rres) + 1e-6) if loss else 1e-6 * np.maximum(1.0, np.abs(rres))
          try:
            got = ml.lead_broadcast(np.asarray(res[cid][k], dtype=np.float64), shape)
          except (KeyError, ValueError) as e:
            problems.append(f'{how}: client {cid!r} {ml.name_of(sp)}: {exc_enum(e)}')
            continue
          if not np.all(vsame(got, rres, tol)):
            problems.append(f'{how}, params w={list(wvec)}: client {cid.decode()} {ml.name_of(sp)} = '
                            f'{got.reshape(-1)[:4].tolist()}, merging its single-example statistics under the '
                            f'current params gives {rres.reshape(-1)[:4].tolist()}')

    batches_of = [(cid, [b for _, _, b in conc]) for cid, conc in clients]
    try:
      with fec.for_each_client_backend(fec.ForEachClientPmapBackend(devices)):
        evaluator = models.ModelEvaluator(model)
        # (a) the same params dict, updated in place between the calls
        params = {'w': jnp.asarray(ws[0], dtype=jnp.float32)}
        for r in range(3):
          params['w'] = jnp.asarray(ws[r], dtype=jnp.float32)
          check(f'pmap backend, {D} device(s), call #{r + 1} with the same params dict updated in place', ws[r],
                dict(evaluator.evaluate_global_params(params, batches_of)))
        del params
        # (b) a fresh, short-lived params dict per round (as a training loop produces them)
        for r in range(3, len(ws)):
          params = {'w': jnp.asarray(ws[r], dtype=jnp.float32)}
          check(f'pmap backend, {D} device(s), round {r - 2} of a loop with a fresh params dict per round', ws[r],
                dict(evaluator.evaluate_global_params(params, batches_of)))
          del params
    except Exception as e:   # pylint: disable=broad-except
      problems.append(f'ModelEvaluator on the pmap backend raised {exc_enum(e)}: {str(e)[:120]}')
    ctx.count('pmap_evaluator_calls', len(ws))
    return Outcome(oracle_fail='; '.join(problems[:3]) or None, nontrivial=True,
                   tags=('pmap-evaluator', f'devices={D}'), key='C05/pmap-evaluator',
                   detail={'calls': len(ws), 'clients': len(clients)})

  def _evaluate_big(self, case, ctx):
    """One batch of several thousand rows for a cheap metric set, against a vectorised numpy merge of the
    single-example statistics of its real rows."""
    jnp, M, models, cds, jax = self.jnp, self.M, self.models, self.cds, self.jax
    w, n = case['w'], case['n']
    C, L = w['C'], w['L']
    specs = case['specs']
    metrics, model, per_example, evaluator = self._bundle(specs)
    r = np.random.RandomState(case['seed'])
    b = {'y': r.randint(0, C, (n,)).astype(np.int32), 'ys': r.randint(0, C, (n, L)).astype(np.int32),
         'p': r.randint(-3, 4, (n, C)).astype(np.float32), 'ps': r.randint(-3, 4, (n, L, C)).astype(np.float32),
         'd': r.randint(0, min(w['D'], w['Dpp']), (n,)).astype(np.int32)}
    mode = case['mask']
    if mode == 'none':
      mask = None
    elif mode == 'all':
      mask = np.ones(n, dtype=bool)
    elif mode == 'prefix':
      mask = np.arange(n) < case['n_real']
    else:
      mask = r.rand(n) < 0.7
      mask[-1] = True
    real = np.ones(n, dtype=bool) if mask is None else mask
    stats = per_example({k: jnp.asarray(v) for k, v in b.items()})
    if mask is not None:
      b[cds.EXAMPLE_MASK_KEY] = mask
    problems = []
    impl = {}
    try:
      impl['evaluate_model'] = models.evaluate_model(model, None, [b])
      impl['ModelEvaluator'] = dict(evaluator.evaluate_global_params(None, [(b'c', [b])]))[b'c']
    except Exception as e:   # pylint: disable=broad-except
      problems.append(f'evaluate_model / ModelEvaluator raised {exc_enum(e)}: {str(e)[:100]}')
    pred = {'p': b['p'], 'ps': b['ps']}
    lines = []
    for k, spec in enumerate(specs):
      k = str(k)
      name = ml.name_of(spec)
      kind = 'sum' if ml.is_sum(spec) else 'mean'
      shape = ml.stat_shape(spec, L)
      loss = ml.is_loss(spec)
      sa = ml.stat_arrays(stats[k])
      acc = sa[1].reshape((n,) + tuple(shape))[real].sum(axis=0)
      absum = np.abs(sa[1].reshape((n,) + tuple(shape))[real]).sum(axis=0)
      if kind == 'mean':
        wt = np.broadcast_to(sa[2].reshape(sa[2].shape + (1,) * (len(shape) - (sa[2].ndim - 1))), (n,) + tuple(shape))
        wsum = wt[real].sum(axis=0)
        want = np.where(wsum != 0, acc / np.where(wsum != 0, wsum, 1), 0.0)
        scale = absum / np.where(wsum != 0, wsum, 1)
      else:
        want, scale = acc, absum
      tol = (1e-5 * scale + 1e-4 * np.abs(want) + 1e-6) if loss else 1e-6 * np.maximum(1.0, np.abs(want))
      try:
        st = M.evaluate_batch(metrics[k], b, pred, None if mask is None else mask)
        impl_k = {'evaluate_batch': np.asarray(st.result(), dtype=np.float64)}
        ga = ml.lead_broadcast(ml.stat_arrays(st)[1], shape)
        if np.any(np.abs(ga - acc) > ((1e-5 * absum + 1e-4 * np.abs(acc) + 1e-6) if loss else 0.0)):
          problems.append(f'{name}: evaluate_batch on {n} rows: accum {ga.reshape(-1)[:4].tolist()} but the '
                          f'{int(real.sum())} real rows sum to {acc.reshape(-1)[:4].tolist()}')
      except Exception as e:   # pylint: disable=broad-except
        problems.append(f'{name}: evaluate_batch on {n} rows raised {exc_enum(e)}: {str(e)[:100]}')
        impl_k = {}
      for how, res in impl.items():
        impl_k[how] = np.asarray(res[k], dtype=np.float64)
      for how, got in impl_k.items():
        got = ml.lead_broadcast(got, shape)
        if not np.all(np.isfinite(got)) or np.any(np.abs(got - want) > tol):
          problems.append(f'{name}: {how} on one batch of {n} rows ({int(real.sum())} real) gives '
                          f'{got.reshape(-1)[:4].tolist()}, merging the single-example statistics gives '
                          f'{want.reshape(-1)[:4].tolist()}')
      if shape == () and kind == 'mean' and not loss:
        # model: per-row statistics as data (scalar count-valued metrics only, to keep the line small)
        rows = [[[Fraction(float(a)), Fraction(float(x))]] for a, x in zip(sa[1].reshape(-1), wt.reshape(-1))]
        lines.append((k, name, want, line('c05.evalbatch_s', 'mean', 1, rows, None if mask is None else mask.tolist())))
    corr = []
    if lines:
      for (k, name, want, _), ans in zip(lines, ctx.drv.ask([l for *_, l in lines])):
        if abs(float(ans[2][0]) - float(want)) > 1e-6:
          corr.append(f'{name}: model {ans[2][0]} vs reference {want}')
        elif 'evaluate_model' in impl and abs(float(impl['evaluate_model'][k]) - float(ans[2][0])) > 1e-6:
          corr.append(f'{name}: evaluate_model {impl["evaluate_model"][k]} vs model {ans[2][0]}')
    ctx.count('big_batches')
    return Outcome(oracle_fail='; '.join(problems[:3]) or None, corr_fail='; '.join(corr[:2]) or None,
                   nontrivial=True, tags=('big-batch', f'rows={n}', 'mask=' + mode), key='C05/big-batch',
                   detail={'rows': n, 'real': int(real.sum())})

  # ---- reference merge (numpy float64), independent of fedjax's merge/reduce
  @staticmethod
  def _ref_merge(kind, leaves_list, shape):
    if kind == 'mean':
      a = np.zeros(shape)
      wt = np.zeros(shape)
      absum = np.zeros(shape)
      for acc, wgt in leaves_list:
        a = a + acc
        wt = wt + wgt
        absum = absum + np.abs(acc)
      res = np.where(wt != 0, a / np.where(wt != 0, wt, 1), 0.0)
      return a, wt, res, absum
    a = np.zeros(shape)
    absum = np.zeros(shape)
    for (acc,) in leaves_list:
      a = a + acc
      absum = absum + np.abs(acc)
    return a, None, a, absum

  def _evaluate_eval(self, case, ctx):
    jnp, M, models, cds = self.jnp, self.M, self.models, self.cds
    w, specs = case['w'], case['specs']
    L = w['L']
    metrics, model, per_example, evaluator = self._bundle(specs, case.get('twin_base'))
    problems, corr = [], []
    detail = {}
    conc = self._concrete(case)
    real_rows = [r for rows, mask, _ in conc for r, m in zip(rows, mask or [True] * len(rows)) if m]
    n_real = len(real_rows)
    # generator sanity (not a finding about fedjax): no example is used twice; with padded_batch all are used
    if 'padded_batch' in case:
      canon = lambda r: json.dumps(r, sort_keys=True)
      if sorted(map(canon, real_rows)) != sorted(map(canon, case['examples'])):
        raise core.InfraError('generator bug: padded_batch does not partition the examples')
    else:
      used = [r for b in case['batches'] for r in b['rows'] if r is not None]
      if len(used) != len(set(used)) or any(b['mask'] is False and None in b['rows'] for b in case['batches']):
        raise ValueError('malformed case: an example is used twice / padding without a mask')

    # ---- per-row statistics from the real evaluate_example (vmapped over the rows of each batch;
    #      also for the padded rows, whose statistics every evaluation must ignore)
    row_stats, raw_stats = [], []
    for rows, mask, b in conc:
      feats = {k: jnp.asarray(v) for k, v in b.items() if k != cds.EXAMPLE_MASK_KEY}
      raw = per_example(feats)
      raw_stats.append(raw)                      # the Stat objects themselves (dtypes as fedjax produced them)
      row_stats.append({k: ml.stat_arrays(v) for k, v in raw.items()})
    srng = random.Random(case.get('junk_seed', 0) + 1)
    real_pos = [(bi, i) for bi, (rows, mask, _) in enumerate(conc) for i in range(len(rows))
                if mask is None or mask[i]]
    # spot-check the vmapped statistics against eager single-example calls
    for _ in range(2 if real_pos else 0):
      k = srng.choice(list(metrics))
      bi, i = srng.choice(real_pos)
      one = {kk: jnp.asarray(v[i]) for kk, v in conc[bi][2].items() if kk != cds.EXAMPLE_MASK_KEY}
      eager = ml.stat_arrays(metrics[k].evaluate_example(one, {'p': one['p'], 'ps': one['ps']}))
      for a, b in zip(eager[1:], row_stats[bi][k][1:]):
        if not np.allclose(a, b[i], rtol=1e-6, atol=1e-6, equal_nan=True):
          problems.append(f'{ml.name_of(specs[int(k)])}: vmapped evaluate_example differs from the eager call')
      ctx.count('eager_spot_checks')

    # ---- the implementation: evaluate_model, ModelEvaluator (jit backend), evaluate_batch + merge
    batches = [b for _, _, b in conc]
    impl = {}
    try:
      impl['evaluate_model'] = {k: np.asarray(v, dtype=np.float64)
                                for k, v in models.evaluate_model(model, None, batches).items()}
    except Exception as e:   # pylint: disable=broad-except
      problems.append(f'evaluate_model raised {exc_enum(e)}: {str(e)[:100]}')
    # the same batches handed over as other kinds of iterables (re-iterable and one-shot) must give the same
    forms = {'tuple': lambda: tuple(batches), 'generator': lambda: (b for b in batches),
             'iter(list)': lambda: iter(batches), 'map': lambda: map(lambda b: b, batches),
             'itertools.chain': lambda: itertools.chain(batches[:1], batches[1:])}
    form_rng = random.Random(case.get('junk_seed', 0) + 2)
    picked = form_rng.sample(sorted(forms), 2) if ctx.tier == 'quick' else sorted(forms)
    for how in picked:
      try:
        impl[f'evaluate_model({how})'] = {k: np.asarray(v, dtype=np.float64)
                                          for k, v in models.evaluate_model(model, None, forms[how]()).items()}
      except Exception as e:   # pylint: disable=broad-except
        problems.append(f'evaluate_model({how}) raised {exc_enum(e)}: {str(e)[:100]}')
    ctx.count('iterable_forms', len(picked))
    if 'padded_batch' in case and form_rng.random() < 0.5:
      # the PaddedBatchView itself (zero padding, original order): same examples, hence the same result
      pb = case['padded_batch']
      view = cds.ClientDataset(self._arrays(case['examples'], w)).padded_batch(
          batch_size=pb['bs'], num_batch_size_buckets=pb['B'])
      try:
        impl['evaluate_model(PaddedBatchView)'] = {k: np.asarray(v, dtype=np.float64)
                                                   for k, v in models.evaluate_model(model, None, view).items()}
        ctx.count('padded_batch_view_forms')
      except Exception as e:   # pylint: disable=broad-except
        problems.append(f'evaluate_model(PaddedBatchView) raised {exc_enum(e)}: {str(e)[:100]}')
    try:
      rev = list(reversed(batches))
      res = dict(evaluator.evaluate_global_params(
          None, [(b'fwd', batches), (b'rev', rev), (b'gen', (b for b in batches))]))
      impl['ModelEvaluator'] = {k: np.asarray(v, dtype=np.float64) for k, v in res[b'fwd'].items()}
      impl['ModelEvaluator/reversed'] = {k: np.asarray(v, dtype=np.float64) for k, v in res[b'rev'].items()}
      impl['ModelEvaluator(generator)'] = {k: np.asarray(v, dtype=np.float64) for k, v in res[b'gen'].items()}
    except Exception as e:   # pylint: disable=broad-except
      problems.append(f'ModelEvaluator raised {exc_enum(e)}: {str(e)[:100]}')
    # evaluate_batch called directly on a few metrics, statistics merged by the real merge from zero()
    direct = {}
    if ctx.tier == 'quick' and len(metrics) > 6:
      # a per-run fixed subset (jit compilations of evaluate_batch are per metric and batch size; every metric
      # also goes through evaluate_batch inside evaluate_model / ModelEvaluator above)
      chosen = random.Random(f'{ctx.seed}/{len(metrics)}').sample(list(metrics), 6)
    else:
      chosen = srng.sample(list(metrics), min(len(metrics), 8))
    for k in chosen:
      try:
        st = metrics[k].zero()
        bstats = []
        for rows, mask, b in conc:
          pred = {'p': b['p'], 'ps': b['ps']}
          bs = M.evaluate_batch(metrics[k], b, pred, None if mask is None else b[cds.EXAMPLE_MASK_KEY])
          bstats.append(ml.stat_arrays(bs))
          st = st.merge(bs)
        direct[k] = (ml.stat_arrays(st), np.asarray(st.result(), dtype=np.float64), bstats)
      except Exception as e:   # pylint: disable=broad-except
        problems.append(f'{ml.name_of(specs[int(k)])}: evaluate_batch/merge raised {exc_enum(e)}: {str(e)[:100]}')
    ctx.count('evaluate_batch_direct', len(chosen))

    # ---- model answers.  (a) C05 proper: per-row statistics are data, the model masks/reduces/merges;
    #      (b) end-to-end with the metric reference of C14 for specs not touched by the C14 findings
    def row_data(k, kind, shape):
      out = []
      for (rows, mask, _), rs in zip(conc, row_stats):
        st = rs[k]
        data = []
        for i in range(len(rows)):
          masked = mask is not None and not mask[i]
          # the model is over rationals: a non-finite statistic is sent as SENTINEL.  For a masked row the model,
          # like the property, must ignore it whatever it holds (theorem C05_mask); for a real row the entries it
          # makes non-finite are compared by the oracle only (inf-aware equality with the single-example merge)
          frac = lambda x: self._frac(x, masked, ml.name_of(specs[int(k)]), problems)
          a = ml.lead_broadcast(st[1][i], shape).reshape(-1)
          if kind == 'mean':
            wt = ml.lead_broadcast(st[2][i], shape).reshape(-1)
            data.append([[frac(x), frac(y)] for x, y in zip(a, wt)])
          else:
            data.append([frac(x) for x in a])
        out.append([data, mask])
      return out

    lines, index = [], []
    logps = None
    hard = any(has_nonfinite(rows[i]) for bi, (rows, mask, _) in enumerate(conc) for i in range(len(rows))
               if mask is None or mask[i])
    for k, spec in enumerate(specs):
      kind = 'sum' if ml.is_sum(spec) else 'mean'
      shape = ml.stat_shape(spec, L)
      size = int(np.prod(shape)) if shape else 1
      rd = row_data(str(k), kind, shape)
      lines.append(line('c05.evalmodel_s', kind, size, rd))
      index.append(('model', str(k), None))
      if str(k) in direct:
        for j, (data, mask) in enumerate(rd):
          lines.append(line('c05.evalbatch_s', kind, size, data, mask))
          index.append(('batch', str(k), j))
      if end_to_end(spec) and not hard:
        if logps is None:
          logps = [self._logp(b) for _, _, b in conc]
        mb = [[self._model_rows(spec, rows, lp), mask] for (rows, mask, _), lp in zip(conc, logps)]
        lines.append(line('c05.evalmodel', spec, L, mb))
        index.append(('e2e', str(k), None))
    answers = ctx.drv.ask(lines)
    model_eval = {k: a for (what, k, _), a in zip(index, answers) if what == 'model'}
    model_e2e = {k: a for (what, k, _), a in zip(index, answers) if what == 'e2e'}
    model_batch = {(k, j): a for (what, k, j), a in zip(index, answers) if what == 'batch'}
    ctx.count('end_to_end_specs', len(model_e2e))

    # the monoid monitor runs for every metric of the bundle on up to 4 of the real rows (~10 ms per metric)
    mon_pos = srng.sample(real_pos, min(len(real_pos), 4))
    monitored = set(metrics)

    # ---- compare
    for k, spec in enumerate(specs):
      k = str(k)
      name = ml.name_of(spec)
      kind = 'sum' if ml.is_sum(spec) else 'mean'
      shape = ml.stat_shape(spec, L)
      loss = ml.is_loss(spec)
      if row_stats and row_stats[0][k][0] != kind:
        problems.append(f'{name}: statistic type {row_stats[0][k][0]}')
        continue
      leaves = [tuple(ml.lead_broadcast(a[i], shape) for a in row_stats[bi][k][1:]) for bi, i in real_pos]
      ra, rw, rres, absum = self._ref_merge(kind, leaves, shape)
      # monoid monitor on the REAL unreduced single-example statistics (merged with each other directly)
      if k in monitored and len(real_pos) >= 1:
        pos = mon_pos
        singles = [self.jax.tree_util.tree_map(lambda x, i=i: x[i], raw_stats[bi][k]) for bi, i in pos]
        sl = [tuple(ml.lead_broadcast(a[i], shape) for a in row_stats[bi][k][1:]) for bi, i in pos]
        problems.extend(self._monoid_monitor(metrics[k], name, kind, shape, loss, singles, sl))
        ctx.count('monoid_monitor_metrics')

      def ok(v, ref, scale):
        if not np.isfinite(ref):
          return same(v, ref, 0.0)                  # +-inf exactly; NaN only where the reference is NaN
        if loss:
          return same(v, ref, 1e-5 * scale + 1e-4 * abs(ref) + 1e-6)
        return same(v, ref, 1e-6 * max(1.0, abs(ref)))         # counts are exact; results are one f32 division

      rscale = absum / np.where(rw != 0, rw, 1) if kind == 'mean' else absum
      # oracle: every way of evaluating gives the merge of the single-example statistics
      for how, res in impl.items():
        got = res[k]
        try:
          got_b = ml.lead_broadcast(got, shape)
        except ValueError:
          problems.append(f'{name}: {how} result has shape {got.shape}, statistic shape {shape}')
          continue
        bad = [(idx, got_b[idx], rres[idx]) for idx in np.ndindex(*shape) if not ok(got_b[idx], rres[idx], rscale[idx])]
        if bad:
          idx, g, r = bad[0]
          problems.append(f'{name}: {how} gives {g} at {list(idx)}, merging the {n_real} single-example '
                          f'statistics gives {r}')
      if k in direct:
        (dstat, dres, bstats) = direct[k]
        da = ml.lead_broadcast(dstat[1], shape)
        bad = [idx for idx in np.ndindex(*shape) if not ok(da[idx], ra[idx], absum[idx])]
        if kind == 'mean':
          dw = ml.lead_broadcast(dstat[2], shape)
          bad += [idx for idx in np.ndindex(*shape) if dw[idx] != rw[idx]]
        if bad:
          problems.append(f'{name}: zero().merge(evaluate_batch(...))… differs from the merge of single-example '
                          f'statistics at {list(bad[0])}')
        # correspondence: per-batch statistics vs model
        for j, bst in enumerate(bstats):
          msg = self._cmp_stat(model_batch[(k, j)], bst, shape, loss, absum)
          if msg:
            corr.append(f'{name}: evaluate_batch #{j}: {msg}')
      # correspondence: evaluate_model result vs model
      for what, ans in (('model', model_eval[k]), ('end-to-end model', model_e2e.get(k))):
        if ans is None or 'evaluate_model' not in impl:
          continue
        if ans == 'err':
          corr.append(f'{name}: {what} rejects')
          continue
        mres = ans[2] if ans[0] == 'mean' else ans[1]
        got_b = ml.lead_broadcast(impl['evaluate_model'][k], shape).reshape(-1)
        scale = rscale.reshape(-1)
        if len(mres) != len(got_b):
          corr.append(f'{name}: {what} size {len(mres)} vs {len(got_b)}')
        else:
          rflat = rres.reshape(-1)
          for i, (mv, g) in enumerate(zip(mres, got_b)):
            if not np.isfinite(rflat[i]):
              continue                                # non-finite entry: oracle only (see row_data)
            if not ok(g, float(mv), scale[i]):
              corr.append(f'{name}: evaluate_model result[{i}] {g} vs {what} {mv}')
              break
    detail['n_real'] = n_real
    detail['batches'] = [[len(rows), None if mask is None else [int(m) for m in mask]] for rows, mask, _ in conc]
    masked_rows = sum(1 for _, mask, _ in conc for m in (mask or []) if not m)
    detail['masked_row_content'] = [r for rows, mask, _ in conc for r, m in zip(rows, mask or []) if not m][:6]
    tags = [f'n={min(n_real, 9)}{"+" if n_real > 9 else ""}', f'batches={min(len(conc), 6)}',
            'partition=' + ('padded_batch' if 'padded_batch' in case else 'manual'),
            'masked-rows' if masked_rows else 'no-masked-rows']
    if any(mask is None for _, mask, _ in conc):
      tags.append('no-mask-feature')
    if any(mask is not None and not any(mask) for _, mask, _ in conc):
      tags.append('fully-masked-batch')
    if n_real == 0:
      tags.append('empty')
    extreme = sum(1 for rows, mask, _ in conc for r, m in zip(rows, mask or []) if not m and
                  any(abs(v) > 1e30 for v in r['p'] + [x for row in r['ps'] for x in row]))
    nonfinite = sum(1 for (rows, mask, _), rs in zip(conc, row_stats) for i in range(len(rows))
                    if mask is not None and not mask[i] and
                    any(not np.all(np.isfinite(a[i])) for st in rs.values() for a in st[1:]))
    if extreme:
      tags.append('extreme-padding')
      ctx.count('masked_rows_with_extreme_scores', extreme)
    if nonfinite:
      tags.append('padding-with-nonfinite-statistic')
      ctx.count('masked_rows_with_nonfinite_statistic', nonfinite)
    key = 'C05/eval'
    if problems:
      key = 'C05/eval/' + problems[0].split(':')[0]
    return Outcome(oracle_fail='; '.join(problems[:3]) or None, corr_fail='; '.join(corr[:3]) or None,
                   nontrivial=n_real > 0 and (len(conc) > 1 or masked_rows > 0), tags=tuple(tags), key=key,
                   detail=detail)

  def _monoid_monitor(self, metric, name, kind, shape, loss, singles, leaves):
    """Every way of merging the real single-example statistics `singles` (fedjax Stat objects exactly as
    evaluate_example produced them) must equal the one-by-one merge, recomputed here in numpy from their
    values: folds with and without zero(), right folds, balanced trees, swapped operands, regrouping,
    zero on either side, and reduce() of the stacked statistics."""
    jnp, jax = self.jnp, self.jax
    n = len(singles)
    out = []

    def expect(idx):
      return self._ref_merge(kind, [leaves[i] for i in idx], shape)

    def check(how, st, idx):
      ra, rw, rres, absum = expect(idx)
      try:
        sa = ml.stat_arrays(st)
        acc = ml.lead_broadcast(sa[1], shape)
        res = ml.lead_broadcast(np.asarray(st.result(), dtype=np.float64), shape)
        wt = ml.lead_broadcast(sa[2], shape) if kind == 'mean' else None
      except (ValueError, TypeError) as e:
        out.append(f'{name}: {how}: {exc_enum(e)} {str(e)[:80]}')
        return
      tol_a = 1e-5 * absum + 1e-4 * np.abs(ra) + 1e-6 if loss else 0.0
      rscale = absum / np.where(rw != 0, rw, 1) if kind == 'mean' else absum
      tol_r = (1e-5 * rscale + 1e-4 * np.abs(rres) + 1e-6) if loss else 1e-6 * np.maximum(1.0, np.abs(rres))
      bad = (not np.all(vsame(acc, ra, tol_a))) or (not np.all(vsame(res, rres, tol_r))) \
          or (kind == 'mean' and not np.array_equal(wt, rw))
      if bad:
        got = f'accum {acc.reshape(-1).tolist()[:4]}' + (f' weight {wt.reshape(-1).tolist()[:4]}' if kind == 'mean' else '') + \
            f' result {res.reshape(-1).tolist()[:4]}'
        want = f'accum {ra.reshape(-1).tolist()[:4]}' + (f' weight {rw.reshape(-1).tolist()[:4]}' if kind == 'mean' else '') + \
            f' result {rres.reshape(-1).tolist()[:4]}'
        out.append(f'{name}: {how} of {len(idx)} single-example statistics = {got}; merging them one by one '
                   f'gives {want}')

    def fold_left(sts, init=None):
      acc = init
      for st in sts:
        acc = st if acc is None else acc.merge(st)
      return acc

    def fold_right(sts):
      acc = sts[-1]
      for st in reversed(sts[:-1]):
        acc = st.merge(acc)
      return acc

    def tree(sts):
      if len(sts) == 1:
        return sts[0]
      h = len(sts) // 2
      return tree(sts[:h]).merge(tree(sts[h:]))

    try:
      zero = metric.zero()
      allidx = list(range(n))
      check('zero + s0 + s1 + …', fold_left(singles, zero), allidx)
      check('zero + x', zero.merge(singles[0]), [0])
      check('x + zero', singles[0].merge(zero), [0])
      stacked = jax.tree_util.tree_map(lambda *xs: jnp.stack(xs), *singles)
      check('reduce() of the stacked', stacked.reduce(), allidx)
      if n >= 2:
        check('s0 + s1 + … (no zero)', fold_left(singles), allidx)
        check('s0 + (s1 + (…)) right fold', fold_right(singles), allidx)
        check('balanced-tree merge', tree(singles), allidx)
        check('(s0 + s1 + …) + zero', fold_left(singles).merge(zero), allidx)
        check('zero + (right fold)', zero.merge(fold_right(singles)), allidx)
        check('a + b', singles[0].merge(singles[1]), [0, 1])
        check('b + a', singles[1].merge(singles[0]), [0, 1])
      if n >= 3:
        check('(a + b) + c', singles[0].merge(singles[1]).merge(singles[2]), [0, 1, 2])
        check('a + (b + c)', singles[0].merge(singles[1].merge(singles[2])), [0, 1, 2])
        check('(zero + a) + (b + c)', zero.merge(singles[0]).merge(singles[1].merge(singles[2])), [0, 1, 2])
    except Exception as e:   # pylint: disable=broad-except
      out.append(f'{name}: merging single-example statistics raised {exc_enum(e)}: {str(e)[:90]}')
    return out[:2]

  @staticmethod
  def _frac(x, masked, name, problems):
    x = float(x)
    if np.isfinite(x):
      return Fraction(x)
    return SENTINEL

  @staticmethod
  def _cmp_stat(ans, bst, shape, loss, absum):
    if ans == 'err':
      return 'model rejects'
    if ans[0] != bst[0]:
      return f'kind {ans[0]} vs {bst[0]}'
    flat_scale = absum.reshape(-1)
    if ans[0] == 'mean':
      ia = ml.lead_broadcast(bst[1], shape).reshape(-1)
      iw = ml.lead_broadcast(bst[2], shape).reshape(-1)
      if len(ans[1]) != len(ia):
        return f'size {len(ans[1])} vs {len(ia)}'
      for i, ((ma, mw), a, wgt) in enumerate(zip(ans[1], ia, iw)):
        if not np.isfinite(a):
          continue                                    # non-finite entry: judged by the oracle on the merged statistic
        fs = flat_scale[i] if np.isfinite(flat_scale[i]) else 8.0 * (abs(float(ma)) + 1.0)   # another row is non-finite
        tol = (1e-5 * fs + 1e-4 * abs(float(ma)) + 1e-6) if loss else 0.0
        if wgt != mw or abs(a - float(ma)) > tol:
          return f'entry {i}: model ({ma},{mw}) vs impl ({a},{wgt})'
      return None
    ia = ml.lead_broadcast(bst[1], shape).reshape(-1)
    if [float(x) for x in ans[1]] != ia.tolist():
      return f'model {ans[1]} vs impl {ia.tolist()}'
    return None

  def _evaluate_pdpp(self, case, ctx):
    """PerDomainMetric over a per_position metric with num_domains != sequence length."""
    M, models, cds = self.M, self.models, self.cds
    w, spec = case['w'], case['spec']
    L = w['L']
    metric = ml.build_metric(M, spec, self._tkey(spec), self._pkey(spec), 'd')
    size = case['size']
    rows = list(case['examples'])[:size]
    n_real = len(rows)
    jrng = random.Random(7)
    rows = rows + [gen_junk(jrng, w) for _ in range(size - n_real)]
    mask = [True] * n_real + [False] * (size - n_real)
    b = self._arrays(rows, w)
    pred = {'p': b['p'], 'ps': b['ps']}
    shape = ml.stat_shape(spec, L)
    problems, corr = [], []
    stats = [ml.stat_arrays(metric.evaluate_example({k: v[i] for k, v in b.items()}, {k: v[i] for k, v in pred.items()}))
             for i in range(size)]
    leaves = [tuple(ml.lead_broadcast(a, shape) for a in s[1:]) for s in stats[:n_real]]
    ra, rw, rres, absum = self._ref_merge('mean', leaves, shape)
    shape_failure = False
    try:
      st = M.evaluate_batch(metric, b, pred, np.array(mask))
      got = ml.stat_arrays(st)
      if got[1].shape != shape:
        problems.append(f'{ml.name_of(spec)}: evaluate_batch statistic has shape {got[1].shape}, documented {shape}')
        shape_failure = True
      elif not (np.array_equal(got[2], rw) and
                (np.all(np.abs(got[1] - ra) <= 1e-5 * absum + 1e-4 * np.abs(ra) + 1e-6) if ml.is_loss(spec)
                 else np.array_equal(got[1], ra))):
        problems.append(f'{ml.name_of(spec)}: evaluate_batch differs from the merge of single-example statistics')
    except Exception as e:   # pylint: disable=broad-except
      problems.append(f'{ml.name_of(spec)} (num_domains={spec[2]}, sequence length {L}): evaluate_batch with a mask '
                      f'raised {exc_enum(e)}: {str(e)[:90]}')
      shape_failure = True        # whatever is raised
    try:
      z = metric.zero()
      if n_real:
        first = metric.evaluate_example({k: v[0] for k, v in b.items()}, {k: v[0] for k, v in pred.items()})
        merged = ml.stat_arrays(z.merge(first))
        if merged[1].shape != shape or not np.array_equal(merged[1], ml.stat_arrays(first)[1]):
          problems.append(f'{ml.name_of(spec)}: zero().merge(stat) is not stat')
          shape_failure = shape_failure or merged[1].shape != shape
    except Exception as e:   # pylint: disable=broad-except
      problems.append(f'{ml.name_of(spec)}: zero().merge(stat) raised {exc_enum(e)}')
      shape_failure = True
    # the model has no such restriction (flattened statistics)
    data = [[[self._frac(x, not m, ml.name_of(spec), problems), self._frac(y, not m, ml.name_of(spec), problems)]
             for x, y in zip(ml.lead_broadcast(st[1], shape).reshape(-1), ml.lead_broadcast(st[2], shape).reshape(-1))]
            for st, m in zip(stats, mask)]
    lines = [line('c05.evalbatch_s', 'mean', int(np.prod(shape)), data, mask)]
    if end_to_end(spec):
      lines.append(line('c05.evalbatch', spec, L, self._model_rows(spec, rows, self._logp(b)), mask))
    answers = ctx.drv.ask(lines)
    ans = answers[0]
    if not problems:
      for a in answers:
        msg = self._cmp_stat(a, got, shape, ml.is_loss(spec), absum)
        if msg:
          corr.append(msg)
    key = PDPP_KEY if (shape_failure and spec[2] != L) else 'C05/pdpp/' + ml.name_of(spec)
    return Outcome(oracle_fail='; '.join(problems[:2]) or None, corr_fail='; '.join(corr) or None,
                   nontrivial=n_real > 0, tags=('pd-over-per-position', f'D={spec[2]},L={L}'), key=key,
                   detail={'model': ans})

  def _evaluate_stat(self, case, ctx):
    """Raw MeanStat / SumStat algebra on the real classes vs the model + the monoid laws on valid values."""
    M, jnp = self.M, self.jnp
    stats = [[Fraction(a), Fraction(wt)] for a, wt in case['stats']]
    valid = case['valid']
    problems, corr = [], []

    def mk(a, wt):
      return M.MeanStat(jnp.array(float(a), dtype=jnp.float32), jnp.array(float(wt), dtype=jnp.float32))

    def tup(s):
      return (float(s.accum), float(s.weight))

    raw = [mk(a, wt) for a, wt in stats]
    s0, s1, s2 = raw[:3]
    n = case['n_reduce']
    ans = getattr(self, '_stat_answers', {}).get(core.case_digest(case)) or ctx.drv.ask(self._stat_lines(case))
    new0 = M.MeanStat.new(float(stats[0][0]), float(stats[0][1]))
    m01 = s0.merge(s1)
    m12 = s1.merge(s2)
    red = M.MeanStat.new(jnp.array([float(a) for a, _ in stats[:n]], dtype=jnp.float32),
                         jnp.array([float(wt) for _, wt in stats[:n]], dtype=jnp.float32)) if valid else \
        M.MeanStat(jnp.array([float(a) for a, _ in stats[:n]], dtype=jnp.float32),
                   jnp.array([float(wt) for _, wt in stats[:n]], dtype=jnp.float32))
    red = red.reduce()
    # outside the documented domain only new() has documented behaviour ("sanitizes values outside the domain into
    # the identity"); merge / reduce of raw out-of-domain statistics are not covered by the property
    compared = (('new', new0, ans[0]), ('merge', m01, ans[1]), ('merge', m12, ans[2]), ('reduce', red, ans[3]))
    for what, got, a in (compared if valid else compared[:1]):
      g = tup(got) + (float(got.result()),)
      want = tuple(float(x) for x in a)
      if g[:2] != want[:2] or not (np.isfinite(g[2]) and abs(g[2] - want[2]) <= 1e-6 * max(1, abs(want[2]))):
        corr.append(f'MeanStat.{what}: impl {g} vs model {want}')
    # ---- the monoid laws, stated directly on the real classes (valid statistics only)
    sane = lambda s: tup(s)
    z = M.MeanStat.new(0., 0.)
    if valid:
      if sane(s0.merge(s1).merge(s2)) != sane(s0.merge(s1.merge(s2))):
        problems.append('MeanStat.merge is not associative on valid statistics')
      if sane(s0.merge(s1)) != sane(s1.merge(s0)):
        problems.append('MeanStat.merge is not commutative')
      if sane(z.merge(s0)) != sane(s0) or sane(s0.merge(z)) != sane(s0):
        problems.append('MeanStat zero is not an identity of merge')
      fold = z
      for s in raw[:n]:
        fold = fold.merge(s)
      if sane(fold) != sane(red):
        problems.append(f'MeanStat.reduce {sane(red)} != fold of merge {sane(fold)}')
      r = float(fold.result())
      want = float(fold.accum) / float(fold.weight) if float(fold.weight) != 0 else 0.0
      if not np.isfinite(r) or abs(r - want) > 1e-6 * max(1, abs(want)):
        problems.append(f'MeanStat.result {r} != {want}')
    for what, got in ((('new', new0), ('merge', m01), ('reduce', red)) if valid else (('new', new0),)):
      a, wt = tup(got)
      if not ((a == 0 and wt == 0) or wt > 0):
        problems.append(f'MeanStat.{what} left the documented domain: {(a, wt)}')
    if float(z.result()) != 0.0 or not np.isfinite(float(z.result())):
      problems.append('result of the zero statistic is not 0')
    # SumStat
    ss = [M.SumStat.new(jnp.array(float(a), dtype=jnp.float32)) for a, _ in stats]
    sz = M.SumStat.new(0.)
    acc = lambda s: float(s.accum)
    if acc(ss[0].merge(ss[1]).merge(ss[2])) != acc(ss[0].merge(ss[1].merge(ss[2]))) or \
        acc(ss[0].merge(ss[1])) != acc(ss[1].merge(ss[0])) or acc(sz.merge(ss[0])) != acc(ss[0]):
      problems.append('SumStat.merge is not an associative/commutative monoid with zero')
    sred = M.SumStat.new(jnp.array([float(a) for a, _ in stats[:n]], dtype=jnp.float32)).reduce()
    fold = sz
    for s in ss[:n]:
      fold = fold.merge(s)
    if acc(sred) != acc(fold) or float(sred.result()) != float(sum(a for a, _ in stats[:n])):
      problems.append('SumStat.reduce != fold of merge')
    return Outcome(oracle_fail='; '.join(problems[:3]) or None, corr_fail='; '.join(corr[:3]) or None,
                   nontrivial=True, tags=('stat', 'valid' if valid else 'outside-domain'), key='C05/stat')


PROPERTY = C05
