"""C04 — shuffled batching samples without replacement, exact count, seeded.

A case is a list of configurations (so that one case costs one round-trip to the model driver):
  {'configs': [cfg, …]}            cfg = {N, bs, E, S, drop, skip, seed, feats, pre}
  {'sweep': [N, bs], 'Es': […], 'Ss': […]}   every (E, S, drop, skip) for one (N, bs)  (thorough tier)
  {'reshuffle': {N, bs, seeds, windows}}     re-shuffling monitor, judged over many windows
"""
import itertools
import signal
from fractions import Fraction

import numpy as np

from vlib import core
from vlib.core import Outcome, line

DTYPES = ['int8', 'int32', 'int64', 'uint8', 'float16', 'float32', 'float64']
SHAPES = [[], [3], [2, 0], [2, 2]]
PRE = ['cast', 'affine', 'addfeat', 'inplace_arr']
UNBOUNDED_CAP = 50


class Hang(Exception):
  pass


def _alarm(signum, frame):
  raise Hang()


class watchdog:
  """The real code contains `while` loops; a mutant may spin. Turn that into a reportable failure."""

  def __init__(self, seconds):
    self.seconds = seconds

  def __enter__(self):
    self.old = signal.signal(signal.SIGALRM, _alarm)
    signal.setitimer(signal.ITIMER_REAL, self.seconds)

  def __exit__(self, *a):
    signal.setitimer(signal.ITIMER_REAL, 0)
    signal.signal(signal.SIGALRM, self.old)
    return False


def make_raw(N, feats):
  raw = {'id': np.arange(N, dtype=np.int32), 'w': np.zeros(N, dtype=np.float32)}
  for name, dt, shape in feats:
    size = int(np.prod([N] + list(shape)))
    raw[name] = ((np.arange(size).reshape([N] + list(shape)) % 7) + 1).astype(dt)
  return raw


def pre_fn(name):
  if name == 'cast':
    return lambda x: {**x, 'id': x['id'].astype(np.int64)}
  if name == 'affine':
    return lambda x: {**x, 'aff': x['id'] * 3 + 1}
  if name == 'addfeat':
    return lambda x: {**x, 'sq': x['id'].astype(np.float32) ** 2}
  if name == 'inplace_arr':
    # modifies a feature ARRAY of the batch in place (e.g. `x['pixels'] -= mean`): legal, because a batch
    # is a copy of the dataset's rows; the dataset itself must not change
    def f(x):
      x['w'] += 1
      return x
    return f
  raise ValueError(name)


def doc_count(N, bs, E, S, drop):
  """The documented number of batches (independent statement; None = unbounded)."""
  if E is None:
    return S
  q = Fraction(N * E, bs)
  k = q.numerator // q.denominator          # floor
  if not drop and q.denominator != 1:
    k += 1                                  # ceil
  return k if S is None else min(k, S)


def windows_of(D, N):
  return [D[i:i + N] for i in range(0, len(D), N)]


def stream_problems(D, N, bs, nb, skip):
  """Independent oracle of the sampling clauses on the drawn index stream D (nb batches)."""
  problems = []
  if any(not (0 <= x < N) for x in D):
    return [f'index out of range in {D[:30]}']
  full = list(range(N))
  for w, win in enumerate(windows_of(D, N)):
    if len(win) == N and sorted(win) != full:
      problems.append(f'window {w} is not a permutation of the dataset: {win}')
      break
  counts = [0] * N
  at_level = {0: N}          # usage count -> number of examples used that often (O(1) max/min upkeep)
  lo = 0
  for t, x in enumerate(D):
    c = counts[x]
    counts[x] = c + 1
    at_level[c] -= 1
    at_level[c + 1] = at_level.get(c + 1, 0) + 1
    if at_level[lo] == 0:
      lo += 1
    if c + 1 - lo > 1:
      problems.append(f'usage counts differ by more than one after {t + 1} draws '
                      f'(example {x} used {c + 1} times, another {lo} times)')
      break
  need = -(-N // bs)
  if nb >= need and set(D[:need * bs]) != set(full):
    problems.append(f'first ceil(N/bs)={need} batches miss examples {sorted(set(full) - set(D[:need * bs]))}')
  if skip and D != [t % N for t in range(len(D))]:
    problems.append(f'skip_shuffle stream is not the cyclic original order: {D[:30]}')
  return problems


class C04(core.Property):
  ID = 'C04'
  RULE = ('configurations (N>=1, bs incl. >N, num_epochs, num_steps, drop_remainder, skip_shuffle, seed incl. None, '
          'feature dtypes/trailing shapes, preprocessor chain), grouped ~15 per case; generated from the branch '
          'conditions of the refill loop and of the step-count formula (bs | N, bs > N, batch straddling 1 or several '
          'epochs, num_steps </=/> epoch count, E*N % bs == 0); non-trivial = a case containing a configuration with '
          '>= 2 batches on N >= 2; distinct by case digest; `configs` in monitors counts configurations')
  TRUSTED = ['numpy RandomState.shuffle returns a permutation and is seed-deterministic (both monitored on every '
             'observed window / repeated iteration); numpy fancy indexing v[indices]']
  ASSUMPTIONS = ['datasets are non-empty (N >= 1) as the property states; the N = 0 hang belongs to C01',
                 'preprocessors are deterministic per-example functions']
  QUICK_BUDGET_S = 100
  THOROUGH_BUDGET_S = 540

  def setup(self, ctx):
    from fedjax.core import client_datasets as cds
    self.cds = cds
    self._failing = {}

  # ------------------------------------------------------------------ generation
  def _gen_cfg(self, rng):
    kind = rng.randrange(8)
    N = rng.choice([1, 2, 3, 4, 5, 6, 7, 8, 9, 10, 12, 13, 16, 20, 27, 40]) if kind else rng.randrange(1, 41)
    k2 = rng.randrange(7)
    if k2 == 0:
      bs = rng.choice([d for d in range(1, N + 1) if N % d == 0])
    elif k2 == 1:
      bs = N + rng.randrange(0, 2 * N + 1)          # >= N: a batch straddles one or several epochs
    elif k2 == 2:
      bs = rng.choice([1, N, 2 * N, 3 * N, max(1, N - 1), N + 1])
    else:
      bs = rng.randrange(1, 3 * N + 1)
    E = rng.choice([None, None, 1, 1, 2, 3, 5])
    S = rng.choice([None, None, None, 0, 1, 2, 3, 4, 5, 7, 9, 12])
    if E is not None and S is not None and rng.random() < 0.4:
      # num_steps around the epoch-derived count
      S = max(0, doc_count(N, bs, E, None, False) + rng.choice([-1, 0, 1]))
    feats = [[f'f{i}', rng.choice(DTYPES), rng.choice(SHAPES)] for i in range(rng.randrange(0, 3))] \
        if rng.random() < 0.3 else []
    pre = [rng.choice(PRE) for _ in range(rng.randrange(0, 3))] if rng.random() < 0.3 else []
    return {'N': N, 'bs': bs, 'E': E, 'S': S, 'drop': rng.random() < 0.5, 'skip': rng.random() < 0.25,
            'seed': rng.choice([None, 0, 1, 7, rng.randrange(2**31)]), 'feats': feats, 'pre': pre}

  def gen_cases(self, rng, tier):
    seeds = [rng.randrange(2**31) for _ in range(6)]
    yield {'reshuffle': {'N': 8, 'bs': 3, 'seeds': seeds, 'windows': 4}}
    yield {'reshuffle': {'N': 11, 'bs': 16, 'seeds': seeds[:4], 'windows': 5}}
    yield {'reshuffle': {'N': 9, 'bs': 9, 'seeds': seeds[:4], 'windows': 5}}
    # batches holding two or more whole passes (bs >= 2N): every pass inside one batch is its own shuffle
    yield {'reshuffle': {'N': 8, 'bs': 16, 'seeds': seeds[:4], 'windows': 6}}
    yield {'reshuffle': {'N': 7, 'bs': 21, 'seeds': seeds[:4], 'windows': 6}}
    yield {'reshuffle': {'N': 6, 'bs': 20, 'seeds': seeds[:4], 'windows': 10}}
    if tier == 'thorough':
      Es, Ss = [None, 1, 2, 3, 4], [None, 0, 1, 2, 3, 4, 5, 6, 7, 8]
      for N in range(1, 13):
        for bs in range(1, 31):
          yield {'sweep': [N, bs], 'Es': Es, 'Ss': Ss}
    else:
      # a small exhaustive core in every quick run
      for N in range(1, 6):
        for bs in range(1, 2 * N + 2):
          yield {'sweep': [N, bs], 'Es': [None, 1, 2, 3], 'Ss': [None, 0, 1, 3, 4]}
    # large datasets around the signed/unsigned 16-bit boundaries (index-buffer dtype slips)
    big = [32767, 32768, 32769, 40000, 65535, 65536, 70001]
    for N in (big if tier == 'thorough' else [32769, rng.choice(big), 65536]):
      yield {'configs': [{'N': N, 'bs': rng.choice([4096, 5000, 8192]), 'E': 1, 'S': None, 'drop': False,
                          'skip': sk, 'seed': rng.randrange(100), 'feats': [], 'pre': []} for sk in (True, False)]}
    n = 250 if tier == 'quick' else 1200
    for _ in range(n):
      yield {'configs': [self._gen_cfg(rng) for _ in range(15)]}

  def expand(self, case):
    if 'configs' in case:
      return case['configs']
    N, bs = case['sweep']
    cfgs = []
    for E, S, drop, skip in itertools.product(case['Es'], case['Ss'], (False, True), (False, True)):
      cfgs.append({'N': N, 'bs': bs, 'E': E, 'S': S, 'drop': drop, 'skip': skip,
                   'seed': (N * 31 + bs * 7 + (E or 0) + 3 * (S or 0)) % 11, 'feats': [], 'pre': []})
    return cfgs

  def shrink(self, case):
    if 'reshuffle' in case:
      return
    cfgs = self.expand(case)
    if len(cfgs) > 1:
      bad = self._failing.get(core.case_digest(case), [])
      for i in bad[:3]:
        yield {'configs': [cfgs[i]]}
      for c in cfgs[:40]:
        yield {'configs': [c]}
      return
    c = cfgs[0]
    for k in ('feats', 'pre'):
      if c[k]:
        yield {'configs': [{**c, k: []}]}
    if c['seed'] not in (0, None):
      yield {'configs': [{**c, 'seed': 0}]}
    for k, lo in (('N', 1), ('bs', 1), ('E', 1), ('S', 0)):
      v = c[k]
      if v is None:
        continue
      for x in sorted({lo, v // 2, v - 1}):
        if lo <= x < v:
          yield {'configs': [{**c, k: x}]}

  # ------------------------------------------------------------------ evaluation
  def _observe(self, c):
    """Runs the real view. Returns dict(batches=[[ids]], problems=[…], unbounded, expect)."""
    cds = self.cds
    N, bs, E, S, drop, skip, seed = (c[k] for k in ('N', 'bs', 'E', 'S', 'drop', 'skip', 'seed'))
    problems = []
    raw = make_raw(N, [tuple(f) for f in c['feats']])
    snap = {k: v.copy() for k, v in raw.items()}
    pre = cds.BatchPreprocessor([pre_fn(p) for p in c['pre']])
    ds = cds.ClientDataset(raw, pre)
    expect_all = pre({k: v.copy() for k, v in raw.items()})
    kw = dict(batch_size=bs, num_epochs=E, num_steps=S, drop_remainder=drop, seed=seed, skip_shuffle=skip)
    expect = doc_count(N, bs, E, S, drop)
    limit = UNBOUNDED_CAP if expect is None else expect + 3

    def take(view):
      return list(itertools.islice(iter(view), limit))

    view = ds.shuffle_repeat_batch(**kw)
    got = take(view)
    ids = [[int(i) for i in b['id']] for b in got]
    # --- count
    if expect is None:
      if len(got) < UNBOUNDED_CAP:
        problems.append(f'unbounded stream stopped after {len(got)} batches')
    elif len(got) != expect:
      problems.append(f'{len(got)}{"+" if len(got) == limit else ""} batches, documented count is {expect}')
    # --- batch size, all features, row alignment
    for j, b in enumerate(got):
      if set(b) != set(expect_all):
        problems.append(f'batch {j}: feature set {sorted(b)} != {sorted(expect_all)}')
        break
      bad = [k for k, v in b.items() if len(v) != bs]
      if bad:
        problems.append(f'batch {j} has {len(b[bad[0]])} rows in feature {bad[0]}, batch_size is {bs}')
        break
      idx = np.asarray(b['id']).astype(np.int64)
      if np.any(idx < 0) or np.any(idx >= N):
        continue
      for k, v in b.items():
        if v.dtype != expect_all[k].dtype or v.shape[1:] != expect_all[k].shape[1:] or \
            not np.array_equal(v, expect_all[k][idx]):
          problems.append(f'batch {j}: feature {k} is not the rows {idx.tolist()} of the preprocessed dataset')
          break
    D = [i for b in ids for i in b]
    problems.extend(stream_problems(D, N, bs, len(ids), skip))
    # --- determinism
    if seed is not None:
      again = [[int(i) for i in b['id']] for b in take(view)]
      fresh = [[int(i) for i in b['id']] for b in take(ds.shuffle_repeat_batch(
          cds.ShuffleRepeatBatchHParams(batch_size=bs, num_epochs=E, num_steps=S, drop_remainder=drop,
                                        seed=seed, skip_shuffle=skip)))]
      if again != ids:
        problems.append('fixed seed: second iteration of the same view differs')
      # two live iterations over one view object must each be the seeded stream
      pairs = list(itertools.islice(zip(view, view), limit))
      za = [[int(i) for i in a['id']] for a, _ in pairs]
      zb = [[int(i) for i in b['id']] for _, b in pairs]
      if za != ids[:len(za)] or zb != ids[:len(zb)] or len(pairs) != len(ids):
        problems.append('fixed seed: zip(view, view) is not two copies of the seeded stream '
                        '(concurrent iterators over one view disturb each other)')
      it1 = iter(view)
      head = [[int(i) for i in b['id']] for b in itertools.islice(it1, 2)]
      mid = [[int(i) for i in b['id']] for b in take(view)]       # a full pass while it1 is suspended
      tail = [[int(i) for i in b['id']] for b in itertools.islice(it1, max(0, limit - 2))]
      if mid != ids or head + tail != ids:
        problems.append('fixed seed: a pass started while another iterator of the same view is suspended '
                        'disturbs one of them')
      if fresh != ids:
        problems.append('fixed seed: hparams-object form / a fresh view differs')
    if seed is not None and N <= 64:
      # documented call style "hparams object + keyword overrides": every field, including the Optional
      # ones reset to None, must be taken from the override
      other = cds.ShuffleRepeatBatchHParams(batch_size=bs + 1, num_epochs=2 if E is None else None,
                                            num_steps=3 if S is None else None, drop_remainder=not drop,
                                            seed=seed + 1, skip_shuffle=not skip)
      over = [[int(i) for i in b['id']] for b in take(ds.shuffle_repeat_batch(other, **kw))]
      if over != ids:
        problems.append('hparams object + keyword overrides (incl. overrides equal to None) differs from the '
                        'keyword form')
    if any(not np.array_equal(raw[k], snap[k]) for k in snap) or set(raw) != set(snap):
      problems.append('raw examples mutated')
    return {'ids': ids, 'D': D, 'problems': problems, 'expect': expect}

  def _model_line(self, c, obs):
    N, bs = c['N'], c['bs']
    D = [x if 0 <= x < N else 0 for x in obs['D']]
    perms = []
    for win in windows_of(D, N):
      if len(win) < N:
        rest = [i for i in range(N) if i not in win]
        win = win + rest if len(set(win)) == len(win) else win + [0] * (N - len(win))
      perms.append(win)
    # bounded: the model decides the number of batches itself; unbounded: look at the first CAP
    cap = UNBOUNDED_CAP if obs['expect'] is None else 10**6
    lines = [line('c04.run', N, bs, c['E'], c['S'], c['drop'], cap, perms)]
    if c['skip']:
      lines.append(line('c04.run', N, bs, c['E'], c['S'], c['drop'], cap, [list(range(N))] * len(perms)))
    return lines

  def evaluate(self, case, ctx):
    if 'reshuffle' in case:
      return self._reshuffle(case, ctx)
    if 'run_level_monitor' in case:
      return Outcome(nontrivial=False)
    cfgs = self.expand(case)
    problems, corr, tags, lines, owners, observed = [], [], [], [], [], []
    bad_idx = []
    try:
      with watchdog(30 + 0.05 * len(cfgs)):
        for i, c in enumerate(cfgs):
          obs = self._observe(c)
          observed.append(obs)
          if obs['problems']:
            bad_idx.append(i)
            problems.append(f'{self._fmt(c)}: ' + '; '.join(obs['problems'][:3]))
          for l in self._model_line(c, obs):
            lines.append(l)
            owners.append(i)
          tags.extend(self._tags(c, obs))
    except Hang:
      c = cfgs[len(observed)]
      bad_idx.append(len(observed))
      problems.append(f'{self._fmt(c)}: iteration does not terminate (killed by the watchdog)')
      self._failing[core.case_digest(case)] = bad_idx
      return Outcome(oracle_fail='; '.join(problems[:3]), key='C04/hang', tags=tuple(tags),
                     detail={'config': c})
    ans = ctx.drv.ask(lines)
    seen_skip = set()
    for i, a in zip(owners, ans):
      c, obs = cfgs[i], observed[i]
      second = i in seen_skip
      seen_skip.add(i)
      what = 'model on range(N) epochs (skip_shuffle)' if second else 'model on the observed windows'
      if a == 'err':
        corr.append(f'{self._fmt(c)}: model rejects the configuration')
        continue
      steps, batches = a
      if steps != obs['expect']:
        corr.append(f'{self._fmt(c)}: numSteps {steps} vs documented count {obs["expect"]}')
      if batches != obs['ids']:
        corr.append(f'{self._fmt(c)}: {what}: {str(batches)[:200]} vs impl {str(obs["ids"])[:200]}')
        if i not in bad_idx:
          bad_idx.append(i)
    ctx.count('configs', len(cfgs))
    ctx.count('batches_observed', sum(len(o['ids']) for o in observed))
    ctx.count('windows_validated', sum(len(o['D']) // cfgs[i]['N'] for i, o in enumerate(observed)))
    if bad_idx:
      self._failing[core.case_digest(case)] = bad_idx
    nontrivial = any(len(o['ids']) >= 2 and cfgs[i]['N'] >= 2 for i, o in enumerate(observed))
    detail = None
    if bad_idx:
      i = bad_idx[0]
      detail = {'config': cfgs[i], 'impl_batches': observed[i]['ids'], 'documented_count': observed[i]['expect'],
                'python': 'fedjax.ClientDataset({"id": np.arange(N)}).shuffle_repeat_batch(batch_size=bs, '
                          'num_epochs=E, num_steps=S, drop_remainder=drop, seed=seed, skip_shuffle=skip)'}
    return Outcome(oracle_fail='; '.join(problems[:3]) or None, corr_fail='; '.join(corr[:3]) or None,
                   nontrivial=nontrivial, tags=tuple(tags), detail=detail,
                   key=self._key(problems) if problems else None)

  @staticmethod
  def _key(problems):
    p = problems[0]
    if 'batches, documented count' in p or 'unbounded stream stopped' in p:
      return 'C04/count'
    if 'rows in feature' in p:
      return 'C04/batch-size'
    if 'fixed seed' in p:
      return 'C04/seed'
    return 'C04/sampling'

  @staticmethod
  def _fmt(c):
    return (f'N={c["N"]} bs={c["bs"]} num_epochs={c["E"]} num_steps={c["S"]} drop={c["drop"]} '
            f'skip={c["skip"]} seed={c["seed"]}')

  @staticmethod
  def _tags(c, obs):
    N, bs = c['N'], c['bs']
    rel = 'bs|N' if N % bs == 0 else ('bs>2N' if bs > 2 * N else ('bs>N' if bs > N else 'bs<N'))
    mode = ('E' if c['E'] is not None else '') + ('S' if c['S'] is not None else '') or 'unbounded'
    nw = len(obs['D']) // N
    return [f'rel={rel}', f'mode={mode}', f'drop={c["drop"]}', f'skip={c["skip"]}',
            f'seed={"None" if c["seed"] is None else "fixed"}', f'windows={"0" if nw == 0 else ("1" if nw == 1 else "2+")}',
            f'batches={"0" if not obs["ids"] else ("1" if len(obs["ids"]) == 1 else "2+")}']

  def _reshuffle(self, case, ctx):
    """Successive complete windows must be re-shuffled. Judged over many window pairs, so an honest
    implementation (a repeat has probability 1/N! per pair) cannot trip it."""
    r = case['reshuffle']
    N, bs, nw = r['N'], r['bs'], r['windows']
    cds = self.cds
    pairs = same = 0
    first_windows = []
    steps = -(-nw * N // bs)
    try:
      with watchdog(30):
        for seed in r['seeds']:
          ds = cds.ClientDataset({'id': np.arange(N, dtype=np.int32)})
          D = [int(i) for b in itertools.islice(iter(ds.shuffle_repeat_batch(
              batch_size=bs, num_epochs=None, num_steps=steps, seed=seed)), steps) for i in b['id']]
          wins = [w for w in windows_of(D, N) if len(w) == N]
          first_windows.append(tuple(wins[0]) if wins else None)
          for a, b in zip(wins, wins[1:]):
            pairs += 1
            same += a == b
    except Hang:
      return Outcome(oracle_fail='iteration does not terminate', key='C04/hang', tags=('reshuffle',))
    ctx.count('reshuffle_pairs', pairs)
    problems = []
    if pairs >= 4 and 2 * same >= pairs:
      problems.append(f'N={N} bs={bs}: {same} of {pairs} pairs of successive windows are identical: '
                      'windows are not re-shuffled')
    ident = sum(1 for w in first_windows if w == tuple(range(N)))
    if len(first_windows) >= 4 and 2 * ident >= len(first_windows):
      problems.append(f'N={N} bs={bs}: the first window is the original order for {ident} of '
                      f'{len(first_windows)} seeds: no shuffling')
    return Outcome(oracle_fail='; '.join(problems) or None, key='C04/reshuffle' if problems else None,
                   tags=('reshuffle',), nontrivial=True, detail={'pairs': pairs, 'identical': same})


PROPERTY = C04
