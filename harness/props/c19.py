"""C19 — downloaded and decompressed cache files appear only when complete.

Real code: fedjax.datasets.downloads.maybe_download / maybe_lzma_decompress, run on a real temp
directory with every file-system effect (open-for-write, write, rename) and every network / archive
read numbered as a crash point; a write can be cut after any byte prefix.  `requests.get` is a local
stub.  After each interrupted call the directory listing is compared with the Lean model
(`Model/Cache.lean`), and an independent oracle states the property on the real files: a final name
is absent or holds exactly the payload; a later completed call returns the complete file; a present
final file is reused without any network read, write or rename.
"""
import json
import lzma as _lzma
import os
import shutil
import tempfile

from vlib import core
from vlib.core import Outcome, line
from vlib.crash import Crash, FsTap, InjectedIOError, Injector, WFile, hard_points, in_tree, mkdtemp, prefixes

DL_BLOCK = 1 << 18
CP_BLOCK = getattr(shutil, 'COPY_BUFSIZE', 64 * 1024)
CALLS = {0: 'download', 1: 'decompress'}
FS_KINDS = ('open', 'write', 'rename', 'remove', 'mkdir', 'rmdir', 'truncate')
WRITE_BUFFER = 8192      # io.DEFAULT_BUFFER_SIZE: smaller writes only fail when the buffer is flushed


def pattern(n, salt):
  """n deterministic, position-dependent, compressible bytes."""
  unit = bytes((i * 7 + salt + (i >> 8)) % 251 for i in range(4096))
  reps = n // len(unit) + 1
  out = bytearray()
  for r in range(reps):
    out += unit
    if len(out) >= n:
      break
  # make every 4096-block distinct so that a shifted / repeated block is visible
  b = bytearray(out[:n])
  for k in range(0, n, 4096):
    b[k] = (k // 4096) % 256
  return bytes(b)


ERROR_PAGE = b'<html><body><h1>503 Service Unavailable</h1>' + b'the backend is overloaded, try again later. ' * 40 + b'</body></html>'


def parse_variant(v):
  """Response variant of one download call:
    'ok'            200, content-length = payload length
    'none'          200 without a content-length header (chunked transfer encoding)
    'drop:K'        200, content-length = payload length, connection closed after K body bytes
    'status:C[:N]'  the first N requests of the call (default: all) are answered with HTTP status C and an
                    error page (with its own content-length); later requests get the good response
  """
  if v in (None, 'ok'):
    return ('ok',)
  if v == 'none':
    return ('none',)
  parts = str(v).split(':')
  if parts[0] == 'drop':
    return ('drop', int(parts[1]))
  if parts[0] == 'status':
    return ('status', int(parts[1]), int(parts[2]) if len(parts) > 2 else 10 ** 9)
  raise ValueError(f'unknown response variant {v!r}')


def describe_variant(v):
  t = parse_variant(v)
  if t[0] == 'ok':
    return ''
  if t[0] == 'none':
    return ', response without content-length header'
  if t[0] == 'drop':
    return f', connection closed by the server after {t[1]} body bytes'
  return f', server answers HTTP {t[1]} with an error page' + ('' if t[2] >= 10 ** 9 else f' to the first {t[2]} request(s)')


def finals_of(listing):
  """Observation function of the cache directory: ONLY the two final names (each absent, or
  (length, is-exactly-a-prefix-of-its-payload)).  Where unfinished data lives — a `.partial` file, a uniquely
  named scratch file, a private staging directory —, whether it is cleaned up, and which system calls are
  made in which order is the implementation's freedom and not compared."""
  return [listing[0], listing[2]]


class _Loopback:
  """A real HTTP server on 127.0.0.1 (port 0, daemon threads, time-outs everywhere) that serves every download of
  the check, whatever HTTP client the implementation uses (requests, urllib, http.client, …).  Variants
  (see parse_variant): content-length + full body; no content-length (body delimited by closing the
  connection); connection closed after K body bytes; error statuses with an error page."""

  def __init__(self):
    import socket
    import threading
    self._data, self._v = b'', ('ok',)
    self._sock = socket.socket()
    self._sock.setsockopt(socket.SOL_SOCKET, socket.SO_REUSEADDR, 1)
    self._sock.bind(('127.0.0.1', 0))
    self._sock.listen(16)
    self._sock.settimeout(0.05)
    self.port = self._sock.getsockname()[1]
    self.requests = 0
    self._stop = False
    self._conns = []
    self._lock = threading.Lock()
    self._t = threading.Thread(target=self._run, daemon=True)
    self._t.start()

  def configure(self, data, variant):
    """the next call is served `data` in response variant `variant`; lingering connections of an earlier
    (crashed) call are dropped"""
    with self._lock:
      conns, self._conns = self._conns, []
    for c in conns:
      try:
        c.close()
      except OSError:
        pass
    self._data, self._v, self.requests = data, parse_variant(variant), 0

  def _run(self):
    import socket
    import threading
    while not self._stop:
      try:
        c, _ = self._sock.accept()
      except socket.timeout:
        continue
      except OSError:
        return
      with self._lock:
        self._conns.append(c)
      threading.Thread(target=self._serve, args=(c,), daemon=True).start()

  def _serve(self, c):
    try:
      c.settimeout(3.0)
      buf = b''
      while b'\r\n\r\n' not in buf:
        x = c.recv(65536)
        if not x:
          return
        buf += x
      n = self.requests
      self.requests += 1
      v, data = self._v, self._data
      status, reason, body, send, cl = 200, 'OK', data, None, True
      if v[0] == 'status' and n < v[2]:
        status, reason, body = v[1], ('Service Unavailable' if v[1] >= 500 else 'Not Found'), ERROR_PAGE
      elif v[0] == 'none':
        cl = False
      elif v[0] == 'drop':
        send = v[1]
      head = f'HTTP/1.1 {status} {reason}\r\nContent-Type: application/octet-stream\r\nConnection: close\r\n'
      if cl:
        head += f'Content-Length: {len(body)}\r\n'
      c.sendall((head + '\r\n').encode())
      c.sendall(body if send is None else body[:send])
    except OSError:
      pass
    finally:
      try:
        c.close()
      except OSError:
        pass
      with self._lock:
        if c in self._conns:
          self._conns.remove(c)

  def close(self):
    self._stop = True
    self._t.join(timeout=2.0)
    try:
      self._sock.close()
    except OSError:
      pass


class _RFile:
  """Proxy of the lzma reader: every read is a numbered event (I/O errors can be injected)."""

  def __init__(self, f, inj):
    self._f, self._inj = f, inj

  def read(self, n=-1):
    self._inj.event('read', n)
    return self._f.read(n)

  def read1(self, n=-1):
    self._inj.event('read', n)
    return self._f.read1(n)

  def readinto(self, b):
    self._inj.event('read', len(b))
    return self._f.readinto(b)

  def __enter__(self):
    return self

  def __exit__(self, *a):
    self._f.close()
    return False

  def __getattr__(self, k):
    return getattr(self._f, k)


class _Proxy:

  def __init__(self, target, **over):
    self.__dict__['_t'] = target
    self.__dict__['_o'] = over

  def __getattr__(self, k):
    o = self.__dict__['_o']
    if k in o:
      return o[k]
    return getattr(self.__dict__['_t'], k)


class C19(core.Property):
  ID = 'C19'
  RULE = ('cases = (payload kind raw|lzma, payload size around the transfer block sizes 2^18 / COPY_BUFSIZE, '
          'initial cache state incl. stale temp files and already complete finals, and either the exhaustive '
          'enumeration of every crash point (event index x byte prefix of each write) of one call or a random '
          'schedule of 1-4 interrupted calls with crash / OSError / hard-kill modes; lzma archives with 1-3 '
          'concatenated streams and an optional empty first stream (reference = lzma.decompress of the whole file); '
          'download responses with and without a content-length header, connections closed by the server after k of '
          'N announced bytes (inside the last block, at a block boundary, in an earlier block, k = 0; urllib3-faithful '
          'reads), HTTP error statuses with an error page for all / the first requests of a call; OSError out of every '
          'unbuffered-size write; decompressed payloads ending in zero blocks / all zero; EVERY download is served by a '
          'real loopback HTTP server, so the check is independent of the HTTP client library), always '
          'survivable OSError at a publication step (rename/replace/move) followed by a crash at any later event '
          '(double fault), always followed by completed calls and a '
          'reuse call; non-trivial = at least one interruption happened after the first file-system effect; '
          'distinct by case digest')
  OBSERVATION = ('only the two FINAL names of the cache are compared with the model (absent | complete; monotone; complete '
                 'after a completed call; reused without network): at every crash point of the IMPLEMENTATION\'s own event '
                 'sequence — whatever API it uses (open / os.open / pathlib, rename / replace / move, mkdir / mkdtemp / '
                 'rmdir, remove, fsync, files in sub-directories) — the final-name state must be one the model allows '
                 'at some crash point of its plan.  Temp-file names, their presence, length, clean-up and the order '
                 'of system calls are implementation freedom (recorded as diagnostics only).')
  TRUSTED = ['POSIX rename / link atomicity; Python file objects / lzma / shutil; the loopback HTTP server of the harness '
             '(real sockets: content-length + body, body delimited by closing the connection, connection closed after K '
             'body bytes, error statuses with an error page) and the HTTP client the implementation chooses',
             'crashes are simulated by unwinding the call with a BaseException after flushing a byte prefix '
             '(every on-disk state a real crash can leave is such a prefix state); hard kills lose unflushed bytes']
  ASSUMPTIONS = ['a crash leaves, for the file being written, some prefix of the bytes handed to write()',
                 'a connection that the server closes early is reported (or not) by the real HTTP client as it is: '
                 'no stub stands between the implementation and the socket']
  QUICK_BUDGET_S = 60
  THOROUGH_BUDGET_S = 400

  # ------------------------------------------------------------------------------------------
  def setup(self, ctx):
    from fedjax.datasets import downloads
    if not os.path.abspath(downloads.__file__).startswith(os.path.abspath(core.REPO)):
      raise core.InfraError(f'fedjax imported from {downloads.__file__}, expected {core.REPO}')
    self.dl = downloads
    self._pcache = {}
    self.server = _Loopback()
    self.last_requests = 0
    # Temp-name suffixes the implementation uses (stale temp files are planted under *its* names, so
    # that a different suffix stays a harmless rewrite).  In-place writers get the documented default.
    self.suffix = {0: '.partial', 1: '.partial'}
    root = mkdtemp('verif_c19_')
    try:
      P, D = self.payloads('lzma', 10)
      for call in (0, 1):
        inj = Injector()
        self.run_call(root, 'arch.sqlite.lzma', call, inj, P, [])
        final = 'arch.sqlite.lzma' if call == 0 else 'arch.sqlite'
        opened = [e[1] for e in inj.events if e[0] == 'open']
        if opened and opened[0].startswith(final) and opened[0] != final:
          self.suffix[call] = opened[0][len(final):]
    finally:
      shutil.rmtree(root, ignore_errors=True)
    ctx.stats['temp_suffixes'] = f'{self.suffix[0]} {self.suffix[1]}'

  # ------------------------------------------------------------------------------------------
  def gen_cases(self, rng, tier):
    B, C = DL_BLOCK, CP_BLOCK
    raw_sizes = [0, 1, B - 1, B, B + 1, 3 * B + 7]
    dec_sizes = [0, 1, C - 1, C, C + 1, 3 * C + 7]
    empty = {'dl': False, 'dec': False, 'dlPart': None, 'decPart': None}
    # exhaustive single-crash enumeration
    for s in raw_sizes:
      yield {'kind': 'raw', 'size': s, 'init': dict(empty), 'enumerate': 0}
    yield {'kind': 'raw', 'size': B + 1, 'init': {**empty, 'dlPart': 3}, 'enumerate': 0}
    for s in dec_sizes:
      yield {'kind': 'lzma', 'size': s, 'init': {**empty, 'dl': True}, 'enumerate': 1}
    yield {'kind': 'lzma', 'size': C + 1, 'init': {**empty, 'dl': True, 'decPart': 70000}, 'enumerate': 1}
    yield {'kind': 'lzma', 'size': 3 * C + 7, 'init': dict(empty), 'enumerate': 0}
    yield {'kind': 'lzma', 'size': 5, 'init': dict(empty), 'enumerate': 1}     # source missing: raises
    # legal multi-stream archives (cat a.xz b.xz, lzma.open(..., 'ab')), also with an empty first stream
    yield {'kind': 'lzma', 'size': 5000, 'streams': 2, 'init': dict(empty), 'sched': [[0, 1000, 0, 0], [1, 1000, 0, 0]]}
    yield {'kind': 'lzma', 'size': 3 * C + 7, 'streams': 3, 'init': {**empty, 'dl': True}, 'enumerate': 1}
    yield {'kind': 'lzma', 'size': C + 1, 'streams': 2, 'empty_first': True, 'init': {**empty, 'dl': True}, 'enumerate': 1}
    # successful responses that do not announce their size (no content-length header)
    for s in (1, B + 1):
      yield {'kind': 'raw', 'size': s, 'init': dict(empty), 'sched': [[0, 1000, 0, 0, 'none']]}
    yield {'kind': 'raw', 'size': 3 * B + 7, 'init': {**empty, 'dlPart': 3}, 'sched': [[0, 600, 500, 0, 'none'], [0, 1000, 0, 0, 'none']]}
    yield {'kind': 'lzma', 'size': 70000, 'streams': 2, 'init': dict(empty), 'sched': [[0, 1000, 0, 0, 'none'], [1, 500, 0, 2]]}
    # connection closed by the server after k of N announced bytes (urllib3-faithful reads): inside the last
    # block, at a block boundary, inside an earlier block, before the first byte
    drops = [(1000, 400), (1000, 999), (1, 0), (B, B - 1), (B + 1, B), (B + 1, 1), (3 * B + 7, 3 * B + 3),
             (3 * B + 7, 3 * B), (3 * B + 7, B + 5), (2 * B, 2 * B - 1), (2 * B, B), (3 * B + 7, 0)]
    for n_, k_ in drops:
      yield {'kind': 'raw', 'size': n_, 'init': dict(empty), 'sched': [[0, 1000, 0, 0, f'drop:{k_}']]}
    yield {'kind': 'raw', 'size': B + 9, 'init': {**empty, 'dlPart': 3}, 'sched': [[0, 1000, 0, 0, f'drop:{B + 4}'], [0, 1000, 0, 0, 'drop:5']]}
    yield {'kind': 'lzma', 'size': 200000, 'init': dict(empty), 'sched': [[0, 1000, 0, 0, 'drop:20'], [1, 1000, 0, 0]]}
    # HTTP error statuses with an error page (and its content-length): for every request / only for the first ones
    for v in ('status:503', 'status:500:2', 'status:404', 'status:502:1', 'status:403:1'):
      yield {'kind': 'raw', 'size': 1000 if v.endswith('3') else B + 1, 'init': dict(empty), 'sched': [[0, 1000, 0, 0, v]]}
    # decompressed payloads that end in zero bytes (>= one copy block, a zero tail block, all zero)
    yield {'kind': 'lzma', 'size': 2 * C, 'zeros': C, 'init': {**empty, 'dl': True}, 'enumerate': 1}
    yield {'kind': 'lzma', 'size': C + 100, 'zeros': 100, 'init': dict(empty), 'sched': [[0, 1000, 0, 0], [1, 1000, 0, 0]]}
    yield {'kind': 'lzma', 'size': 5000, 'zeros': 5000, 'init': {**empty, 'dl': True}, 'sched': [[1, 1000, 0, 0]]}
    yield {'kind': 'lzma', 'size': 3 * C, 'zeros': 3 * C, 'streams': 2, 'init': {**empty, 'dl': True}, 'sched': [[1, 500, 500, 0], [1, 1000, 0, 0]]}
    yield {'kind': 'lzma', 'size': 3 * C + 7, 'zeros': 2 * C + 7, 'init': {**empty, 'dl': True}, 'sched': [[1, 1000, 0, 0]]}
    if tier == 'thorough':
      for s in (2, 4095, 2 * B, 2 * B + 1, 5 * B - 1):
        yield {'kind': 'raw', 'size': s, 'init': {**empty, 'dlPart': s // 3}, 'enumerate': 0, 'fine': True}
      for s in (2, 4097, 2 * C, 2 * C - 1, 7 * C + 3, 20 * C + 11):
        yield {'kind': 'lzma', 'size': s, 'init': {**empty, 'dl': True, 'decPart': 5}, 'enumerate': 1, 'fine': True}
    # random schedules of interrupted calls
    n = 90 if tier == 'quick' else 700
    for _ in range(n):
      kind = rng.choice(['raw', 'lzma', 'lzma'])
      if kind == 'raw':
        size = rng.choice(raw_sizes + [rng.randrange(0, 5000), rng.randrange(B - 3, B + 4), 2 * B])
      else:
        size = rng.choice(dec_sizes + [rng.randrange(0, 5000), rng.randrange(C - 3, C + 4), 2 * C, 5 * C + 1])
      init = {'dl': rng.random() < 0.35, 'dec': kind == 'lzma' and rng.random() < 0.15,
              'dlPart': rng.choice([None, None, 0, 3, 100000]),
              'decPart': rng.choice([None, None, 0, 7, 70000]) if kind == 'lzma' else None}
      sched = []
      for _ in range(rng.randrange(1, 5)):
        call = 0 if kind == 'raw' else rng.choice([0, 1, 1])
        step = [call, rng.randrange(0, 1001), rng.randrange(0, 1001), rng.choice([0, 0, 1, 2, 3])]
        if call == 0 and rng.random() < 0.3:
          u = rng.random()
          if u < 0.35:
            step.append('none')
          elif u < 0.8:
            nblocks = (size + B - 1) // B
            k = rng.choice([0, size - 1, size // 2, (nblocks - 1) * B, (nblocks - 1) * B + 1, rng.randrange(0, size + 1)])
            step.append(f'drop:{max(0, min(k, size))}')
          else:
            step.append(rng.choice(['status:503', 'status:500:2', 'status:404', 'status:503:1']))
          if rng.random() < 0.6:
            step[1] = 1000         # not interrupted: the call itself has to cope with the response
        sched.append(step)
      case = {'kind': kind, 'size': size, 'init': init, 'sched': sched}
      if kind == 'lzma' and rng.random() < 0.2:
        case['zeros'] = rng.choice([size, min(size, C), min(size, 100), size // 2])
      if kind == 'lzma' and rng.random() < 0.4:
        case['streams'] = rng.choice([2, 2, 3])
        case['empty_first'] = rng.random() < 0.3
      yield case

  def shrink(self, case):
    if 'enumerate' in case:
      call = case['enumerate']
      hit = getattr(self, '_last_fail', {}).get(core.case_digest(case))
      extra = {k: case[k] for k in ('streams', 'empty_first', 'zeros') if k in case}
      if hit and hit[0] == 'double':
        _, c, pb, r_, n = hit
        cf = -(-c * 1001 // (n + 1))
        while (cf * (n + 1)) // 1001 < c:
          cf += 1
        yield {'kind': case['kind'], 'size': case['size'], 'init': case['init'], **extra,
               'sched': [[call, cf, 500 if pb else 0, 0, None, {'oserror_at_events': [r_]}]]}
        return
      if hit and hit[0] == 'werr':
        _, c, pb, n, m = hit
        cf = -(-c * 1001 // (n + 1))
        while (cf * (n + 1)) // 1001 < c:
          cf += 1
        pf = 0 if not m else min(1000, -(-pb * 1000 // m))
        yield {'kind': case['kind'], 'size': case['size'], 'init': case['init'], **extra, 'sched': [[call, cf, pf, 1]]}
        return
      if hit:
        c, f, n = hit
        cf = -(-c * 1001 // (n + 1))
        while (cf * (n + 1)) // 1001 < c:
          cf += 1
        yield {'kind': case['kind'], 'size': case['size'], 'init': case['init'], 'sched': [[call, cf, 0, 2 if f == 0 else 3]]}
        return
      for cf in (500, 250, 750, 0, 100, 200, 300, 400, 600, 700, 800, 900, 1000, 50, 950):
        for pf in (500, 0, 999):
          yield {'kind': case['kind'], 'size': case['size'], 'init': case['init'], 'sched': [[call, cf, pf, 0]]}
      return
    if 'loopback' in case:
      return
    sched = case['sched']
    for i in range(len(sched)):
      if len(sched) > 1:
        yield {**case, 'sched': sched[:i] + sched[i + 1:]}
    init = case['init']
    for k in ('dlPart', 'decPart'):
      if init.get(k) is not None:
        yield {**case, 'init': {**init, k: None}}
    for k in ('dec',):
      if init.get(k):
        yield {**case, 'init': {**init, k: False}}
    if 'loopback' in case:
      return
    for i, st in enumerate(sched):
      if len(st) > 4 and str(st[4]).startswith('drop:'):
        for s2 in (2, 1000):
          if s2 < case['size']:
            yield {**case, 'size': s2, 'sched': sched[:i] + [list(st[:4]) + [f'drop:{s2 // 2}']] + sched[i + 1:]}
    if case.get('empty_first'):
      yield {**case, 'empty_first': False}
    if case.get('streams', 1) > 2:
      yield {**case, 'streams': 2}
    s = case['size']
    for c in sorted({1000, WRITE_BUFFER + 1, s // 2} | ({s - 1} if s <= 16 else set())):
      if 0 < c < s:
        yield {**case, 'size': c}
    for i, st in enumerate(sched):
      if st[3] == 1:
        yield {**case, 'sched': sched[:i] + [[st[0], st[1], st[2], 0] + list(st[4:])] + sched[i + 1:]}
      for j in (1, 2):
        for c in (500, 0):
          if st[j] != c and (st[j] > c):
            ns = list(st)
            ns[j] = c
            yield {**case, 'sched': sched[:i] + [ns] + sched[i + 1:]}

  # ------------------------------------------------------------------------------------------
  def payloads(self, kind, size, streams=1, empty_first=False, zeros=0):
    """(bytes served by the download, decompressed reference).  For kind 'lzma' the archive consists of
    `streams` concatenated xz streams (as `cat a.xz b.xz` / `lzma.open(..., 'ab')` produce), optionally
    preceded by an empty stream; the reference is Python's `lzma.decompress` of the whole archive."""
    key = (kind, size, streams, empty_first, zeros)
    if key not in self._pcache:
      if len(self._pcache) > 40:
        self._pcache.clear()
      if kind == 'raw':
        self._pcache[key] = (pattern(size, 3), b'')
      else:
        dec = pattern(size, 11)
        if zeros:
          # the decompressed payload ends in `zeros` zero bytes (zeroed free pages / padding of a database);
          # zeros >= size: an all-zero payload
          z = min(int(zeros), size)
          dec = dec[:size - z] + bytes(z)
        k = max(1, int(streams))
        cuts = [size * i // k for i in range(k + 1)]
        comp = b''.join(_lzma.compress(dec[cuts[i]:cuts[i + 1]], preset=1) for i in range(k))
        if empty_first:
          comp = _lzma.compress(b'', preset=1) + comp
        ref = _lzma.decompress(comp)
        if ref != dec:
          raise core.InfraError('lzma reference decompression of the generated archive differs from the payload')
        self._pcache[key] = (comp, ref)
    return self._pcache[key]

  def run_call(self, d, name, call, inj, dl_bytes, read_sizes, hdr='ok', loopback=None):
    """Runs one real call with all file-system effects routed through `inj`; downloads are served by the real
    loopback HTTP server in response variant `hdr` (see parse_variant), so the check does not depend on the
    HTTP client library the implementation uses.
    Returns ('ok', path) | ('crash', None) | ('raise', ExceptionName); self.last_requests = requests the
    server saw during the call."""
    dl = self.dl
    missing = object()
    saved = {k: dl.__dict__.get(k, missing) for k in ('lzma', 'log', 'time')}
    srv = self.server

    def w_lzma_open(filename, mode='rb', *a, **k):
      inj.event('read', 'open')
      f = _lzma.open(filename, mode, *a, **k)
      return _RFile(f, inj) if 'r' in mode else f

    if saved['time'] is not missing:
      dl.time = _Proxy(saved['time'], sleep=lambda *_a: None)     # back-off sleeps are not part of the behaviour
    if saved['lzma'] is not missing:
      dl.lzma = _Proxy(saved['lzma'], open=w_lzma_open)
    dl.log = lambda *a, **k: None
    srv.configure(dl_bytes, hdr)
    env_saved = {k: os.environ.get(k) for k in ('NO_PROXY', 'no_proxy')}
    os.environ['NO_PROXY'] = os.environ['no_proxy'] = '127.0.0.1,localhost'
    try:
      with FsTap(d, inj):
        if call == 0:
          path = dl.maybe_download(f'http://127.0.0.1:{srv.port}/some/dir/{name}?x=1', d)
        else:
          path = dl.maybe_lzma_decompress(os.path.join(d, name))
      return ('ok', path)
    except Crash:
      return ('crash', None)
    except InjectedIOError:
      return ('crash', None)
    except Exception as e:   # pylint: disable=broad-except
      return ('raise', type(e).__name__)
    finally:
      self.last_requests = srv.requests
      for k, v in env_saved.items():
        if v is None:
          os.environ.pop(k, None)
        else:
          os.environ[k] = v
      for k, v in saved.items():
        if v is missing:
          dl.__dict__.pop(k, None)
        else:
          setattr(dl, k, v)

  @staticmethod
  def names(kind):
    return ('data.bin', None) if kind == 'raw' else ('arch.sqlite.lzma', 'arch.sqlite')

  def populate(self, d, kind, init, P, D):
    dlname, decname = self.names(kind)

    def put(fn, data):
      with open(os.path.join(d, fn), 'wb') as f:
        f.write(data)

    if init.get('dl'):
      put(dlname, P)
    if init.get('dec') and decname:
      put(decname, D)
    if init.get('dlPart') is not None:
      put(dlname + self.suffix[0], b'\xff' * init['dlPart'])
    if init.get('decPart') is not None and decname:
      put(decname + self.suffix[1], b'\xfe' * init['decPart'])

  def observe(self, d, kind, P, D):
    """Cache directory -> ([dl_final, None, dec_final, None] in the model's listing format,
    names of everything else that lies around (diagnostics only, never compared))."""
    dlname, decname = self.names(kind)
    out = {}
    for key, fn, pay in (('dl', dlname, P), ('dec', decname, D)):
      out[key] = None
      if fn is None:
        continue
      p = os.path.join(d, fn)
      if os.path.isfile(p):
        with open(p, 'rb') as f:
          data = f.read()
        out[key] = [len(data), data == pay[:len(data)] and len(data) <= len(pay)]
    leftovers = sorted(fn for fn in os.listdir(d) if fn not in (dlname, decname))
    return [out['dl'], None, out['dec'], None], leftovers

  def oracle_state(self, d, kind, P, D, before=None):
    """The property on the real directory: finals are absent or exactly the payload;
    a complete final that existed before is still there, unchanged."""
    dlname, decname = self.names(kind)
    probs = []
    for fn, pay, what in ((dlname, P, 'download'), (decname, D, 'decompress')):
      if fn is None:
        continue
      p = os.path.join(d, fn)
      if os.path.exists(p):
        with open(p, 'rb') as f:
          data = f.read()
        if data != pay:
          kind_ = 'truncated' if pay.startswith(data) else 'corrupt'
          probs.append((f'C19/{what}/{kind_}-final',
                        f'final file {fn} is visible with {len(data)} of {len(pay)} bytes ({kind_})'))
      elif before is not None and before.get(fn):
        probs.append((f'C19/{what}/final-removed', f'complete final file {fn} disappeared'))
    return probs

  def finals_present(self, d, kind):
    return {fn: os.path.exists(os.path.join(d, fn)) for fn in self.names(kind) if fn}

  def allowed_finals(self, ctx, zs, call, start):
    """What the model allows for the final names at ANY crash point of one call from `start` (finals only):
    asked from the model (every crash point of the model's own plan), cached per start state."""
    key = json.dumps([zs, call, start])
    cache = self.__dict__.setdefault('_allowed', {})
    if key not in cache:
      if len(cache) > 500:
        cache.clear()
      plan = ctx.drv.ask([line('c19.plan', *zs, call, start)])[0]
      if plan == 'raises':
        cache[key] = ('raises', [finals_of(start)], finals_of(start))
      else:
        lines = [line('c19.run', *zs, start, [[call, c, 0]]) for c in range(len(plan) + 1)]
        lines.append(line('c19.run', *zs, start, [[call, -1, 0]]))
        ans = ctx.drv.ask(lines)
        allowed = []
        for a_ in ans[:-1]:
          f_ = finals_of(a_[0])
          if f_ not in allowed:
            allowed.append(f_)
        cache[key] = ('ok', allowed, finals_of(ans[-1][0]))
    return cache[key]

  def completed_finals(self, ctx, zs, kind, start):
    """model: final names after download (and decompress) ran to completion from `start`"""
    key = json.dumps([zs, kind, start])
    cache = self.__dict__.setdefault('_completed', {})
    if key not in cache:
      if len(cache) > 500:
        cache.clear()
      sched = [[0, -1, 0]] + ([[1, -1, 0]] if kind == 'lzma' else [])
      ans = ctx.drv.ask([line('c19.run', *zs, start, sched)])[0]
      cache[key] = None if ans[-1] == 'raises' else finals_of(ans[-1])
    return cache[key]

  def evaluate(self, case, ctx):
    kind, size, init = case['kind'], case['size'], case['init']
    if 'loopback' in case:
      case = {'kind': case['kind'], 'size': case['size'], 'init': case['init'], 'sched': [[0, 1000, 0, 0, case['loopback']]]}
    P, D = self.payloads(kind, size, case.get('streams', 1), case.get('empty_first', False), case.get('zeros', 0))
    dlname, decname = self.names(kind)
    root = mkdtemp('verif_c19_')
    try:
      if 'enumerate' in case:
        return self._enumerate(case, ctx, root, P, D)
      return self._schedule(case, ctx, root, P, D)
    finally:
      shutil.rmtree(root, ignore_errors=True)

  def _fresh(self, root, tag, kind, init, P, D):
    d = os.path.join(root, tag)
    if os.path.exists(d):
      shutil.rmtree(d)
    os.makedirs(d)
    self.populate(d, kind, init, P, D)
    return d

  def _clean_events(self, root, src_dir, kind, call, P, hard=False, hdr='ok', oserror_at=()):
    """Events of an uninterrupted run of `call` from the state of `src_dir` (on a copy)."""
    d = os.path.join(root, 'probe')
    if os.path.exists(d):
      shutil.rmtree(d)
    shutil.copytree(src_dir, d)
    inj = Injector(hard=hard, oserror_at=oserror_at)
    self._probe_pending = inj.pending_at
    sizes = []
    res = self.run_call(d, self.names(kind)[0], call, inj, P, sizes, hdr)
    shutil.rmtree(d)
    return inj.events, res, sizes

  def _complete_and_check(self, d, kind, P, D, probs, ctx):
    """Completed calls after the interruptions + reuse call. Appends (key, text) to probs."""
    dlname, decname = self.names(kind)
    calls = [0] if kind == 'raw' else [0, 1]
    for call in calls:
      what = CALLS[call]
      fn, pay = (dlname, P) if call == 0 else (decname, D)
      inj = Injector()
      res = self.run_call(d, dlname, call, inj, P, [])
      if res[0] != 'ok':
        probs.append((f'C19/{what}/not-repaired', f'completed {what} call after the interruptions raised {res[1]}'))
        return
      if os.path.abspath(res[1]) != os.path.abspath(os.path.join(d, fn)):
        probs.append((f'C19/{what}/wrong-path', f'{what} returned {res[1]}'))
        return
      with open(res[1], 'rb') as f:
        data = f.read()
      if data != pay:
        probs.append((f'C19/{what}/not-repaired',
                      f'completed {what} call returned a file with {len(data)} of {len(pay)} bytes'
                      + ('' if pay.startswith(data) else ' (corrupt)')))
        return
    # reuse: nothing may be touched
    for call in calls:
      what = CALLS[call]
      fn = dlname if call == 0 else decname
      st = os.stat(os.path.join(d, fn))
      inj = Injector()
      res = self.run_call(d, dlname, call, inj, P, [])
      st2 = os.stat(os.path.join(d, fn)) if os.path.exists(os.path.join(d, fn)) else None
      touched = ['request'] * self.last_requests
      if res[0] != 'ok' or touched or st2 is None or st2.st_mtime_ns != st.st_mtime_ns or st2.st_size != st.st_size \
          or st2.st_ino != st.st_ino:
        probs.append((f'C19/{what}/not-reused',
                      f'{what} of a complete cached file: result {res}, network accesses {len(touched)}, the cached file '
                      f'was {"left alone" if st2 is not None and st2.st_ino == st.st_ino and st2.st_mtime_ns == st.st_mtime_ns else "replaced or rewritten"} '
                      f'(effects {[e[0] for e in inj.events][:8]})'))
      ctx.count('reuse_calls')
    for p_ in self.oracle_state(d, kind, P, D):
      probs.append(p_)

  def _sizes_args(self, P, D, dl_block, dec_block):
    return [len(P), len(D), dl_block, dec_block]

  def _enumerate(self, case, ctx, root, P, D):
    kind, size, init, call = case['kind'], case['size'], case['init'], case['enumerate']
    dlname, decname = self.names(kind)
    base = self._fresh(root, 'base', kind, init, P, D)
    fs0, _ = self.observe(base, kind, P, D)
    events, res, rsizes = self._clean_events(root, base, kind, call, P)
    probs, corr = [], []
    zs = self._sizes_args(P, D, DL_BLOCK, CP_BLOCK)
    status, allowed, completed = self.allowed_finals(ctx, zs, call, fs0)
    if status == 'raises':
      # the model says the call raises and leaves the final names alone (compressed file missing)
      after, _ = self.observe(base, kind, P, D)
      if res[0] != 'raise':
        corr.append(f'model: call raises; impl: {res}')
      return Outcome(corr_fail='; '.join(corr) or None, nontrivial=False, tags=('enumerate', 'raises'),
                     detail={'impl': res, 'model': 'raises'})
    if res[0] != 'ok':
      probs.append((f'C19/{CALLS[call]}/clean-run-fails', f'uninterrupted {CALLS[call]} call: {res}'))
    fine = case.get('fine')
    points = []
    for c in range(len(events) + 1):
      if c < len(events) and events[c][0] == 'write':
        m = events[c][1][1]
        ps = prefixes(m)
        if fine and m > 8:
          ps = sorted(set(ps) | {m // 4, 3 * m // 4, m // 3, 2})
      else:
        ps = [0]
      for p in ps:
        points.append((c, p))
    # a survivable OSError at a publication step (rename / replace / move), then a crash at any later event of
    # the path the implementation takes from there (error handling, fall-backs, clean-up)
    double = []
    for r_, e in enumerate(events):
      if e[0] != 'rename':
        continue
      d = self._fresh(root, 'run', kind, init, P, D)
      pin = Injector(oserror_at=[r_])
      self.run_call(d, dlname, call, pin, P, [])
      for c in range(r_ + 1, len(pin.events) + 1):
        ps = [0]
        if c < len(pin.events) and pin.events[c][0] == 'write':
          ps = sorted({0, pin.events[c][1][1] // 2})
        double += [(c, p, r_) for p in ps]
    if len(double) > (30 if ctx.tier == 'quick' else 300):
      stepf = len(double) / float(30 if ctx.tier == 'quick' else 300)
      double = [double[int(i * stepf)] for i in range(30 if ctx.tier == 'quick' else 300)]
    first_bad = None
    want_completed = self.completed_finals(ctx, zs, kind, fs0)
    for (c, p, r_) in [(c, p, None) for (c, p) in points] + double:
      d = self._fresh(root, 'run', kind, init, P, D)
      before = self.finals_present(d, kind)
      inj = Injector(crash_at=c, prefix=p, oserror_at=[] if r_ is None else [r_])
      r = self.run_call(d, dlname, call, inj, P, [])
      listing, leftovers = self.observe(d, kind, P, D)
      st_probs = self.oracle_state(d, kind, P, D, before)
      if not st_probs and finals_of(listing) not in allowed:
        corr.append(f'after crash {(c, p)}: final names {finals_of(listing)} are not among the states the model '
                    f'allows {allowed}')
      cp = []
      self._complete_and_check(d, kind, P, D, cp, ctx)
      final_listing, _ = self.observe(d, kind, P, D)
      where = (f'crash at event {c} (+{p} bytes) of {CALLS[call]}' if r_ is None else
               f'{CALLS[call]}: event {r_} {events[r_]} raised OSError, then crash at event {c} (+{p} bytes)')
      if (st_probs or cp) and first_bad is None:
        evs = inj.events
        first_bad = {'crash_point': [c, p], 'oserror_at_event': r_, 'events_before': [list(map(str, e)) for e in evs[:c + 1]][-5:],
                     'finals_after_crash': finals_of(listing), 'other_files_after_crash': leftovers[:6],
                     'finals_after_completed_calls': finals_of(final_listing)}
        if r_ is not None:
          self._last_fail = {core.case_digest(case): ('double', c, p, r_, len(evs))}
      for key, txt in st_probs + cp:
        probs.append((key + ('-after-failed-publication' if r_ is not None else ''), f'{where}: {txt}'))
      if not (st_probs or cp) and want_completed is not None and finals_of(final_listing) != want_completed:
        corr.append(f'after crash {(c, p)} and the completed calls: final names {finals_of(final_listing)} vs model '
                    f'{want_completed}')
      ctx.count('crash_points' if r_ is None else 'double_fault_points')
      if len(probs) > 6:
        break
    if not probs:
      # hard-kill crash points: process death with unflushed data lost; close() is a crash point.
      # Judged by the independent oracle only (no model comparison).
      hev, _, _ = self._clean_events(root, base, kind, call, P, hard=True)
      pend = list(self._probe_pending)
      hpts = hard_points(hev, pend)
      limit = 40 if ctx.tier == 'quick' else 300
      if len(hpts) > limit:
        stepf = len(hpts) / float(limit)
        hpts = [hpts[int(i * stepf)] for i in range(limit)]
      for (c, f) in hpts:
        d = self._fresh(root, 'run', kind, init, P, D)
        before = self.finals_present(d, kind)
        inj = Injector(crash_at=c, hard=True, keep_frac=f)
        self.run_call(d, dlname, call, inj, P, [])
        listing, _ = self.observe(d, kind, P, D)
        st_probs = self.oracle_state(d, kind, P, D, before)
        cp = []
        self._complete_and_check(d, kind, P, D, cp, ctx)
        ctx.count('hard_kill_points')
        if (st_probs or cp) and first_bad is None:
          first_bad = {'hard_kill_before_event': c, 'event': [str(x) for x in hev[c]], 'of_events': len(hev),
                       'unflushed_bytes': pend[c], 'fraction_of_unflushed_bytes_on_disk': f,
                       'listing_after_kill': listing}
          self._last_fail = {core.case_digest(case): (c, f, len(hev))}
        for key, txt in st_probs + cp:
          probs.append((key, f'{CALLS[call]} killed before event {c} {hev[c]} with {pend[c]} unflushed bytes '
                             f'({int(f * 100)}% of them reached the disk): {txt}'))
        if len(probs) > 4:
          break
    if not probs:
      # I/O errors on the write side (ENOSPC, quota, EIO): OSError out of write() at every write index,
      # including the last one, before any byte and after half of the block.  Oracle only.
      for c, e in enumerate(events):
        if e[0] != 'write' or e[1][1] <= WRITE_BUFFER:
          continue        # a block that fits the writer's buffer reports its error at close(), not in write()
        for p in sorted({0, e[1][1] // 2}):
          d = self._fresh(root, 'run', kind, init, P, D)
          before = self.finals_present(d, kind)
          inj = Injector(crash_at=c, prefix=p, mode='ioerror')
          r = self.run_call(d, dlname, call, inj, P, [])
          listing, _ = self.observe(d, kind, P, D)
          st_probs = [(k + '-on-write-error', t) for k, t in self.oracle_state(d, kind, P, D, before)]
          cp = []
          self._complete_and_check(d, kind, P, D, cp, ctx)
          ctx.count('write_error_points')
          if (st_probs or cp) and first_bad is None:
            first_bad = {'OSError_from_write_event': c, 'event': [str(x) for x in e], 'bytes_written_before_the_error': p,
                         'result_of_the_call': list(r), 'listing_after': listing}
            self._last_fail = {core.case_digest(case): ('werr', c, p, len(events), e[1][1])}
          for key, txt in st_probs + cp:
            probs.append((key, f'{CALLS[call]}: write #{c} of {e[1][1]} bytes raised OSError after {p} bytes '
                               f'(call result {r[0]}): {txt}'))
        if len(probs) > 4:
          break
    key = probs[0][0] if probs else None
    tags = ('enumerate', f'kind={kind}', f'call={CALLS[call]}', self._size_tag(kind, size))
    return Outcome(oracle_fail='; '.join(t for _, t in probs[:3]) or None, corr_fail='; '.join(corr[:3]) or None,
                   key=key, nontrivial=len(points) > 3, tags=tags,
                   detail={'first_failing': first_bad, 'crash_points': len(points), 'double_fault_points': len(double),
                           'impl_events': [str(e) for e in events[:14]]})

  @staticmethod
  def _size_tag(kind, size):
    B = DL_BLOCK if kind == 'raw' else CP_BLOCK
    if size == 0:
      return 'size=0'
    if size < B:
      return 'size<block'
    if size == B:
      return 'size=block'
    return 'size=k*block' if size % B == 0 else 'size>block'

  def _schedule(self, case, ctx, root, P, D):
    kind, size, init = case['kind'], case['size'], case['init']
    dlname, decname = self.names(kind)
    d = self._fresh(root, 'run', kind, init, P, D)
    fs_model, _ = self.observe(d, kind, P, D)
    probs, corr, trace = [], [], []
    interrupted_late = False
    zs = self._sizes_args(P, D, DL_BLOCK, CP_BLOCK)
    for step in case['sched']:
      call, cf, pf, mode = step[:4]
      hdr = step[4] if len(step) > 4 and call == 0 and step[4] else 'ok'    # response variant of this download
      extra = step[5] if len(step) > 5 and isinstance(step[5], dict) else {}
      oserr = [int(x) for x in extra.get('oserror_at_events', [])]   # survivable OSErrors before the crash
      kill = mode in (2, 3)                # hard kill: unflushed data lost (fraction 0 / one half kept)
      events, res, rsizes = self._clean_events(root, d, kind, call, P, hard=kill, hdr=hdr, oserror_at=oserr)
      pend = list(self._probe_pending)
      c = (cf * (len(events) + 1)) // 1001
      if c < len(events) and events[c][0] == 'write' and not kill:
        p = (pf * events[c][1][1]) // 1000
      else:
        p = 0
      before = self.finals_present(d, kind)
      if kill:
        inj = Injector(crash_at=c, hard=True, keep_frac=0.0 if mode == 2 else 0.5, oserror_at=oserr)
        ctx.count('hard_kill_points')
      else:
        inj = Injector(crash_at=c, prefix=p, mode='ioerror' if mode == 1 else 'crash', oserror_at=oserr)
      r = self.run_call(d, dlname, call, inj, P, [], hdr)
      listing, leftovers = self.observe(d, kind, P, D)
      if any(e[0] in FS_KINDS for e in events[:c]) and inj.fired:
        interrupted_late = True
      vkind = parse_variant(hdr)[0]
      if hdr != 'ok':
        ctx.count({'none': 'headerless_responses', 'drop': 'dropped_connections', 'status': 'http_error_responses'}[vkind])
      if oserr:
        ctx.count('double_fault_points')
      st_probs = self.oracle_state(d, kind, P, D, before)
      for key, txt in st_probs:
        if (mode == 1 and inj.fired and c < len(events) and events[c][0] == 'write'
            and events[c][1][1] > WRITE_BUFFER):
          key += '-on-write-error'
        if vkind == 'drop':
          key += '-on-drop'
        elif vkind == 'status':
          key += '-on-http-error'
        if oserr:
          key += '-after-failed-publication'
        probs.append((key, (f'{CALLS[call]} killed before event {c} (unflushed data lost)' if kill else
                            f'{CALLS[call]} interrupted at event {c} (+{p} bytes)' if inj.fired else
                            f'{CALLS[call]} ran to its end (result {r[0]} {r[1] if r[0] == "raise" else ""})') +
                      (f' after event(s) {oserr} raised OSError' if oserr else '') +
                      describe_variant(hdr) + f': {txt}'))
      step_rec = {'call': CALLS[call], 'crash_point': [c, p], 'next_event': [str(x) for x in events[c]] if c < len(events) else None,
                  'fired': inj.fired, 'result': list(r), 'finals_after': finals_of(listing), 'other_files': leftovers[:6]}
      if hdr != 'ok':
        step_rec['response'] = describe_variant(hdr).lstrip(', ')
      if kill:
        step_rec['hard_kill'] = {'unflushed_bytes': pend[c] if c < len(pend) else 0, 'fraction_on_disk': 0.0 if mode == 2 else 0.5}
      if oserr:
        step_rec['oserror_at_events'] = oserr
      trace.append(step_rec)
      ordinary = hdr == 'ok' and not kill and not oserr
      if ordinary and not st_probs:
        # correspondence at the property's level: the final names are in a state the model allows at some
        # crash point of this call (for responses the model does not know, hard kills and double faults the
        # oracle above says the same thing directly)
        status, allowed, completed = self.allowed_finals(ctx, zs, call, fs_model)
        if status == 'raises':
          if r[0] not in ('raise', 'crash'):
            corr.append(f'model: {CALLS[call]} raises; impl: {r}')
        elif finals_of(listing) not in allowed:
          corr.append(f'after {CALLS[call]} crash {(c, p)}: final names {finals_of(listing)} are not among the states '
                      f'the model allows {allowed}')
          break
        elif not inj.fired and r[0] == 'ok' and finals_of(listing) != completed:
          corr.append(f'{CALLS[call]} ran to completion: final names {finals_of(listing)} vs model {completed}')
          break
      fs_model = listing
      ctx.count('crash_points')
    cp = []
    self._complete_and_check(d, kind, P, D, cp, ctx)
    probs += [(k, 'after the schedule: ' + t) for k, t in cp]
    final_listing, _ = self.observe(d, kind, P, D)
    if not corr and not probs:
      want = self.completed_finals(ctx, zs, kind, fs_model)
      if want is not None and finals_of(final_listing) != want:
        corr.append(f'after completed calls: final names {finals_of(final_listing)} vs model {want}')
    key = probs[0][0] if probs else None
    tags = ('schedule', f'kind={kind}', f'steps={len(case["sched"])}', self._size_tag(kind, size),
            f'init_dl={bool(init.get("dl"))}', f'stale_tmp={init.get("dlPart") is not None or init.get("decPart") is not None}')
    return Outcome(oracle_fail='; '.join(t for _, t in probs[:3]) or None, corr_fail='; '.join(corr[:3]) or None,
                   key=key, nontrivial=interrupted_late, tags=tags,
                   detail={'trace': trace, 'finals_at_the_end': finals_of(final_listing)})

PROPERTY = C19
