"""C12 — degenerate hyper-parameters reduce every algorithm to FedAvg."""
import sys

import numpy as np

from vlib import core
from vlib.core import Outcome
from props.c01 import Watchdog, close

KAPPA = 0.25
sys.set_int_max_str_digits(0)   # exact rationals of multi-round histories have thousands of digits
TOL = 2e-4

# few distinct configurations: every (kind, configuration) is one compiled algorithm object that is
# reused by all cases (JAX compilation dominates the run time)
OPTS = {  # name -> (client optimizer, server optimizer)
    'A': (['sgd', 0.25, 0.0], ['sgd', 1.0, 0.0]),
    'B': (['sgd', 0.125, 0.0], ['momentum', 0.5, 0.5]),
    'C': (['momentum', 0.125, 0.5], ['sgd', 0.5, 0.0]),
    'D': (['nesterov', 0.125, 0.5], ['nesterov', 0.5, 0.25]),
}
BATCHING = {  # name -> (batch size, epochs, steps, drop_remainder, seed)
    'e1': (2, 1, None, False, 3),
    'e2': (3, 2, None, False, 11),
    's3': (2, None, 3, False, 5),
    's1': (2, None, 1, False, 7),   # exactly one local step per (non-empty) client
    'e1d': (2, 1, None, True, 3),
}
KINDS = ('fedprox0', 'fedprox', 'hyp1', 'mimelite', 'apfl', 'mime')
LAMS = (0.0, 0.5)     # weight of the optional L2 regulariser lam/2*|w|^2
KIND_CODE = {'sgd': 0, 'momentum': 1, 'nesterov': 2}
HYP_KEY = 'C12/hyp-single/empty-cohort-stateful-server-opt'


def np_opt(spec):
  """sgd / momentum / nesterov exactly as optax defines them, in float64."""
  kind, lr, m = spec
  if kind == 'sgd':
    m = 0.0

  def init(p):
    return np.zeros_like(p)

  def apply(g, t, p):
    t2 = g + m * t
    u = g + m * t2 if kind == 'nesterov' else t2
    return t2, p - lr * u
  return init, apply


def bits(path):
  return [1 if b else 0 for b in path]


class C12(core.Property):
  ID = 'C12'
  RULE = ('histories of 1..3 rounds over cohorts of 1..4 clients with sizes 0..7 (fresh clients or a fixed population with '
          'repeated participation; always the latter for APFL), linear-regression loss (with a key-dependent term where the '
          'reduction must hold sample-wise, and an optional L2 regulariser passed through each algorithm\'s own regularizer / '
          'grad_fn argument), every algorithm constructed under the jit, debug and pmap (1..4 devices) for_each_client '
          'backends with cohorts in random or smallest-first order, 4 optimizer pairs x 5 batching hparams; six '
          'reductions: FedProx mu=0 / HypCluster K=1 / MimeLite sgd / APFL global vs the real FedAvg, FedProx mu>0 vs the '
          'FedAvg definition on the augmented loss, Mime one-step vs the full-batch step; non-trivial = parameters move by '
          '> 100x tolerance, >= 2 clients with different positive sizes in some round (and for mu>0 the proximal term '
          'changes the result by > 100x tolerance); distinct by case digest')
  TRUSTED = ['autodiff (jax.grad of the fixture loss and of the proximal term), optax optimizers, jax.random are externals',
             'the batches each client sees are recorded from the real shuffle_repeat_batch / padded_batch (C03/C04)']
  ASSUMPTIONS = ['the FedAvg side of a comparison runs on the default jit backend (backend independence of FedAvg is C01/C02)',
                 'Mime one-step with a key-dependent loss: the reference full-batch gradient uses the documented key chain '
                 'of the gradient pass (rng, use = split(rng) per batch from the client key)',
                 'HypCluster and APFL equal FedAvg sample-wise only for a loss that ignores its key (they train with a '
                 'different sub-key); they are compared with FedAvg on key-free losses and with their models on keyed ones',
                 'a cohort is non-empty (Mime/MimeLite raise TypeError on an empty cohort; the model answers err)']
  QUICK_BUDGET_S = 170
  THOROUGH_BUDGET_S = 900

  def setup(self, ctx):
    import jax
    import jax.numpy as jnp
    from fedjax.algorithms import fed_avg, fed_prox, hyp_cluster, mime, mime_lite, apfl
    from fedjax.core import client_datasets, optimizers, models
    from fedjax.core import for_each_client as fec
    self.jax, self.jnp, self.fec = jax, jnp, fec
    self.ndev = len(jax.local_devices())
    self.mods = dict(fed_avg=fed_avg, fed_prox=fed_prox, hyp_cluster=hyp_cluster, mime=mime,
                     mime_lite=mime_lite, apfl=apfl)
    self.cds, self.optimizers, self.models = client_datasets, optimizers, models
    self._algs = {}

    def make_pel(keyed):
      def pel(params, batch, rng):
        w = params['w']
        err = batch['x'] @ w - batch['y']
        loss = 0.5 * err * err
        if keyed:
          loss = loss + KAPPA * jnp.dot(jax.random.normal(rng, w.shape), w)
        return loss
      return pel

    self.pel = {False: make_pel(False), True: make_pel(True)}

    def make_reg(lam):
      if not lam:
        return None
      return lambda params: 0.5 * lam * jnp.sum(jnp.square(params['w']))

    self.reg = {lam: make_reg(lam) for lam in LAMS}
    # grad_fn of "mean example loss + regulariser" for the algorithms that take a grad_fn (FedAvg, APFL)
    self.grad_fn = {(k, lam): models.grad(v, self.reg[lam]) for k, v in self.pel.items() for lam in LAMS}

    class RecDataset(client_datasets.ClientDataset):
      """Records the batches the algorithm actually consumed (training and padded passes)."""

      def __init__(self, raw, train_log, pad_log):
        super().__init__(raw)
        self._tl, self._pl = train_log, pad_log

      def _wrap(self, view, log):
        class V:
          def __iter__(self_inner):
            log.clear()
            for b in view:
              log.append({k: np.array(v) for k, v in b.items()})
              yield b
        return V()

      def shuffle_repeat_batch(self, hparams=None, **kwargs):
        return self._wrap(super().shuffle_repeat_batch(hparams, **kwargs), self._tl)

      def padded_batch(self, hparams=None, **kwargs):
        return self._wrap(super().padded_batch(hparams, **kwargs), self._pl)

    self.RecDataset = RecDataset

  # ------------------------------------------------------------------ algorithms (cached)
  def mk_opt(self, spec):
    o = self.optimizers
    kind, lr, m = spec
    if kind == 'sgd':
      return o.sgd(lr)
    return o.sgd(lr, momentum=m, nesterov=(kind == 'nesterov'))

  def hparams(self, name):
    bs, ep, st, drop, seed = BATCHING[name]
    return self.cds.ShuffleRepeatBatchHParams(batch_size=bs, num_epochs=ep, num_steps=st,
                                              drop_remainder=drop, seed=seed)

  def backend_of(self, kind, case):
    """The for_each_client backend the algorithm is CONSTRUCTED under.  The FedAvg of the comparison always
    runs on the default jit backend (its backend independence is C01/C02)."""
    b = case.get('backend', 'jit')
    if kind == 'fedavg' or b == 'jit':
      return 'jit', 'jit'
    if b == 'debug':
      return 'debug', 'debug'
    D = max(1, min(int(case.get('D', 1)), self.ndev))
    return ('pmap', D), self.fec.ForEachClientPmapBackend(self.jax.local_devices()[:D])

  def alg(self, kind, case):
    keyed, lam = case['keyed'], case.get('lam', 0.0)
    copt, sopt = case['copt'], case['sopt']
    bkey, backend = self.backend_of(kind, case)
    key = (kind, keyed, lam, bkey, tuple(copt), tuple(sopt), case['batching'], case.get('mu'), case.get('lr'),
           case.get('clip'))
    shared = getattr(self, '_shared', None) if kind in ('fedprox0', 'fedprox') else None
    if shared is None and key in self._algs:
      return self._algs[key]
    if shared is not None and key in shared['algs']:
      return shared['algs'][key]
    m, hp = self.mods, self.hparams(case['batching'])
    php = self.cds.PaddedBatchHParams(batch_size=2)
    reg = self.reg[lam]
    with self.fec.for_each_client_backend(backend):
      if kind == 'fedavg':
        a = m['fed_avg'].federated_averaging(self.grad_fn[(keyed, lam)], self.mk_opt(copt), self.mk_opt(sopt), hp)
      elif kind in ('fedprox0', 'fedprox'):
        # in a sweep every fed_prox is built from the same loss function object and the same client Optimizer object
        a = m['fed_prox'].fed_prox(self.pel[keyed], shared['copt'] if shared else self.mk_opt(copt), self.mk_opt(sopt), hp,
                                   case['mu'])
      elif kind == 'hyp1':
        a = m['hyp_cluster'].hyp_cluster(self.pel[keyed], self.mk_opt(copt), self.mk_opt(sopt), php, hp,
                                         regularizer=reg)
      elif kind == 'mimelite':
        # `clip`: None, or a "no clipping" bound of a sweep ('inf', 1e30, 1e39 = inf in float32): the reduction to FedAvg
        # must hold for all of them
        clip = None if case.get('clip') is None else float(case['clip'])
        a = m['mime_lite'].mime_lite(self.pel[keyed], self.mk_opt(copt), hp, php, case['lr'], regularizer=reg,
                                     client_delta_clip_norm=clip)
      elif kind == 'mime':
        a = m['mime'].mime(self.pel[keyed], self.mk_opt(copt), hp, php, case['lr'], regularizer=reg)
      elif kind == 'apfl':
        a = m['apfl'].adaptive_personalized_federated_learning(self.grad_fn[(keyed, lam)], self.mk_opt(copt),
                                                                self.mk_opt(sopt), hp, 0.5)
      else:
        raise ValueError(kind)
    if shared is not None:
      shared['algs'][key] = a
    else:
      self._algs[key] = a
    return a

  # ------------------------------------------------------------------ generation
  def gen_cases(self, rng, tier):
    n = 96 if tier == "quick" else 2400
    yield {'kind': 'mime_empty', 'which': 'mime'}
    yield {'kind': 'mime_empty', 'which': 'mimelite'}
    for i in range(n):
      kind = KINDS[i % len(KINDS)]
      d = 2
      def new_client(c, empty=False):
        n_ex = 0 if empty else rng.choice([0, 1, 2, 3, 4, 5, 7])
        return {'id': rng.randrange(0, 50) * 10 + c,
                'x': [[rng.choice([-1, 0, 1, 2]) for _ in range(d)] for _ in range(n_ex)],
                'y': [rng.choice([-2, -1, 0, 1, 3]) for _ in range(n_ex)]}

      rounds = []
      # a fixed small population with repeated participation (always for APFL, whose per-client state only matters
      # from a client's second participation on), or fresh clients every round
      population = [new_client(c) for c in range(4)] if (kind == 'apfl' or rng.random() < 0.4) else None
      for r in range(rng.choice([2, 3, 3]) if kind == 'apfl' else rng.choice([1, 2, 2, 3])):
        all_empty = rng.random() < (0.2 if kind == 'hyp1' else 0.06)
        k = rng.choice([1, 2, 3, 3, 4])
        if all_empty:
          cohort = [new_client(c, empty=True) for c in range(k)]
        elif population is not None:
          cohort = [dict(population[j]) for j in rng.sample(range(4), k)]
        else:
          cohort = [new_client(c) for c in range(k)]
        rounds.append(cohort)
      oname = rng.choice(sorted(OPTS))
      copt, sopt = OPTS[oname]
      batching = rng.choice(['e1', 'e2', 's3', 'e1d'])
      case = {'kind': kind, 'd': d, 'w0': [rng.choice([-1, 0, 1, 2]) for _ in range(d)], 'copt': list(copt),
              'sopt': list(sopt), 'batching': batching, 'rounds': rounds, 'key_seed': rng.randrange(1000),
              'keyed': rng.random() < 0.5,
              # the optional regulariser (FedProx takes none), the backend the algorithm is built under, device count
              'lam': 0.0 if kind in ('fedprox0', 'fedprox') or rng.random() < 0.55 else 0.5,
              # every kind meets every backend: the pattern advances once per cycle through the kinds
              'backend': ('jit', 'pmap', 'debug', 'jit', 'pmap', 'jit')[(i // len(KINDS)) % 6],
              'D': rng.choice([1, 2, 3, 4])}
      if case['backend'] == 'pmap':
        # the pmap backend re-orders clients by decreasing number of batches: give it cohorts whose clients differ in
        # their number of batches (epoch-based batching) and, half of the time, list them smallest first
        case['batching'] = rng.choice(['e1', 'e2', 'e1d'])
        if rng.random() < 0.5:
          case['rounds'] = [sorted(co, key=lambda c: len(c['y'])) for co in rounds]
      if kind != 'hyp1' and case['backend'] != 'pmap' and rng.random() < 0.3:
        # the same client listed twice in a cohort (same id, same data, its own key): FedAvg counts every listed entry
        # in numerator and denominator, so must every reduction
        ri = rng.randrange(len(case['rounds']))
        co = list(case['rounds'][ri])
        if co:
          co.insert(rng.randrange(len(co) + 1), dict(rng.choice(co)))
          case['rounds'] = case['rounds'][:ri] + [co] + case['rounds'][ri + 1:]
      if kind == 'fedprox0':
        case['mu'] = 0.0
      elif kind == 'fedprox':
        case['mu'] = rng.choice([0.5, 1.0, 0.25])
      if kind in ('fedprox0', 'fedprox') and rng.random() < 0.6:
        # several fed_prox algorithms built one after the other from the SAME per_example_loss function object and the
        # SAME client Optimizer object, with different proximal weights in varying order (a sweep over mu): each one
        # must be the FedAvg of its own augmented loss
        others = rng.sample([m for m in (0.0, 0.5, 1.0, 2.0) if m != case['mu']], rng.choice([1, 2]))
        mus = others + [case['mu']]
        rng.shuffle(mus)
        case['mus'] = mus
      if kind == 'hyp1':
        if rng.random() < 0.5:
          case['sopt'] = list(OPTS[rng.choice(['B', 'D'])][1])
      elif kind == 'mimelite':
        # base optimizer plain SGD; the property names server learning rate 1 (general rate: theorem _sgd_lr)
        case['copt'] = ['sgd', rng.choice([0.25, 0.125]), 0.0]
        case['lr'] = rng.choice([1.0, 1.0, 0.5])
        case['sopt'] = ['sgd', case['lr'], 0.0]
        case['clip'] = rng.choice([None, None, 'inf', 1e30, 1e39])
      elif kind == 'mime':
        case['lr'] = rng.choice([1.0, 0.5])
        if rng.random() < 0.6:
          case['copt'] = ['sgd', rng.choice([0.25, 0.125]), 0.0]
          case['batching'] = 's1'
        case['sopt'] = ['sgd', case['lr'], 0.0]
      yield case

  def shrink(self, case):
    if case['kind'] == 'mime_empty':
      return
    rs = case['rounds']
    if len(rs) > 1:
      yield {**case, 'rounds': rs[:-1]}
      yield {**case, 'rounds': rs[1:]}
    for ri, cohort in enumerate(rs):
      if len(cohort) > 1:
        for ci in range(len(cohort)):
          yield {**case, 'rounds': rs[:ri] + [cohort[:ci] + cohort[ci + 1:]] + rs[ri + 1:]}
    for ri, cohort in enumerate(rs):
      for ci, c in enumerate(cohort):
        if len(c['y']) > 1:
          c2 = {**c, 'x': c['x'][:-1], 'y': c['y'][:-1]}
          yield {**case, 'rounds': rs[:ri] + [cohort[:ci] + [c2] + cohort[ci + 1:]] + rs[ri + 1:]}
    if case['keyed']:
      yield {**case, 'keyed': False}
    if case.get('lam'):
      yield {**case, 'lam': 0.0}
    if case.get('clip') is not None:
      yield {**case, 'clip': None}
    if case.get('mus') and len(case['mus']) > 1:
      for i in range(len(case['mus'])):
        yield {**case, 'mus': case['mus'][:i] + case['mus'][i + 1:]}
    if case.get('backend', 'jit') != 'jit':
      yield {**case, 'backend': 'jit'}
    elif False:
      pass
    if case.get('backend') == 'pmap' and case.get('D', 1) > 1:
      yield {**case, 'D': 1}

  # ------------------------------------------------------------------ running the real code
  def _clients(self, case, ri):
    jax = self.jax
    cohort = case['rounds'][ri]
    d = case['d']
    keys = jax.random.split(jax.random.PRNGKey(case['key_seed'] + ri), max(1, len(cohort)))
    tl = [[] for _ in cohort]
    pl = [[] for _ in cohort]
    clients = []
    for j, c in enumerate(cohort):
      raw = {'x': np.asarray(c['x'], dtype=np.float32).reshape(len(c['y']), d),
             'y': np.asarray(c['y'], dtype=np.float32)}
      clients.append((c['id'], self.RecDataset(raw, tl[j], pl[j]), keys[j]))
    return clients, keys, tl, pl

  def run_real(self, kind, case):
    """Runs the real algorithm `kind` over the case's history. Returns per-round
    (params, momentum trace or None, raw state) and the recorded batches / keys."""
    jnp = self.jnp
    alg = self.alg(kind, case)
    w0 = {'w': jnp.asarray(case['w0'], dtype=jnp.float32)}
    state = alg.init([w0] if kind == 'hyp1' else w0)
    out, logs = [], []
    for ri in range(len(case['rounds'])):
      clients, keys, tl, pl = self._clients(case, ri)
      with Watchdog(30):
        state, diag = alg.apply(state, clients)
      if kind == 'hyp1':
        params, opt = state.cluster_params[0]['w'], state.opt_states[0]
      else:
        params, opt = state.params['w'], state.opt_state
      tr = [np.asarray(l, np.float64) for l in self.jax.tree_util.tree_leaves(opt)
            if np.asarray(l).shape == (case['d'],)]
      out.append((np.asarray(params, np.float64), tr[0] if tr else None, state, diag))
      logs.append({'keys': keys, 'train': [list(x) for x in tl], 'pad': [list(x) for x in pl]})
    return out, logs

  # ------------------------------------------------------------------ documented key chains -> noise tables
  def _normal(self, key, d):
    return KAPPA * np.asarray(self.jax.random.normal(key, (d,)), dtype=np.float64)

  def chain_binary(self, key, path, n, d):
    """[(path of use-key, noise)] for `rng, use = split(rng)` repeated n times starting from key/path."""
    res = []
    for _ in range(n):
      nxt, use = self.jax.random.split(key)
      res.append((path + [True], self._normal(use, d)))
      key, path = nxt, path + [False]
    return res

  def chain_apfl(self, key, path, n, d):
    res = []
    for _ in range(n):
      nxt, srv, cli = self.jax.random.split(key, 3)
      res.append((path + [False, True], self._normal(srv, d)))
      res.append((path + [True, False], self._normal(cli, d)))
      key, path = nxt, path + [False, False]
    return res

  @staticmethod
  def client_path(j):
    return [True] * j + [False]

  def rows(self, b):
    """real rows `x ++ [y]` of a (possibly padded) batch"""
    mask = b.get(self.cds.EXAMPLE_MASK_KEY)
    res = []
    for i in range(b['x'].shape[0]):
      if mask is None or bool(mask[i]):
        res.append([float(v) for v in b['x'][i]] + [float(b['y'][i])])
    return res

  def model_cohorts(self, kind, case, logs):
    """protocol encoding of the history: per round [clients, noise table]"""
    d = case['d']
    res = []
    for ri, cohort in enumerate(case['rounds']):
      lg = logs[ri]
      cl, tab = [], []
      for j, c in enumerate(cohort):
        path = self.client_path(j)
        train = [self.rows(b) for b in lg['train'][j]]
        pad = [self.rows(b) for b in lg['pad'][j]]
        entry = [c['id'], len(c['y']), train, bits(path)]
        n = max(len(train), len(pad)) + 1
        if kind in ('mimelite', 'mime'):
          entry.append([[rows, len(rows)] for rows in pad])
        elif kind == 'hyp1':
          entry.append([list(map(float, x)) + [float(y)] for x, y in zip(c['x'], c['y'])])
        if case['keyed']:
          if kind == 'hyp1':
            k1 = self.jax.random.split(lg['keys'][j])[1]
            tab += self.chain_binary(k1, path + [True], n, d)
          elif kind == 'apfl':
            tab += self.chain_apfl(lg['keys'][j], path, n, d)
          else:
            tab += self.chain_binary(lg['keys'][j], path, n, d)
        cl.append(entry)
      res.append([cl, [[bits(p), [float(v) for v in nz]] for p, nz in tab]])
    return res

  # ------------------------------------------------------------------ independent references (numpy, float64)
  def ref_fedavg(self, case, logs, mu=0.0):
    """The FedAvg definition run with the gradient of `loss + mu/2 |p - server|^2`, on the recorded
    batches, with the documented FedAvg key chain for the key-dependent term."""
    d = case['d']
    cinit, capply = np_opt(case['copt'])
    sinit, sapply = np_opt(case['sopt'])
    w = np.asarray(case['w0'], np.float64)
    st = sinit(w)
    out = []
    for ri, cohort in enumerate(case['rounds']):
      lg = logs[ri]
      num = np.zeros(d)
      tot = 0.0
      for j, c in enumerate(cohort):
        batches = lg['train'][j]
        noise = [nz for _, nz in self.chain_binary(lg['keys'][j], [], len(batches), d)] if case['keyed'] else None
        p, o = w.copy(), cinit(w)
        for t, b in enumerate(batches):
          x, y = np.asarray(b['x'], np.float64), np.asarray(b['y'], np.float64)
          g = np.mean((x @ p - y)[:, None] * x, axis=0) + mu * (p - w)
          if noise is not None:
            g = g + noise[t]
          o, p = capply(g, o, p)
        num += len(c['y']) * (w - p)
        tot += len(c['y'])
      mean = num / tot if tot > 0 else np.zeros(d)
      st, w = sapply(mean, st, w)
      out.append(w.copy())
    return out

  def ref_mime_one_step(self, case, logs):
    """p - lr_server * lr * G with G the gradient, at the server params, of
    `mean loss over all examples of the cohort + regulariser` — the regulariser's gradient exactly once.  For the
    key-dependent loss the full-batch pass adds, per gradient batch b of client j, the noise of its key (documented
    chain `rng, use = split(rng)` from the client key) with weight |b|/N."""
    d = case['d']
    lam = case.get('lam', 0.0)
    w = np.asarray(case['w0'], np.float64)
    out = []
    for ri, cohort in enumerate(case['rounds']):
      xs = [r for c in cohort for r in c['x']]
      ys = [v for c in cohort for v in c['y']]
      if xs:
        x, y = np.asarray(xs, np.float64), np.asarray(ys, np.float64)
        G = np.mean((x @ w - y)[:, None] * x, axis=0) + lam * w
        if case['keyed']:
          for j, c in enumerate(cohort):
            pads = logs[ri]['pad'][j]
            for (_, nz), b in zip(self.chain_binary(logs[ri]['keys'][j], [], len(pads), d), pads):
              G = G + (len(self.rows(b)) / len(xs)) * nz
      else:
        G = np.zeros_like(w)
      w = w - case['lr'] * case['copt'][1] * G
      out.append(w.copy())
    return out

  # ------------------------------------------------------------------ evaluation
  def _eval_empty(self, case, ctx):
    """An empty cohort is outside the property (a round trains sampled clients).  The model records that the code
    rejects it; this probe only ties that branch to the code: the implementation either rejects the call (any
    exception) or returns a finite state — neither is an alarm."""
    which = case['which']
    c = {'kind': which, 'keyed': False, 'copt': ['sgd', 0.25, 0.0], 'sopt': ['sgd', 1.0, 0.0], 'batching': 'e1',
         'lr': 1.0}
    alg = self.alg(which, c)
    st = alg.init({'w': self.jnp.asarray([1.0, -1.0], dtype=self.jnp.float32)})
    try:
      new, _ = alg.apply(st, [])
      impl = 'ok' if np.all(np.isfinite(np.asarray(new.params['w']))) else 'non-finite'
    except Exception:   # noqa  (which exception is not specified)
      impl = 'err'
    op = 'c12.mime' if which == 'mime' else 'c12.mimelite'
    args = [False] + ([None] if which == 'mimelite' else []) + [[0, 0.25, 0.0], 1.0, [1.0, -1.0], [[[], []]]]
    mod = ctx.drv.ask1(op, *args)
    mod = 'err' if mod == 'err' else 'ok'
    ctx.count('empty_cohort_error_enum_checked')
    return Outcome(corr_fail=(f'{which} on an empty cohort returned non-finite params' if impl == 'non-finite' else None),
                   nontrivial=False, tags=(f'kind=mime_empty/{which}', f'empty_cohort_impl={impl}', f'model={mod}'))

  def evaluate(self, case, ctx):
    if case['kind'] in ('fedprox0', 'fedprox') and case.get('mus'):
      # a sweep: all algorithms are built first (shared loss / client optimizer objects), then each is judged
      self._shared = {'copt': self.mk_opt(case['copt']), 'algs': {}}
      try:
        subs = [{**{k: v for k, v in case.items() if k != 'mus'}, 'mu': mu, 'kind': 'fedprox0' if mu == 0 else 'fedprox'}
                for mu in case['mus']]
        for sub in subs:
          self.alg(sub['kind'], sub)
        last = None
        for i, sub in enumerate(subs):
          out = self._evaluate(sub, ctx)
          if out.oracle_fail or out.corr_fail:
            note = f'[fed_prox #{i + 1} of a sweep built with proximal weights {case["mus"]} on one loss/optimizer object, mu={sub["mu"]}] '
            return Outcome(oracle_fail=note + out.oracle_fail if out.oracle_fail else None,
                           corr_fail=note + out.corr_fail if out.corr_fail else None, key=out.key,
                           nontrivial=out.nontrivial, tags=out.tags + ('sweep=True',), detail=out.detail)
          last = out if (last is None or out.nontrivial) else last
        return Outcome(nontrivial=last.nontrivial, tags=last.tags + (f'sweep={len(subs)}',), detail=last.detail)
      finally:
        self._shared = None
    return self._evaluate(case, ctx)

  def _evaluate(self, case, ctx):
    kind = case['kind']
    if kind == 'mime_empty':
      return self._eval_empty(case, ctx)
    d = case['d']
    tags = [f'kind={kind}', f'keyed={case["keyed"]}', f'copt={case["copt"][0]}', f'sopt={case["sopt"][0]}',
            f'batching={case["batching"]}', f'rounds={len(case["rounds"])}', f'backend={case.get("backend", "jit")}',
            f'regulariser={bool(case.get("lam"))}']
    if kind == 'mimelite':
      tags.append(f'clip={case.get("clip")}')
    totals = [sum(len(c['y']) for c in co) for co in case['rounds']]
    tags.append(f'all_empty_round={any(t == 0 for t in totals)}')
    try:
      out, logs = self.run_real(kind, case)
    except TimeoutError:
      return Outcome(oracle_fail=f'{kind}: the round never returns (watchdog)', key=f'C12/{kind}/hang', tags=tuple(tags))
    except Exception as e:
      return Outcome(oracle_fail=f'{kind}: round raised {type(e).__name__}: {str(e)[:160]}',
                     key=f'C12/{kind}/raises-{type(e).__name__}', tags=tuple(tags))
    scale = max([float(np.max(np.abs(case['w0'])))] + [float(np.max(np.abs(o[0]))) for o in out])
    if not all(np.all(np.isfinite(o[0])) for o in out):
      bad = next(i for i, o in enumerate(out) if not np.all(np.isfinite(o[0])))
      return Outcome(oracle_fail=f'round {bad}: {kind} server params {out[bad][0].tolist()} are not finite (FedAvg on the same '
                     f'finite inputs is){"; client_delta_clip_norm=" + str(case.get("clip")) if kind == "mimelite" else ""}',
                     key=f'C12/{kind}/non-finite', tags=tuple(tags))
    problems, corr, key = [], [], None
    detail = {'impl': [o[0].tolist() for o in out]}

    # ---------------- independent oracle: the reduction claimed by the property
    reference, ref_name = None, None
    oracle_applies = True
    if kind in ('fedprox0', 'hyp1', 'mimelite', 'apfl'):
      if kind in ('hyp1', 'apfl') and case['keyed']:
        oracle_applies = False     # different sub-key: equality only in distribution; model comparison only
      else:
        fa, fa_logs = self.run_real('fedavg', case)
        reference, ref_name = [o[0] for o in fa], 'real FedAvg'
        self._fa = (fa, fa_logs)
        for ri in range(len(out)):
          same = len(fa_logs[ri]['train']) == len(logs[ri]['train']) and all(
              len(a) == len(b) and all(np.array_equal(u['x'], v['x']) and np.array_equal(u['y'], v['y'])
                                       for u, v in zip(a, b))
              for a, b in zip(fa_logs[ri]['train'], logs[ri]['train']))
          if not same:
            problems.append(f'round {ri}: {kind} and FedAvg did not see the same training batches (same hparams/seed)')
            break
    elif kind == 'fedprox':
      reference, ref_name = self.ref_fedavg(case, logs, mu=case['mu']), 'FedAvg definition on the augmented loss'
    elif kind == 'mime':
      if case['batching'] == 's1' and case['copt'][0] == 'sgd':
        reference, ref_name = self.ref_mime_one_step(case, logs), 'one full-batch gradient step'
      else:
        oracle_applies = False
    if reference is not None and not problems:
      detail['reference'] = [np.asarray(r).tolist() for r in reference]
      for ri in range(len(out)):
        scale = max(scale, float(np.max(np.abs(reference[ri]))))
        if not close(out[ri][0], reference[ri], scale):
          problems.append(f'round {ri}: {kind} server params {out[ri][0].tolist()} != {ref_name} '
                          f'{np.asarray(reference[ri]).tolist()}')
          if kind == 'hyp1' and totals[ri] == 0 and case['sopt'][0] != 'sgd' and \
              (ri == 0 or close(out[ri][0], out[ri - 1][0], scale)):
            # the cohort saw no example: HypCluster skipped the update, FedAvg applied a zero update
            # through the stateful server optimizer
            key = HYP_KEY
          break
    # non-triviality
    moved = any(np.max(np.abs(o[0] - np.asarray(case['w0']))) > 100 * TOL * (1 + scale) for o in out)
    mixed = any(len({len(c['y']) for c in co if len(c['y']) > 0}) >= 2 for co in case['rounds'])
    nontrivial = bool(moved and mixed and oracle_applies)
    if kind == 'fedprox' and nontrivial:
      plain = self.ref_fedavg(case, logs, mu=0.0)
      nontrivial = any(np.max(np.abs(a - b)) > 100 * TOL * (1 + scale) for a, b in zip(plain, reference))
    if oracle_applies:
      ctx.count(f'oracle_{kind}')

    # ---------------- correspondence with the Lean model of the algorithm
    if not problems:
      mc = self.model_cohorts(kind, case, logs)
      oc = [KIND_CODE[case['copt'][0]], case['copt'][1], case['copt'][2]]
      os_ = [KIND_CODE[case['sopt'][0]], case['sopt'][1], case['sopt'][2]]
      w0 = [float(v) for v in case['w0']]
      keyed = [case['keyed'], case.get('lam', 0.0)]      # loss spec of the model: key-dependent term, L2 weight
      if kind in ('fedprox0', 'fedprox'):
        ans = ctx.drv.ask1('c12.fedprox', keyed, case['mu'], oc, os_, w0, mc)
      elif kind == 'hyp1':
        ans = [r[0][0] for r in ctx.drv.ask1('c12.hyp', keyed, oc, os_, [w0], mc)]
      elif kind == 'mimelite':
        # the model clips with a rational bound: an infinite bound is a bound above every norm
        mclip = None if case.get('clip') is None else (float(case['clip']) if float(case['clip']) < 1e31 else 10 ** 60)
        ans = ctx.drv.ask1('c12.mimelite', keyed, mclip, oc, case['lr'], w0, mc)
      elif kind == 'mime':
        ans = ctx.drv.ask1('c12.mime', keyed, oc, case['lr'], w0, mc)
      else:
        ans = ctx.drv.ask1('c12.apfl', keyed, oc, os_, 0.5, [d], w0, mc)
      if ans == 'err':
        corr.append(f'{kind}: model says the code rejects this input, the implementation ran')
      else:
        detail['model'] = [[float(v) for v in r[0]] for r in ans]
        for ri, r in enumerate(ans):
          mp, mo = [float(v) for v in r[0]], [float(v) for v in r[1]]
          if not close(out[ri][0], mp, scale):
            corr.append(f'round {ri}: {kind} model params {mp} vs impl {out[ri][0].tolist()}')
            break
          # (the optimizer state is not compared: its representation is optax's / the algorithm's business; a wrong
          # state shows in the next round's params)
      ctx.count(f'model_{kind}')
      # ... and the real FedAvg of the comparison with the FedAvg model (same encoding)
      if reference is not None and ref_name == 'real FedAvg' and not corr:
        fa, fa_logs = self._fa
        fans = ctx.drv.ask1('c12.fedavg', keyed, oc, os_, w0, self.model_cohorts('fedavg', case, fa_logs))
        for ri, r in enumerate(fans):
          if not close(fa[ri][0], [float(v) for v in r[0]], scale):
            corr.append(f'round {ri}: FedAvg model params {[float(v) for v in r[0]]} vs real FedAvg {fa[ri][0].tolist()}')
            break
        ctx.count('model_fedavg')
    return Outcome(oracle_fail='; '.join(problems[:2]) or None, corr_fail='; '.join(corr[:2]) or None, key=key,
                   nontrivial=nontrivial, tags=tuple(tags), detail=detail)


PROPERTY = C12
