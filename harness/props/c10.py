"""C10 — a training round is a pure function of (server state, clients).

What is decided here and not by a theorem (the property is *partial*): that the real `apply` of the
seven built-in algorithms and of the compression aggregators does not write into the caller's
containers, does not delete (donate) the caller's buffers and keeps no state outside its arguments.
Every generated multi-round history with repeated participation is run on ONE algorithm / aggregator
object (hidden state may depend on what that object did last), in four passes:
  (1) the ordinary training loop: every state object returned by `apply` is fed straight back into the
      next `apply`, nothing in between but reads; every state is KEPT together with a deep value snapshot
      (every array leaf is read, so a deleted buffer shows) and the identities of its containers, and
      after every round ALL kept states are compared with their snapshots;
  (2) every kept round is applied again from its kept state and compared bit for bit (state and
      diagnostics) with what it returned originally; all kept states are re-checked after each call;
  (3) serialised copies (pickle / fedjax save_state+load_state / msgpack leaves) of every kept state are
      applied, and from one branch point a second history is continued on a SECOND object from the
      restored copy and compared round by round;
  (4) the loop is run a second time from the kept initial state; before one round a round whose k-th
      client cannot be read raises half way: its input must be untouched and the retry must reproduce the
      failure-free history.
Once per run the same histories (bytes / str / tuple client ids) are also run in two fresh interpreters
that differ only in PYTHONHASHSEED and compared bit for bit.
These are the independent oracle of the property.  The modelled part (Lean: APFL table, compression
state/keys, agnostic window, FedAvg round) is compared with the compiled model on the same histories.
"""
import collections.abc
import dataclasses
import hashlib
import json
import math
import os
import pickle
import subprocess
import sys
import tempfile

import numpy as np

from vlib import core
from vlib.core import Outcome
from props.c01 import Watchdog

KAPPA = 0.25
ALGS = ('fedavg', 'fedprox', 'mime', 'mimelite', 'agnostic', 'hypcluster', 'apfl')
AGGS = ('uniform', 'uniform_arith', 'rotated', 'drive', 'terngrad')
CODECS = ('pickle', 'file', 'msgpack')
D = 2                 # parameter dimension of the algorithm fixture
COPT = ['sgd', 0.125, 0.0]
SOPT = ['momentum', 0.5, 0.5]
C0 = 0.5              # APFL initial interpolation coefficient


class Unreadable(Exception):
  pass


def snap(obj):
  """Deep value copy of a state / diagnostics / cohort: nested tuples with array leaves as bytes.

  Reads every array leaf, so a donated (deleted) buffer raises Unreadable.  Dict order is not part of
  the value, nor is the concrete mapping / sequence type."""
  if obj is None or isinstance(obj, (bool, int, float, str, bytes)):
    return ('py', type(obj).__name__, repr(obj))
  if dataclasses.is_dataclass(obj) and not isinstance(obj, type):
    return ('dc', type(obj).__name__,
            tuple((f.name, snap(getattr(obj, f.name))) for f in dataclasses.fields(obj)))
  if isinstance(obj, collections.abc.Mapping):
    # dict, haiku FlatMapping, MappingProxyType, ...: a table of values.  The concrete mapping type is not part of the
    # value (pickle restores a FlatMapping as a dict; ignore_grads_haiku turns a dict into a FlatMapping).
    return ('map', tuple(sorted(((repr(k), snap(obj[k])) for k in obj), key=lambda kv: kv[0])))
  if isinstance(obj, (list, tuple)):
    return ('seq', tuple(snap(v) for v in obj))
  if not hasattr(obj, 'shape') and not hasattr(obj, 'dtype'):
    # any other container registered as a pytree node: its children in flatten order
    try:
      import jax
      leaves, treedef = jax.tree_util.tree_flatten(obj)
      if not (len(leaves) == 1 and leaves[0] is obj):
        return ('node:' + type(obj).__name__, str(treedef), tuple(snap(l) for l in leaves))
    except Exception:
      pass
  if hasattr(obj, 'is_deleted'):
    try:
      if obj.is_deleted():
        raise Unreadable('array leaf was deleted (buffer donated)')
    except Unreadable:
      raise
    except Exception as e:  # pragma: no cover
      raise Unreadable(f'array leaf unusable: {type(e).__name__}')
  try:
    a = np.asarray(obj)
  except Exception as e:
    raise Unreadable(f'array leaf cannot be read: {type(e).__name__}: {str(e)[:80]}')
  if a.dtype == object:
    raise Unreadable(f'unsupported leaf {type(obj).__name__}')
  return ('arr', str(a.dtype), a.shape, a.tobytes())


def first_diff(a, b, path='state'):
  """Human-readable location of the first difference between two snapshots."""
  if a == b:
    return None
  if a[0] != b[0] or a[0] in ('py',):
    return f'{path}: {a[:3] if a[0] == "py" else a[0]} vs {b[:3] if b[0] == "py" else b[0]}'
  if a[0] == 'arr':
    if a[1:3] != b[1:3]:
      return f'{path}: array {a[1]}{a[2]} vs {b[1]}{b[2]}'
    va = np.frombuffer(a[3], dtype=a[1]).reshape(a[2])
    vb = np.frombuffer(b[3], dtype=b[1]).reshape(b[2])
    return f'{path}: {va.tolist()} vs {vb.tolist()}'
  if a[0] == 'dc':
    if a[1] != b[1]:
      return f'{path}: {a[1]} vs {b[1]}'
    for (na, xa), (nb, xb) in zip(a[2], b[2]):
      d = first_diff(xa, xb, f'{path}.{na}')
      if d:
        return d
  if a[0] == 'map':
    ka, kb = [k for k, _ in a[1]], [k for k, _ in b[1]]
    if ka != kb:
      return f'{path}: dict keys {ka} vs {kb}'
    for (k, xa), (_, xb) in zip(a[1], b[1]):
      d = first_diff(xa, xb, f'{path}[{k}]')
      if d:
        return d
  if a[0] == 'seq':
    if len(a[1]) != len(b[1]):
      return f'{path}: length {len(a[1])} vs {len(b[1])}'
    for i, (xa, xb) in enumerate(zip(a[1], b[1])):
      d = first_diff(xa, xb, f'{path}[{i}]')
      if d:
        return d
  return f'{path}: differs'


def close(a, b, scale):
  a, b = np.asarray(a, dtype=np.float64), np.asarray(b, dtype=np.float64)
  return a.shape == b.shape and bool(np.all(np.abs(a - b) <= 2e-4 * (1.0 + scale)))


def pmap_devices(backend):
  """'pmap' = two devices, 'pmap1' / 'pmap2' / ... = that many"""
  return int(backend[4:] or 2)


def digest(s):
  return hashlib.sha1(repr(s).encode()).hexdigest()[:16]


def real_id(case, i):
  """client ids as the real code sees them (the case and the Lean model use the integer)"""
  m = case.get('idmode', 'int')
  if m == 'int':
    return i
  if m == 'bytes':
    return b'client_%d' % i
  if m == 'str':
    return 'client_%d' % i
  return ('site', b'%d' % i)


def _containers(obj, path='state'):
  if dataclasses.is_dataclass(obj) and not isinstance(obj, type):
    yield path, obj
    for f in dataclasses.fields(obj):
      yield from _containers(getattr(obj, f.name), f'{path}.{f.name}')
  elif isinstance(obj, dict):
    yield path, obj
    for k in sorted(obj, key=repr):
      yield from _containers(obj[k], f'{path}[{k!r}]')
  elif isinstance(obj, (list, tuple)):
    yield path, obj
    for i, v in enumerate(obj):
      yield from _containers(v, f'{path}[{i}]')


def ident(obj):
  """identities of the containers of a kept state (they must stay the same objects)"""
  return tuple((p, id(c)) for p, c in _containers(obj))


def aliased(a, b):
  """mutable containers (dict / list) shared between two states (recorded, not a failure by itself)"""
  ia = {id(c) for _, c in _containers(a) if isinstance(c, (dict, list))}
  return [p for p, c in _containers(b) if isinstance(c, (dict, list)) and id(c) in ia]


class C10(core.Property):
  ID = 'C10'
  LEVEL = 'proof'
  RULE = ('histories of 2..4 rounds (quick) over a population of 3..5 clients with 1..4 examples, cohorts of 1..3 '
          'distinct clients per round chosen so that clients participate repeatedly, for each of FedAvg, FedProx, '
          'Mime, MimeLite, AgnosticFedAvg, HypCluster, APFL (key-dependent losses, stateful server optimizer, '
          'jit/debug backends, pmap with 1 and 2 devices and cohorts larger than the device count) and histories of 2..3 aggregation rounds for the uniform '
          '(plain / arithmetic coding), rotated-uniform, DRIVE and TernGrad aggregators; client ids int / bytes / str / '
          'tuple. Per history, on ONE algorithm (aggregator) object: (1) the plain training loop with every returned '
          'state object fed straight back, all earlier states kept with value snapshots and container identities and '
          're-checked after every round; (2) every kept round applied again from its kept state and compared with '
          'what it returned; (3) restored copies (pickle / save_state+load_state / msgpack leaves) and a branch on a '
          'second object; (4) a second run of the loop with a round that raises at an unreadable client, then the '
          'retry; plus one pair of fresh interpreters with different PYTHONHASHSEED running the same histories. '
          'non-trivial = at least two rounds, some client participates '
          'twice (algorithms) and every round really changes the state; distinct by case digest')
  TRUSTED = ['the runtime facts of C10 (no in-place write into the caller\'s containers, no donated caller buffer, '
             'no state outside ServerState/CompressionState) are MONITORED on the generated histories, not proved',
             'jax.random.split(k, n)[i] does not depend on n (checked at start-up); optax optimizers, autodiff, '
             'the quantizers and pickle/msgpack are externals',
             'batching hparams carry a seed (an unseeded shuffle is documented non-determinism outside the state)']
  ASSUMPTIONS = ['per-example losses / grad_fn are pure JAX functions of (params, batch, rng)',
                 'clients of one round have pairwise distinct ids (sampling without replacement)']
  QUICK_BUDGET_S = 170
  THOROUGH_BUDGET_S = 840

  def extra_coverage(self, ctx):
    return {'claimed_category': 'partial',
            'partial_because': 'in-place writes, donated buffers and hidden module/closure state live in the Python/XLA '
                               'runtime; they are decided by the monitors counted under "monitors" on the generated '
                               'histories of this run only. Proved: APFL table update/frame/reads-input/map-congruence, '
                               'compression state/locality/fresh keys, checkpoint-and-continue, window logic.',
            'algorithms': list(ALGS), 'aggregators': list(AGGS), 'codecs': list(CODECS),
            'exhaustive': ('thorough tier: all 9 two-round participation patterns over a population of two clients, '
                           'for each of the 7 algorithms (63 histories)') if ctx.tier == 'thorough' else None}

  # ------------------------------------------------------------------ setup
  def setup(self, ctx):
    import jax
    import jax.numpy as jnp
    from fedjax.aggregators import compression, walsh_hadamard
    from fedjax.algorithms import agnostic_fed_avg, apfl, fed_avg, fed_prox, hyp_cluster, mime, mime_lite
    from fedjax.core import client_datasets, optimizers, serialization
    from fedjax.core import for_each_client as fec
    self.jax, self.jnp = jax, jnp
    self.mods = dict(fed_avg=fed_avg, fed_prox=fed_prox, mime=mime, mime_lite=mime_lite,
                     agnostic=agnostic_fed_avg, hyp=hyp_cluster, apfl=apfl)
    self.cds, self.optimizers, self.ser, self.fec = client_datasets, optimizers, serialization, fec
    self.comp, self.wh = compression, walsh_hadamard
    self.ndev = len(jax.local_devices())
    k = jax.random.PRNGKey(11)
    if not np.array_equal(np.asarray(jax.random.split(k, 3))[:2], np.asarray(jax.random.split(k, 2))):
      raise core.InfraError('jax.random.split(k, n)[i] depends on n: the key-path naming of the model does not apply')

    def grad_fn(params, batch, rng):
      w = params['w']
      err = batch['x'] @ w - batch['y']
      g = jnp.mean(err[:, None] * batch['x'], axis=0)
      return {'w': g + KAPPA * jax.random.normal(rng, w.shape)}

    def per_example_loss(params, batch, rng):
      w = params['w']
      err = batch['x'] @ w - batch['y']
      return 0.5 * err * err + KAPPA * jnp.dot(w, jax.random.normal(rng, w.shape))

    self.grad_fn, self.per_example_loss = grad_fn, per_example_loss

    def mk_general(kappa):
      """the same regression for params given either flat ({'w'}) or as the plain two-level dict haiku returns
      ({'dense': {'w', 'b'}, 'head': {'scale'}}); kappa = 0 makes the loss independent of its key"""
      def loss(params, batch, rng):
        if 'w' in params:
          w, b, sc = params['w'], 0.0, 1.0
        else:
          w, b, sc = params['dense']['w'], params['dense']['b'][0], params['head']['scale'][0]
        err = (batch['x'] @ w + b) * sc - batch['y']
        out = 0.5 * err * err
        if kappa:
          out = out + kappa * jnp.dot(w, jax.random.normal(rng, w.shape))
        return out
      return loss, jax.grad(lambda p, b, r: jnp.mean(loss(p, b, r)))

    self._general = {'key': mk_general(KAPPA), 'nokey': mk_general(0.0)}
    self._salt = 0
    self._algs = {}
    self._last_snaps = None

    class Broken(client_datasets.ClientDataset):
      """A client whose training batches cannot be read: iterating them raises (after the clients before it in
      the cohort have been processed)."""

      def shuffle_repeat_batch(self, hparams=None, **kwargs):
        class V:
          def __iter__(self_inner):
            raise IOError('client data cannot be read')
        return V()

    self.Broken = Broken
    self._tmpdir = tempfile.mkdtemp(prefix='c10_')
    import atexit
    import shutil
    atexit.register(shutil.rmtree, self._tmpdir, ignore_errors=True)

  def mk_opt(self, spec):
    kind, lr, m = spec
    if kind == 'sgd':
      return self.optimizers.sgd(lr)
    return self.optimizers.sgd(lr, momentum=m)

  def hparams(self, cfg):
    """cfg 0: one epoch, batch 2 (a trailing batch of 1 for odd sizes); cfg 1: three steps, batch 2,
    drop_remainder (epoch boundary crossed for small clients)."""
    if cfg % 2 == 0:
      return self.cds.ShuffleRepeatBatchHParams(batch_size=2, num_epochs=1, seed=5)
    return self.cds.ShuffleRepeatBatchHParams(batch_size=2, num_epochs=None, num_steps=3, drop_remainder=True,
                                              seed=9)

  def disturb(self):
    """every call of the real code sees another state of the process-wide generators (numpy's legacy global
    RandomState, Python's random): they are not part of (state, clients)"""
    import random as pyrandom
    self._salt += 1
    np.random.seed((1000 + self._salt * 7919) % (2 ** 31))
    np.random.uniform(size=self._salt % 3)
    pyrandom.seed(self._salt)

  def get_alg(self, name, cfg, backend, slot=0, fresh=False, pk='flat', loss='key'):
    """Algorithm objects are cached per (config, slot) so that jit compilation is paid once per run; within a case
    slot 0 runs the whole history, slot 1 the branch from a restored copy.  fresh=True builds new objects.
    pk='haiku': two-level dict params and a server optimizer wrapped in ignore_grads_haiku (head/scale frozen)."""
    key = (name, cfg, backend, slot, pk, loss)
    if key in self._algs and not fresh:
      return self._algs[key]
    m, hp = self.mods, self.hparams(cfg)
    php = self.cds.PaddedBatchHParams(batch_size=4)
    copt, sopt = self.mk_opt(COPT), self.mk_opt(SOPT)
    mopt = self.mk_opt(['momentum', 0.125, 0.5])
    grad_fn, pel = self.grad_fn, self.per_example_loss
    if pk != 'flat' or loss != 'key':
      pel, grad_fn = self._general[loss]
    if pk == 'haiku':
      sopt = self.optimizers.ignore_grads_haiku(sopt, [('head', 'scale')])
      mopt = self.optimizers.ignore_grads_haiku(mopt, [('head', 'scale')])
    be = backend
    if backend.startswith('pmap'):
      be = self.fec.ForEachClientPmapBackend(self.jax.local_devices()[:pmap_devices(backend)])
    with self.fec.for_each_client_backend(be):
      if name == 'fedavg':
        alg = m['fed_avg'].federated_averaging(grad_fn, copt, sopt, hp)
      elif name == 'fedprox':
        alg = m['fed_prox'].fed_prox(pel, copt, sopt, hp, proximal_weight=0.25)
      elif name == 'mime':
        alg = m['mime'].mime(pel, mopt, hp, php,
                             server_learning_rate=0.5)
      elif name == 'mimelite':
        alg = m['mime_lite'].mime_lite(pel, mopt, hp, php,
                                       server_learning_rate=0.5,
                                       client_delta_clip_norm=(0.5 if cfg % 2 else None))
      elif name == 'agnostic':
        W = 1 + (cfg % 2) + (cfg // 2) % 2       # window sizes 1, 2, 3
        alg = m['agnostic'].agnostic_federated_averaging(
            pel, copt, sopt, hp, php, init_domain_weights=[0.5, 0.5],
            domain_learning_rate=0.25, domain_window_size=W, init_domain_window=[1.0, 1.0])
      elif name == 'hypcluster':
        alg = m['hyp'].hyp_cluster(pel, copt, sopt, php, hp)
      elif name == 'apfl':
        alg = m['apfl'].adaptive_personalized_federated_learning(grad_fn, copt, sopt, hp, C0)
      else:
        raise ValueError(name)
    if not fresh:
      self._algs[key] = alg
    return alg

  # ------------------------------------------------------------------ generation
  def gen_cases(self, rng, tier):
    n_hist = {'quick': 6, 'thorough': 30, 'search': 8}[tier]
    order = []
    for h in range(n_hist):
      for a in ALGS:
        order.append(('alg', a, h))
      for g in AGGS:
        order.append(('agg', g, h))
    if tier == 'thorough':
      # exhaustive small scope: every two-round participation pattern over a population of two clients
      cohorts = [[0], [1], [0, 1]]
      n = 0
      for a in ALGS:
        for c1 in cohorts:
          for c2 in cohorts:
            case = {'kind': 'alg', 'alg': a, 'cfg': n % 2, 'backend': 'jit',
                    'pop': [{'id': 3, 'x': [[1, 0], [0, 1], [1, 1]], 'y': [1, -1, 2], 'dom': [0, 1, 0]},
                            {'id': 8, 'x': [[2, 1], [-1, 1]], 'y': [0, 3], 'dom': [1, 0]}],
                    'rounds': [c1, c2], 'key_seed': 7, 'ck': n % 2, 'codec': CODECS[n % 3], 'w0': [1, -1]}
            if a == 'hypcluster':
              case['clusters'] = [[1, -1], [0, 2]]
            n += 1
            yield case
    # the same histories in two fresh interpreters with different hash salts (one subprocess pair per case)
    for x in range({'quick': 1, 'thorough': 2, 'search': 1}[tier]):
      subs = []
      modes = ['bytes', 'str', 'tuple']
      for n, g in enumerate(AGGS):
        sub = self.gen_agg(rng, g, n, 'quick')
        sub['idmode'] = modes[(n + x) % 3]
        subs.append(sub)
      for n, a in enumerate(ALGS):
        sub = self.gen_alg(rng, a, 0, 'quick')
        sub.update(idmode=modes[(n + x + 1) % 3], backend='jit', cfg=x % 2, rounds=sub['rounds'][:2])
        sub['ck'] = min(sub['ck'], 1)
        subs.append(sub)
      yield {'kind': 'xproc', 'hashseeds': [1 + 2 * x, 2 + 2 * x], 'subcases': subs}
    # pmap backend, cohorts larger than the device count with unequal batch counts, the fault in the last block
    for x in range({'quick': 1, 'thorough': 4, 'search': 1}[tier]):
      for n, a in enumerate(ALGS):
        yield self.gen_pmap_fault(rng, a, 1 + (n + x) % 2)
    for kind, name, h in order:
      if kind == 'alg':
        yield self.gen_alg(rng, name, h, tier)
      else:
        yield self.gen_agg(rng, name, h, tier)

  def gen_alg(self, rng, name, h, tier):
    npop = rng.choice([3, 4, 5])
    pop = []
    for i in range(npop):
      n_ex = rng.choice([1, 2, 3, 4]) if name != 'agnostic' else rng.choice([2, 3, 4])
      xs = [[rng.choice([-1, 0, 1, 2]) for _ in range(D)] for _ in range(n_ex)]
      ys = [rng.choice([-2, -1, 0, 1, 3]) for _ in range(n_ex)]
      dom = [j % 2 for j in range(n_ex)]       # every client has both domains (no NaN weights, cf. C17)
      rng.shuffle(dom)
      pop.append({'id': rng.randrange(0, 40) * 10 + i, 'x': xs, 'y': ys, 'dom': dom})
    n_rounds = rng.choice([2, 3, 3, 4]) if tier != 'thorough' else rng.choice([2, 3, 4, 5, 6])
    rounds = []
    star = rng.randrange(npop)                  # one client that certainly participates repeatedly
    for r in range(n_rounds):
      k = rng.choice([1, 2, 2, 3])
      cohort = rng.sample(range(npop), min(k, npop))
      if r in (0, n_rounds - 1) and star not in cohort:
        cohort[rng.randrange(len(cohort))] = star
      rounds.append(cohort)
    backends = ['jit', 'jit', 'jit', 'debug'] if tier != 'thorough' else ['jit', 'jit', 'debug', 'pmap']
    cfg = h % 2 if tier != 'thorough' else rng.randrange(4)
    case = {'kind': 'alg', 'alg': name, 'cfg': cfg, 'backend': backends[h % 4] if tier != 'thorough' else rng.choice(backends),
            'pop': pop, 'rounds': rounds, 'key_seed': rng.randrange(1000), 'ck': rng.randrange(n_rounds),
            'codec': CODECS[(h + ALGS.index(name)) % 3],
            'w0': [rng.choice([-1, 0, 1, 2]) for _ in range(D)],
            'idmode': rng.choice(['int', 'bytes', 'bytes', 'str', 'tuple']),
            'fault_round': rng.randrange(n_rounds), 'fault_pos': rng.randrange(3),
            'fault_kind': rng.choice(['unreadable', 'missing_feature'])}
    if case['backend'].startswith('pmap'):
      case['backend'] = rng.choice(['pmap1', 'pmap2'])
      case['fault_kind'] = 'missing_feature'
    if h % 3 == 2 and name in ('fedavg', 'fedprox', 'agnostic', 'hypcluster', 'apfl') or (h % 6 == 5 and tier == 'thorough'):
      case['pk'] = 'haiku'      # server optimizer wrapped in ignore_grads_haiku, plain two-level dict params
      case['backend'] = 'jit'
      if tier != 'thorough':
        case['cfg'] = 0           # one set of compiled functions per algorithm for this variant
    if tier == 'thorough' and h % 10 == 0:
      case['fresh'] = True                      # brand-new algorithm objects (not the per-run cached ones)
    if name == 'hypcluster':
      case['clusters'] = [[rng.choice([-2, -1, 0, 1, 2]) for _ in range(D)] for _ in range(rng.choice([2, 3]))]
    if name == 'hypcluster' and h % 3 == 1:
      # exact ties in the maximisation step: identical clusters and a loss that does not depend on the per-cluster key
      k = rng.choice([2, 3])
      case['clusters'] = [list(case['clusters'][0])] * k
      case['loss'] = 'nokey'
      case['backend'] = 'jit'
      if tier != 'thorough':
        case['cfg'] = 0
      case['rounds'][0] = rng.sample(range(npop), min(3, npop))
    return case

  def gen_pmap_fault(self, rng, name, ndev):
    case = self.gen_alg(rng, name, 0, 'quick')
    sizes = [4, 3, 1, 2, 4]                     # 2, 2, 1, 1, 2 batches of size 2 under cfg 0
    for p, n_ex in zip(case['pop'], sizes):
      while len(p['y']) < n_ex:
        p['x'].append([rng.choice([-1, 0, 1, 2]) for _ in range(D)])
        p['y'].append(rng.choice([-2, -1, 0, 1, 3]))
        p['dom'].append(len(p['y']) % 2)
      if name == 'agnostic':
        n_ex = max(n_ex, 2)
      p['x'], p['y'], p['dom'] = p['x'][:n_ex], p['y'][:n_ex], p['dom'][:n_ex]
      if name == 'agnostic':
        p['dom'][:2] = [0, 1]
    npop = len(case['pop'])
    rounds = []
    for r in range(2):
      k = min(npop, ndev + rng.choice([1, 2]))
      rounds.append(rng.sample(range(npop), k))
    case.update(cfg=0, backend=f'pmap{ndev}', rounds=rounds, ck=rng.randrange(2), fault_round=rng.randrange(2),
                fault_kind='missing_feature')
    return case

  def gen_agg(self, rng, name, h, tier):
    n_rounds = rng.choice([2, 3]) if tier != 'thorough' else rng.choice([2, 3, 4, 5])
    rounds = []
    for r in range(n_rounds):
      cohort = []
      for c in range(rng.choice([1, 2, 3])):
        a = [rng.choice([-4, -2, -1, 1, 2, 3, 5]) * 0.5 for _ in range(4)]
        b = [rng.choice([-3, -1, 1, 2, 4]) * 0.25 for _ in range(3)]
        cohort.append([rng.randrange(100) * 10 + c, a, b, float(rng.choice([1, 2, 3, 5]))])
      if r > 0 and rng.random() < 0.5:
        cohort = [list(x) for x in rounds[0]]     # identical inputs again: only the carried key differs
      rounds.append(cohort)
    return {'kind': 'agg', 'agg': name, 'levels': rng.choice([2, 4, 8, 3]), 'key_seed': rng.randrange(1000),
            'rounds': rounds, 'codec': CODECS[(h + AGGS.index(name)) % 3],
            'idmode': rng.choice(['int', 'bytes', 'bytes', 'str', 'tuple']), 'ck': rng.randrange(n_rounds),
            'fault_round': rng.randrange(n_rounds), 'fault_pos': rng.randrange(3)}

  def shrink(self, case):
    if case['kind'] == 'xproc':
      subs = case['subcases']
      if len(subs) > 1:
        for sub in subs:       # an in-process failure does not need the second interpreter (cheap candidates first)
          yield sub
        for i in range(len(subs)):
          yield {**case, 'subcases': [subs[i]]}
      else:
        yield subs[0]          # an in-process failure does not need the second interpreter
        if len(subs[0]['rounds']) > 1:
          yield {**case, 'subcases': [{**subs[0], 'rounds': subs[0]['rounds'][:1], 'ck': 0}]}
      return
    rs = case['rounds']
    if len(rs) > 1:
      for cut in (rs[:-1], rs[1:]):
        c = {**case, 'rounds': cut}
        if 'ck' in c:
          c['ck'] = min(c['ck'], len(cut) - 1)
        yield c
    for ri, cohort in enumerate(rs):
      if len(cohort) > 1:
        for ci in range(len(cohort)):
          yield {**case, 'rounds': rs[:ri] + [cohort[:ci] + cohort[ci + 1:]] + rs[ri + 1:]}
    if case['kind'] == 'alg':
      for pi, p in enumerate(case['pop']):
        if len(p['y']) > (2 if case['alg'] == 'agnostic' else 1):
          p2 = {**p, 'x': p['x'][:-1], 'y': p['y'][:-1], 'dom': p['dom'][:-1]}
          if case['alg'] == 'agnostic' and len(set(p2['dom'])) < 2:
            continue
          yield {**case, 'pop': case['pop'][:pi] + [p2] + case['pop'][pi + 1:]}
      if case.get('backend') != 'jit':
        yield {**case, 'backend': 'jit'}
      if case['codec'] != 'pickle':
        yield {**case, 'codec': 'pickle'}
      if case['ck'] != 0:
        yield {**case, 'ck': 0}
    if case.get('idmode', 'int') != 'int':
      yield {**case, 'idmode': 'int'}

  # ------------------------------------------------------------------ codecs
  def restore(self, state, codec):
    if codec == 'pickle':
      return pickle.loads(pickle.dumps(state))
    if codec == 'file':
      path = os.path.join(self._tmpdir, f'state_{os.getpid()}')
      self.ser.save_state(state, path)
      try:
        return self.ser.load_state(path)
      finally:
        try:
          os.remove(path)
        except OSError:
          pass
    leaves, treedef = self.jax.tree_util.tree_flatten(state)
    blob = self.ser.msgpack_serialize({str(i): (l if isinstance(l, (bool, int, float)) else np.asarray(l))
                                       for i, l in enumerate(leaves)})
    back = self.ser.msgpack_deserialize(blob)
    return self.jax.tree_util.tree_unflatten(treedef, [back[str(i)] for i in range(len(leaves))])

  # ------------------------------------------------------------------ evaluation
  def evaluate(self, case, ctx):
    if case['kind'] == 'alg':
      return self.eval_alg(case, ctx)
    if case['kind'] == 'xproc':
      return self.eval_xproc(case, ctx)
    return self.eval_agg(case, ctx)

  def _datasets(self, case):
    ds = []
    for p in case['pop']:
      n = len(p['y'])
      raw = {'x': np.asarray(p['x'], dtype=np.float32).reshape(n, D), 'y': np.asarray(p['y'], dtype=np.float32),
             'domain_id': np.asarray(p['dom'], dtype=np.int32)}
      ds.append(self.cds.ClientDataset(raw))
    return ds

  def eval_alg(self, case, ctx):
    """One history on ONE algorithm object, every returned state object fed straight back in.

    pass 1  the ordinary training loop  s_{t+1} = A.apply(s_t, clients_t): nothing between two rounds but reads;
            every state is kept together with a deep value snapshot and the identities of its containers, and after
            every round ALL kept states are compared with their snapshots;
    pass 2  every kept round is applied again from its kept state on the same object (latest round first) and compared
            with what it returned originally; all kept states re-checked after each call;
    pass 3  restored copies: A.apply(restore(s_t)) for every t, and a branch continued on a SECOND algorithm object
            from the copy restored before round ck, fed straight back, compared round by round;
    pass 4  fault and retry: the loop is run again from the kept initial state on the same object; before round fr a
            round whose k-th client cannot be read raises half way, the input must be untouched and the retry must
            reproduce the failure-free history.
    """
    jax, jnp = self.jax, self.jnp
    name = case['alg']
    T = len(case['rounds'])
    tags = [f'alg={name}', f'backend={case["backend"]}', f'rounds={T}', f'codec={case["codec"]}',
            f'cfg={case["cfg"]}', f'ids={case.get("idmode", "int")}', f'fault={case.get("fault_kind", "unreadable")}',
            f'params={case.get("pk", "flat")}', f'loss={case.get("loss", "key")}']
    part = [i for co in case['rounds'] for i in co]
    repeated = len(part) != len(set(part))
    tags.append(f'repeated_participation={repeated}')

    def fail(kind, text, **kw):
      return Outcome(oracle_fail=f'{name}: {text}', key=f'C10/{name}/{kind}', tags=tuple(tags), **kw)

    try:
      kw = dict(fresh=case.get('fresh', False), pk=case.get('pk', 'flat'), loss=case.get('loss', 'key'))
      A = self.get_alg(name, case['cfg'], case['backend'], 0, **kw)
      variant = kw['pk'] != 'flat' or kw['loss'] != 'key'
      # (quick tier: the variants share one object for the history and the restored branch, to save compilation)
      B = self.get_alg(name, case['cfg'], case['backend'], 0 if (variant and ctx.tier != 'thorough') else 1, **kw)
    except Exception as e:
      return fail(f'construct-{type(e).__name__}', f'constructing the algorithm raised {type(e).__name__}: {str(e)[:160]}')
    datasets = self._datasets(case)
    data_snap = [snap({k: v for k, v in d.all_examples().items()}) for d in datasets]
    rid = lambda i: real_id(case, case['pop'][i]['id'])

    fault_kind = case.get('fault_kind', 'unreadable')

    def clients_for(r, broken_at=None, as_tuple=False):
      cohort = case['rounds'][r]
      keys = jax.random.split(jax.random.PRNGKey(case['key_seed'] + r), max(2, len(cohort)))
      out = []
      for j, i in enumerate(cohort):
        ds = datasets[i]
        if j == broken_at:
          if fault_kind == 'missing_feature':
            # a corrupt shard: the label feature is missing, so the failure happens where the client's batches are
            # *used* (jit: when the loop reaches the client; pmap: when the device block holding it is dispatched)
            ds = self.cds.ClientDataset({k: v for k, v in ds.raw_examples.items() if k != 'y'})
          else:
            ds = self.Broken(ds.raw_examples)
        out.append((rid(i), ds, keys[j]))
      return tuple(out) if as_tuple else out

    def fault_position(r):
      """which client of round r is made unreadable.  The pmap backend sorts the cohort by decreasing number of
      batches (stable) and cuts it into blocks of D clients: there the fault goes into the LAST block, so that earlier
      blocks have already been dispatched when it is hit."""
      cohort = case['rounds'][r]
      if case['backend'].startswith('pmap'):
        nb = [len(list(datasets[i].shuffle_repeat_batch(self.hparams(case['cfg'])))) for i in cohort]
        order = sorted(range(len(cohort)), key=lambda j: -nb[j])
        return order[-1]
      return case.get('fault_pos', 1) % len(cohort)

    def restored_raised(out, e):
      """classifier: ignore_grads_haiku always returns haiku's immutable mapping while pickle restores that mapping as a
      plain dict; algorithms that tree_map stored params against new ones (APFL) or apply the wrapped optimizer inside
      the client step (Mime, MimeLite) then fail on the restored copy with a pytree structure error"""
      if case.get('pk') == 'haiku' and case['codec'] in ('pickle', 'file') and 'pytree structure' in str(e):
        out.key = 'C10/ignore-grads-haiku/restored-copy-container-type'
      return out

    def call(alg, state, clients):
      self.disturb()
      with Watchdog(30):
        out, diag = alg.apply(state, clients)
      ctx.count('applies')
      return out, diag

    def mk_params(w):
      if case.get('pk', 'flat') == 'flat':
        return {'w': jnp.asarray(w, dtype=jnp.float32)}
      # what haiku returns nowadays: a plain dict of plain per-module dicts
      tree = {'dense': {'w': jnp.asarray(w, dtype=jnp.float32), 'b': jnp.asarray([0.5], dtype=jnp.float32)},
              'head': {'scale': jnp.asarray([1.5], dtype=jnp.float32)}}
      if name in ('apfl', 'mime', 'mimelite'):
        # ignore_grads_haiku returns haiku's immutable mapping; APFL's interpolation tree_maps the stored client
        # params against the server params, and Mime/MimeLite apply the wrapped optimizer inside the client step, so
        # they need params of that one container type from the start
        import haiku as hk
        tree = hk.data_structures.to_immutable_dict(tree)
      return tree

    if name == 'hypcluster':
      init_arg = [mk_params(c) for c in case['clusters']]
    else:
      init_arg = mk_params(case['w0'])
    state = A.init(init_arg)
    states, snaps, idents = [state], [snap(state)], [ident(state)]
    O, Dg, diags = [], [], []

    def recheck(when, current=None):
      """every kept state still has the value (and the containers) it had when it was produced"""
      for t in range(len(states)):
        try:
          now = snap(states[t])
        except Unreadable as e:
          kind = 'input-unreadable' if t == current else 'history-unreadable'
          return fail(kind, f'{when}: the kept state {self._sname(t)} cannot be read any more: {e}')
        if now != snaps[t]:
          kind = 'input-mutated' if t == current else 'history-mutated'
          what = ('the caller\'s input state' if t == current else f'the kept state {self._sname(t)}')
          return fail(kind, f'{when}: {what} changed its value in place: {first_diff(snaps[t], now)} '
                      f'(value when it was produced vs now)')
        if ident(states[t]) != idents[t]:
          return fail('history-containers-replaced', f'{when}: containers of the kept state {self._sname(t)} were replaced')
      ctx.count('kept_state_rechecks', len(states))
      return None

    # ---------------- pass 1: the ordinary training loop
    changed_every_round = True
    for r in range(T):
      clients = clients_for(r)
      k0 = snap([k for _, _, k in clients])
      try:
        out, diag = call(A, state, clients)
        o, d = snap(out), snap(dict(diag))
      except TimeoutError:
        return fail('never-returns', f'round {r}: apply did not return within 30 s')
      except Unreadable as e:
        return fail('unreadable', f'round {r}: output of apply cannot be read: {e}')
      except Exception as e:
        return fail(f'raises-{type(e).__name__}', f'round {r}: apply raised {type(e).__name__}: {str(e)[:200]}')
      bad = recheck(f'round {r} of the training loop (each returned state fed straight back into apply)', current=r)
      if bad:
        if bad.key.endswith('input-mutated'):
          try:
            out2, _ = call(A, state, clients)
            dd = first_diff(o, snap(out2))
            bad.oracle_fail += ('; a second identical call apply(state, clients) then returns a different state: '
                                f'{dd} (first vs second call)') if dd else '; a second identical call returns the same state'
          except Exception as e:
            bad.oracle_fail += f'; a second identical call raises {type(e).__name__}'
        return bad
      try:
        if snap([k for _, _, k in clients]) != k0:
          return fail('client-keys-mutated', f'round {r}: the clients\' keys changed during the call')
      except Unreadable as e:
        return fail('client-keys-unreadable', f'round {r}: a client key was deleted by the call: {e}')
      if o == snaps[r]:
        changed_every_round = False
      al = aliased(state, out)
      if al:
        ctx.count('rounds_whose_output_shares_a_mutable_container_with_the_input')
      O.append(o)
      Dg.append(d)
      diags.append(diag)
      states.append(out)
      snaps.append(o)
      idents.append(ident(out))
      state = out                      # the very object that apply returned
    ctx.count('straight_histories')
    if case.get('light'):            # the fresh-interpreter children only need the plain loop
      self._last_snaps = snaps
      return Outcome(tags=tuple(tags), detail={'state_digests': [digest(s) for s in snaps]})

    # ---------------- pass 2: apply every kept round again from its kept state (same object)
    for t in reversed(range(T)):
      try:
        out2, diag2 = call(A, states[t], clients_for(t, as_tuple=True))     # same values, another Sequence type
        o2, d2 = snap(out2), snap(dict(diag2))
      except Exception as e:
        return fail('second-call-raises', f'applying round {t} again from its kept input state raised '
                    f'{type(e).__name__}: {str(e)[:200]}')
      if o2 != O[t]:
        return fail('nondeterministic', f'round {t}: apply(state, clients) called again with the same kept arguments '
                    f'(after the history had moved on to round {T - 1}) returned a different state: '
                    f'{first_diff(O[t], o2)} (original vs repeated call)')
      if d2 != Dg[t]:
        return fail('nondeterministic-diagnostics', f'round {t}: the repeated call returned different diagnostics: '
                    f'{first_diff(Dg[t], d2, "diagnostics")}')
      ctx.count('repeated_calls_compared')
      bad = recheck(f'after applying round {t} again from its kept state', current=t)
      if bad:
        return bad

    # ---------------- pass 3: restored copies; a branch on a second algorithm object
    for t in range(T):
      try:
        restored = self.restore(states[t], case['codec'])
        if snap(restored) != snaps[t]:
          return Outcome(corr_fail=f'{name}: codec {case["codec"]} did not round-trip the state: '
                         f'{first_diff(snaps[t], snap(restored))}', tags=tuple(tags))
        out3, diag3 = call(A, restored, clients_for(t))
        o3, d3 = snap(out3), snap(dict(diag3))
      except Exception as e:
        return restored_raised(fail('restore-raises', f'round {t}: continuing from a {case["codec"]}-restored copy '
                                    f'raised {type(e).__name__}: {str(e)[:200]}'), e)
      if o3 != O[t] or d3 != Dg[t]:
        return fail('restore-differs', f'round {t}: continuing from a {case["codec"]}-restored copy of the state '
                    f'gives a different result: {first_diff(O[t], o3) or first_diff(Dg[t], d3, "diagnostics")}')
      ctx.count('restored_calls_compared')
    ck = min(case['ck'], T - 1)
    try:
      branch = self.restore(states[ck], case['codec'])
      bstates = []
      for t in range(ck, T):
        branch, _ = call(B, branch, clients_for(t))
        bstates.append(branch)
        ob = snap(branch)
        if ob != O[t]:
          return fail('branch-differs', f'round {t}: the history continued on a second algorithm object from the '
                      f'copy restored before round {ck} diverges from the original history: {first_diff(O[t], ob)}')
        ctx.count('branch_states_compared')
      for j, b in enumerate(bstates):
        if snap(b) != O[ck + j]:
          return fail('history-mutated', f'a state of the restored branch (after round {ck + j}) changed its value '
                      f'later: {first_diff(O[ck + j], snap(b))}')
    except Unreadable as e:
      return fail('history-unreadable', f'a state of the restored branch became unreadable: {e}')
    except Exception as e:
      return restored_raised(fail('branch-raises', f'the history continued from the restored copy raised '
                                  f'{type(e).__name__}: {str(e)[:200]}'), e)
    bad = recheck('after the restored-copy calls')
    if bad:
      return bad

    # ---------------- pass 4: fault and retry, again as a straight loop on the same object
    fr = min(case.get('fault_round', T - 1), T - 1)
    st = states[0]
    for t in range(T):
      if t == fr:
        fk = fault_position(t)
        s_before = snap(st)
        raised = None
        try:
          call(A, st, clients_for(t, broken_at=fk))
        except TimeoutError:
          return fail('never-returns', f'round {t} with an unreadable client did not return within 30 s')
        except Exception as e:
          raised = type(e).__name__
        ctx.count('faulty_rounds_raised' if raised else 'faulty_rounds_did_not_raise')
        try:
          s_now = snap(st)
        except Unreadable as e:
          return fail('fault-input-unreadable', f'round {t} raised {raised} at client #{fk}; afterwards its input '
                      f'state cannot be read: {e}')
        if s_now != s_before:
          return fail('fault-input-mutated', f'round {t} raised {raised} while reading client #{fk} and left its '
                      f'input state half updated: {first_diff(s_before, s_now)} (before vs after the failed call)')
        bad = recheck(f'after round {t} failed at client #{fk}')
        if bad:
          return bad
      try:
        out, diag = call(A, st, clients_for(t))
        o = snap(out)
      except Exception as e:
        return fail('retry-raises', f'round {t} of the second run of the loop raised {type(e).__name__}: {str(e)[:200]}')
      if o != O[t] or snap(dict(diag)) != Dg[t]:
        kind, what = ('retry-differs', 'retrying the round after the failure') if t == fr else \
                     ('rerun-differs', 'running the loop a second time from the kept initial state')
        return fail(kind, f'round {t}: {what} does not give the result of the failure-free history: '
                    f'{first_diff(O[t], o) or "diagnostics differ"}')
      ctx.count('rerun_rounds_compared')
      st = out
    bad = recheck('at the end of the case')
    if bad:
      return bad
    for i, d in enumerate(datasets):
      if snap({k: v for k, v in d.all_examples().items()}) != data_snap[i]:
        return fail('client-data-mutated', f'the examples of client {case["pop"][i]["id"]} changed')
    ctx.count('histories')
    # ---------------- correspondence with the Lean model
    # The table / window logic is compared exactly (it involves no randomness).  The full-round models of APFL and
    # FedAvg replicate the key stream of the current client step (which sub-key feeds which gradient): they are
    # evaluated and their agreement is recorded, but a different use of the client's key is not a violation of C10.
    corr = None
    detail = {'state_digests': [digest(s) for s in snaps]}
    if case.get('model', True) and case.get('pk', 'flat') == 'flat' and case.get('loss', 'key') == 'key':
      exact = None
      if name == 'apfl':
        corr = self.corr_apfl_table(case, ctx, A, states, clients_for)
        exact = self.corr_apfl(case, ctx, datasets, states)
      elif name == 'agnostic':
        corr = self.corr_window(case, ctx, states)
      elif name == 'fedavg':
        exact = self.corr_fedavg(case, ctx, datasets, states)
      if name in ('apfl', 'fedavg'):
        ctx.count(f'full_round_model_{name}_' + ('differs_(recorded_only)' if exact else 'agrees'))
        if exact:
          detail['full_round_model_difference'] = exact
    nontrivial = T >= 2 and repeated and changed_every_round
    self._last_snaps = snaps
    return Outcome(corr_fail=corr, nontrivial=nontrivial, tags=tuple(tags), detail=detail)

  @staticmethod
  def _sname(t):
    return 's0 = init(...)' if t == 0 else f's{t} (returned by round {t - 1})'

  # ------------------------------------------------------------------ model correspondence: algorithms
  def _batches(self, case, ds):
    return [{k: np.array(v) for k, v in b.items()} for b in ds.shuffle_repeat_batch(self.hparams(case['cfg']))]

  @staticmethod
  def _rows(batches):
    return [[list(map(float, row)) + [float(yy)] for row, yy in zip(b['x'], b['y'])] for b in batches]

  def corr_apfl_table(self, case, ctx, A, states, clients_for):
    """APFL's client-state table against Model/Purity.lean at the level of C10_apfl_table / _frame / _table_keys /
    _entry_local, with no reference to how a client's key is used:
      * key set after every round = the model's table keys (old keys + participants);
      * entries of non-participants are carried over bit for bit;
      * the stored entry of a returning client really is the start of its training, and only of its own: the same
        round from a state whose table lacks that one entry changes that client's new entry and nobody else's."""
    back = {real_id(case, p['id']): p['id'] for p in case['pop']}
    ids_rounds = [[case['pop'][i]['id'] for i in co] for co in case['rounds']]
    mkeys = ctx.drv.ask1('c10.tablekeys', ids_rounds)
    ctx.count('model_histories_apfl_table')
    for r, cohort in enumerate(case['rounds']):
      before, after = states[r].client_states, states[r + 1].client_states
      impl = sorted(back.get(k, k) for k in after)
      if impl != sorted(int(k) for k in mkeys[r]):
        return f'apfl round {r}: client table ids {impl} vs model {sorted(int(k) for k in mkeys[r])}'
      part = {real_id(case, case['pop'][i]['id']) for i in cohort}
      for k in before:
        if k not in part and snap(after[k]) != snap(before[k]):
          return f'apfl round {r}: the table entry of the non-participant {k!r} changed'
    # dependence / locality on the last round that has a returning client
    for r in reversed(range(1, len(case['rounds']))):
      st = states[r]
      returning = [real_id(case, case['pop'][i]['id']) for i in case['rounds'][r]
                   if real_id(case, case['pop'][i]['id']) in st.client_states]
      returning = [k for k in returning
                   if snap(st.client_states[k].params) != snap(st.params)]      # entry differs from the default start
      if not returning:
        continue
      cid = returning[0]
      st2 = dataclasses.replace(st, client_states={k: v for k, v in st.client_states.items() if k != cid})
      try:
        out2, _ = A.apply(st2, clients_for(r))
      except Exception as e:
        return f'apfl round {r}: apply from a hand-built state without the entry of {cid!r} raised {type(e).__name__}'
      ctx.count('applies')
      ref = states[r + 1].client_states
      if snap(out2.client_states[cid]) == snap(ref[cid]):
        return (f'apfl round {r}: the stored state of the returning client {cid!r} has no influence on its training '
                f'(removing its table entry gives the same new entry)')
      for k in ref:
        if k != cid and snap(out2.client_states.get(k)) != snap(ref[k]):
          return (f'apfl round {r}: removing the table entry of client {cid!r} changed the entry of client {k!r}: '
                  f'{first_diff(snap(ref[k]), snap(out2.client_states.get(k)), "entry")}')
      ctx.count('apfl_entry_dependence_checked')
      break
    return None

  def corr_apfl(self, case, ctx, datasets, states):
    jax = self.jax
    kind = {'sgd': 0, 'momentum': 1}
    cohorts = []
    for r, cohort in enumerate(case['rounds']):
      keys = jax.random.split(jax.random.PRNGKey(case['key_seed'] + r), max(2, len(cohort)))
      mc = []
      for j, i in enumerate(cohort):
        batches = self._batches(case, datasets[i])
        ns, nc, rng = [], [], keys[j]
        for _ in batches:
          ks = jax.random.split(rng, 3)       # the model: child 0 carried, child 1 server key, child 2 client key
          rng = ks[0]
          ns.append([float(v) for v in KAPPA * np.asarray(jax.random.normal(ks[1], (D,)), np.float64)])
          nc.append([float(v) for v in KAPPA * np.asarray(jax.random.normal(ks[2], (D,)), np.float64)])
        mc.append([case['pop'][i]['id'], len(case['pop'][i]['y']), self._rows(batches), ns, nc])
      cohorts.append(mc)
    ans = ctx.drv.ask1('c10.apfl', False, [kind[COPT[0]], COPT[1], COPT[2]], [kind[SOPT[0]], SOPT[1], SOPT[2]],
                       C0, [float(v) for v in case['w0']], cohorts)
    ctx.count('model_histories_apfl')
    scale = 4.0
    for r, (mp, mo, mt) in enumerate(ans):
      st = states[r + 1]
      if not close(st.params['w'], [float(v) for v in mp], scale):
        return f'apfl round {r}: server params impl {np.asarray(st.params["w"]).tolist()} vs model {[float(v) for v in mp]}'
      tr = [np.asarray(l) for l in jax.tree_util.tree_leaves(st.opt_state) if np.asarray(l).shape == (D,)]
      if tr and not close(tr[0], [float(v) for v in mo], scale):
        return f'apfl round {r}: server momentum impl {tr[0].tolist()} vs model {[float(v) for v in mo]}'
      back = {real_id(case, p['id']): p['id'] for p in case['pop']}
      impl_tbl = {back.get(k, k): v for k, v in st.client_states.items()}
      impl_ids = sorted(impl_tbl)
      model_tbl = {int(e[0]): e for e in mt}
      if impl_ids != sorted(model_tbl):
        return f'apfl round {r}: client table ids impl {impl_ids} vs model {sorted(model_tbl)}'
      for cid in impl_ids:
        cs = impl_tbl[cid]
        if not close(cs.params['w'], [float(v) for v in model_tbl[cid][1]], scale):
          return (f'apfl round {r}: client {cid} params impl {np.asarray(cs.params["w"]).tolist()} vs model '
                  f'{[float(v) for v in model_tbl[cid][1]]}')
        coef = float(np.asarray(cs.interpolation_coefficients['w']))
        if abs(coef - float(model_tbl[cid][2])) > 2e-4 * (1 + scale):
          return f'apfl round {r}: client {cid} coefficient impl {coef} vs model {float(model_tbl[cid][2])}'
        if not (0.0 <= coef <= 1.0):
          return f'apfl round {r}: client {cid} coefficient {coef} outside [0,1]'
    return None

  def corr_window(self, case, ctx, states):
    W = len(states[0].domain_window)
    counts = []
    for cohort in case['rounds']:
      c = [0, 0]
      for i in cohort:
        for d in case['pop'][i]['dom']:
          c[d] += 1
      counts.append(c)
    ans = ctx.drv.ask1('c10.window', [[1, 1]] * W, counts)
    ctx.count('model_histories_window')
    for r, mw in enumerate(ans):
      iw = [np.asarray(x).tolist() for x in states[r + 1].domain_window]
      if [[float(v) for v in row] for row in mw] != [[float(v) for v in row] for row in iw]:
        return f'agnostic round {r}: domain window impl {iw} vs model {mw}'
    return None

  def corr_fedavg(self, case, ctx, datasets, states):
    """FedAvg against the C01 model (`c01.rounds`)."""
    jax = self.jax
    kind = {'sgd': 0, 'momentum': 1}
    cohorts = []
    for r, cohort in enumerate(case['rounds']):
      keys = jax.random.split(jax.random.PRNGKey(case['key_seed'] + r), max(2, len(cohort)))
      mc = []
      for j, i in enumerate(cohort):
        batches = self._batches(case, datasets[i])
        noise, rng = [], keys[j]
        for _ in batches:
          rng, use = jax.random.split(rng)
          noise.append([float(v) for v in KAPPA * np.asarray(jax.random.normal(use, (D,)), np.float64)])
        mc.append([case['pop'][i]['id'], len(case['pop'][i]['y']), self._rows(batches), noise])
      cohorts.append(mc)
    ans = ctx.drv.ask1('c01.rounds', [kind[COPT[0]], COPT[1], COPT[2]], [kind[SOPT[0]], SOPT[1], SOPT[2]],
                       [float(v) for v in case['w0']], cohorts)
    ctx.count('model_histories_fedavg')
    for r, (mp, mo) in enumerate(ans):
      if not close(states[r + 1].params['w'], [float(v) for v in mp], 4.0):
        return (f'fedavg round {r}: server params impl {np.asarray(states[r + 1].params["w"]).tolist()} vs model '
                f'{[float(v) for v in mp]}')
    return None

  # ------------------------------------------------------------------ aggregators
  def mk_agg(self, case, root):
    c, name = self.comp, case['agg']
    if name == 'uniform':
      return c.uniform_stochastic_quantizer(case['levels'], root)
    if name == 'uniform_arith':
      return c.uniform_stochastic_quantizer(case['levels'], root, 'arithmetic')
    if name == 'rotated':
      return c.rotated_uniform_stochastic_quantizer(case['levels'], root)
    if name == 'drive':
      return c.structured_drive_quantizer(root)
    if name == 'terngrad':
      return c.terngrad_quantizer(root)
    raise ValueError(name)

  def path_key(self, root, path):
    k = root
    for i in path:
      k = self.jax.random.split(k, max(2, int(i) + 1))[int(i)]
    return k

  def quantise(self, case, params, key, rot):
    c, wh, name = self.comp, self.wh, case['agg']
    if name in ('uniform', 'uniform_arith'):
      return c.uniform_stochastic_quantize_pytree(params, case['levels'], key)
    if name == 'terngrad':
      return c.terngrad_quantize_pytree(params, key)
    if name == 'rotated':
      p, shapes = wh.structured_rotation_pytree(params, rot)
      return wh.inverse_structured_rotation_pytree(
          c.uniform_stochastic_quantize_pytree(p, case['levels'], key), rot, shapes)
    p, shapes = wh.structured_rotation_pytree(params, key)
    return wh.inverse_structured_rotation_pytree(c.drive_pytree(p), key, shapes)

  def eval_agg(self, case, ctx):
    """Same four passes as eval_alg for a compression aggregator: ONE aggregator object per history, every
    returned CompressionState object fed straight back; kept states re-checked after every call; kept rounds applied
    again; restored copies and a branch on a second aggregator object; a client iterable that raises half way."""
    jax, jnp = self.jax, self.jnp
    name = case['agg']
    rotated = name == 'rotated'
    T = len(case['rounds'])
    tags = [f'agg={name}', f'rounds={T}', f'codec={case["codec"]}', f'levels={case["levels"]}',
            f'ids={case.get("idmode", "int")}']

    def fail(kind, text):
      return Outcome(oracle_fail=f'{name}: {text}', key=f'C10/{name}/{kind}', tags=tuple(tags))

    root = jax.random.PRNGKey(case['key_seed'])
    prop = self

    class Disturbed:
      """the aggregator, every apply preceded by a change of the process-wide random generators"""

      def __init__(self_inner, a):
        self_inner.a = a

      def init(self_inner):
        return self_inner.a.init()

      def apply(self_inner, *args):
        prop.disturb()
        return self_inner.a.apply(*args)

    agg = Disturbed(self.mk_agg(case, root))
    agg_b = Disturbed(self.mk_agg(case, root))
    state = agg.init()
    if snap(agg_b.init()) != snap(state):
      return fail('init-differs', 'two aggregators built with the same arguments return different initial states')
    per_param = {'uniform': math.log2(case['levels']), 'rotated': math.log2(case['levels']), 'drive': 1.0,
                 'terngrad': math.log2(3), 'uniform_arith': 0.0}[name]

    def mk_inputs(r, fail_after=None):
      """a fresh lazily evaluated iterable of (client id, params, weight); optionally raises after k clients"""
      def gen():
        for j, (cid, a, b, w) in enumerate(case['rounds'][r]):
          if fail_after is not None and j == fail_after:
            raise IOError('client update cannot be read')
          yield (real_id(case, cid), {'a': jnp.asarray(a, dtype=jnp.float32), 'b': jnp.asarray(b, dtype=jnp.float32)}, w)
      return gen()

    states, snaps, idents = [state], [snap(state)], [ident(state)]
    O, outs = [], []

    def recheck(when, current=None):
      for t in range(len(states)):
        try:
          now = snap(states[t])
        except Unreadable as e:
          return fail('input-unreadable' if t == current else 'history-unreadable',
                      f'{when}: the kept aggregator state #{t} cannot be read any more: {e}')
        if now != snaps[t]:
          return fail('input-mutated' if t == current else 'history-mutated',
                      f'{when}: the kept aggregator state #{t} changed its value in place: '
                      f'{first_diff(snaps[t], now)} (value when it was produced vs now)')
        if ident(states[t]) != idents[t]:
          return fail('history-containers-replaced', f'{when}: containers of kept state #{t} were replaced')
      ctx.count('kept_state_rechecks', len(states))
      return None

    # ---------------- pass 1: straight loop
    for r in range(T):
      kept_inputs = list(mk_inputs(r))
      in_snap = snap([p for _, p, _ in kept_inputs])
      try:
        out1, st1 = agg.apply(iter(kept_inputs), state)
        o1 = snap((out1, st1))
      except Unreadable as e:
        return fail('unreadable', f'round {r}: {e}')
      except Exception as e:
        return fail(f'raises-{type(e).__name__}', f'round {r}: apply raised {type(e).__name__}: {str(e)[:200]}')
      ctx.count('agg_applies')
      bad = recheck(f'round {r} of the loop (each returned state fed straight back)', current=r)
      if bad:
        return bad
      try:
        if snap([p for _, p, _ in kept_inputs]) != in_snap:
          return fail('inputs-mutated', f'round {r}: apply changed the clients\' params')
      except Unreadable as e:
        return fail('inputs-unreadable', f'round {r}: after apply the clients\' params cannot be read: {e}')
      O.append(o1)
      outs.append(out1)
      states.append(st1)
      snaps.append(snap(st1))
      idents.append(ident(st1))
      state = st1
    ctx.count('agg_straight_histories')
    if case.get('light'):
      self._last_snaps = O
      return Outcome(tags=tuple(tags), detail={'state_digests': [digest(o) for o in O]})

    # ---------------- pass 2: every kept round again from its kept state
    for t in reversed(range(T)):
      try:
        o2 = snap(agg.apply(mk_inputs(t), states[t]))
      except Exception as e:
        return fail('second-call-raises', f'applying round {t} again from its kept state raised {type(e).__name__}: '
                    f'{str(e)[:200]}')
      ctx.count('agg_applies')
      if o2 != O[t]:
        return fail('nondeterministic', f'round {t}: two calls with the same (inputs, state) differ: '
                    f'{first_diff(O[t], o2, "(aggregate, state)")} — randomness or accounting lives outside the state')
      ctx.count('agg_repeated_calls_compared')
      bad = recheck(f'after applying round {t} again from its kept state', current=t)
      if bad:
        return bad

    # ---------------- pass 2b: the container type of the client updates is not part of their value
    for t in range(T):
      for cname, wrap in (('list', list), ('tuple', tuple), ('generator', lambda g: g), ('list iterator', lambda g: iter(list(g)))):
        try:
          oc = snap(agg.apply(wrap(mk_inputs(t)), states[t]))
        except Exception as e:
          return fail('container-raises', f'round {t}: apply with the client updates given as a {cname} raised '
                      f'{type(e).__name__}: {str(e)[:200]}')
        ctx.count('agg_applies')
        if oc != O[t]:
          return fail('container-dependent', f'round {t}: the same (client updates, state) give a different result when '
                      f'the updates are passed as a {cname} instead of a list iterator: '
                      f'{first_diff(O[t], oc, "(aggregate, state)")}')
        ctx.count('agg_container_types_compared')
    bad = recheck('after the container-type calls')
    if bad:
      return bad

    # ---------------- pass 3: restored copies, branch on a second aggregator object
    try:
      for t in range(T):
        restored = self.restore(states[t], case['codec'])
        if snap(restored) != snaps[t]:
          return Outcome(corr_fail=f'{name}: codec {case["codec"]} did not round-trip the state', tags=tuple(tags))
        o3 = snap(agg.apply(mk_inputs(t), restored))
        if o3 != O[t]:
          return fail('restore-differs', f'round {t}: continuing from a {case["codec"]}-restored state differs: '
                      f'{first_diff(O[t], o3, "(aggregate, state)")}')
        ctx.count('agg_restored_calls_compared')
      ck = case.get('ck', 0) % T
      bst = self.restore(states[ck], case['codec'])
      for t in range(ck, T):
        bo, bst = agg_b.apply(mk_inputs(t), bst)
        if snap((bo, bst)) != O[t]:
          return fail('branch-differs', f'round {t}: the history continued on a second aggregator object from the '
                      f'state restored before round {ck} diverges: {first_diff(O[t], snap((bo, bst)), "(aggregate, state)")}')
        ctx.count('agg_branch_states_compared')
    except Unreadable as e:
      return fail('unreadable', f'restored-copy pass: {e}')
    except Exception as e:
      return fail('restore-raises', f'restored-copy pass raised {type(e).__name__}: {str(e)[:200]}')

    # ---------------- pass 4: fault and retry in a second straight loop on the same object
    fr = case.get('fault_round', T - 1) % T
    st = states[0]
    for t in range(T):
      if t == fr:
        fk = case.get('fault_pos', 1) % len(case['rounds'][t])
        s_before = snap(st)
        raised = None
        try:
          agg.apply(mk_inputs(t, fail_after=fk), st)
        except Exception as e:
          raised = type(e).__name__
        ctx.count('agg_faulty_rounds_raised' if raised else 'agg_faulty_rounds_did_not_raise')
        try:
          if snap(st) != s_before:
            return fail('fault-input-mutated', f'round {t} raised {raised} after {fk} clients and left its input '
                        f'state changed: {first_diff(s_before, snap(st))}')
        except Unreadable as e:
          return fail('fault-input-unreadable', f'round {t} raised {raised} after {fk} clients; its input state '
                      f'cannot be read: {e}')
      try:
        o, st2 = agg.apply(mk_inputs(t), st)
        so = snap((o, st2))
      except Exception as e:
        return fail('retry-raises', f'round {t} of the second run raised {type(e).__name__}: {str(e)[:200]}')
      if so != O[t]:
        kind, what = ('retry-differs', 'retrying the round after the failure') if t == fr else \
                     ('rerun-differs', 'running the loop a second time from the kept initial state')
        return fail(kind, f'round {t}: {what} does not reproduce the failure-free history: '
                    f'{first_diff(O[t], so, "(aggregate, state)")}')
      ctx.count('agg_rerun_rounds_compared')
      st = st2
    bad = recheck('at the end of the case')
    if bad:
      return bad
    ctx.count('agg_histories')
    self._last_snaps = O
    detail = {'state_digests': [digest(o) for o in O]}
    if not case.get('model', True):
      return Outcome(nontrivial=T >= 2, tags=tuple(tags), detail=detail)

    # ---- correspondence with the model (Model/Purity.lean: compApply / compRun), at the level C10 fixes:
    # aggregate = weighted mean, in input order, of per-client quantised values that do not depend on the weights;
    # bits accumulate; the state key is fresh every round and a function of the previous key only.  The per-client
    # quantised values are taken FROM THE IMPLEMENTATION (the same round with one-hot weights).  A replica of the key
    # stream of the current code (split / hk.PRNGSequence chain, as named by the model) is evaluated too, but only
    # recorded: another derivation of the client keys from the state key is not a violation of C10.
    counts = [len(co) for co in case['rounds']]
    keyinfo = ctx.drv.ask1('c10.compkeys', rotated, [], counts)
    qtbl, btbl, rounds = [], [], []
    corr = None
    stream_ok = True
    for r, cohort in enumerate(case['rounds']):
      nxt, rot, ckeys = keyinfo[r]
      rot_key = None if rot is None else self.path_key(root, rot)
      qs = []
      for i, ((cid, a, b, w), path) in enumerate(zip(cohort, ckeys)):
        def onehot(i=i, r=r):
          for j, (cj, aj, bj, _) in enumerate(case['rounds'][r]):
            yield (real_id(case, cj), {'a': jnp.asarray(aj, dtype=jnp.float32), 'b': jnp.asarray(bj, dtype=jnp.float32)},
                   1.0 if j == i else 0.0)
        try:
          q, qst = agg.apply(onehot(), states[r])
        except Exception as e:
          return Outcome(corr_fail=f'{name} round {r}: apply with one-hot weights raised {type(e).__name__}',
                         tags=tuple(tags), detail=detail)
        ctx.count('agg_applies')
        if not np.array_equal(np.asarray(qst.rng), np.asarray(states[r + 1].rng)):
          corr = corr or (f'{name} round {r}: the next state key depends on the client weights (it must be a function '
                          f'of the state key only)')
        flat = [float(v) for v in np.asarray(q['a'])] + [float(v) for v in np.asarray(q['b'])]
        qtbl.append([[int(x) for x in path], flat])
        qs.append((q, flat))
        # replica of the current key stream (recorded only)
        try:
          params = {'a': jnp.asarray(a, dtype=jnp.float32), 'b': jnp.asarray(b, dtype=jnp.float32)}
          rq = self.quantise(case, params, self.path_key(root, path), None if name == 'drive' else rot_key)
          rflat = [float(v) for v in np.asarray(rq['a'])] + [float(v) for v in np.asarray(rq['b'])]
          stream_ok = stream_ok and close(rflat, flat, 8.0)
        except Exception:
          stream_ok = False
      if name == 'uniform_arith':
        bits = [sum(float(self.comp.arithmetic_encoding_num_bits(leaf)) for leaf in jax.tree_util.tree_leaves(q))
                for q, _ in qs]
        btbl.append([[f for _, f in qs], sum(bits) / len(bits)])
      rounds.append([[cid, a + b, w] for cid, a, b, w in cohort])
    ans = ctx.drv.ask1('c10.comp', rotated, [], 0, per_param, 2, qtbl, btbl, rounds)
    ctx.count('model_histories_agg')
    seen = [np.asarray(states[0].rng).tobytes()]
    for r, (magg, mbits, mkey) in enumerate(ans):
      if corr:
        break
      impl = [float(v) for v in np.asarray(outs[r]['a'])] + [float(v) for v in np.asarray(outs[r]['b'])]
      if not close(impl, [float(v) for v in magg], 8.0):
        corr = (f'{name} round {r}: aggregate {impl} is not the weighted mean {[float(v) for v in magg]} of the '
                f'per-client quantised values (taken from one-hot rounds of the implementation)')
        break
      ib = float(np.asarray(states[r + 1].num_bits))
      if abs(ib - float(mbits)) > 1e-3 * max(1.0, abs(float(mbits))):
        corr = f'{name} round {r}: num_bits impl {ib} vs model {float(mbits)}'
        break
      kb = np.asarray(states[r + 1].rng).tobytes()
      if kb in seen:
        corr = f'{name} round {r}: the state key repeats an earlier key of the history (rounds would reuse their randomness)'
        break
      seen.append(kb)
      stream_ok = stream_ok and np.array_equal(np.asarray(states[r + 1].rng), np.asarray(self.path_key(root, mkey)))
    ctx.count('key_stream_equals_model_naming' if stream_ok else 'key_stream_differs_from_model_naming')
    return Outcome(corr_fail=corr, nontrivial=T >= 2, tags=tuple(tags), detail=detail)

  # ------------------------------------------------------------------ two interpreter processes
  def eval_xproc(self, case, ctx):
    """The same histories in this process and in two fresh interpreters that differ only in PYTHONHASHSEED
    (what happens whenever a job is resumed in a new process): outputs must be bit-identical."""
    tags = ['kind=xproc', f'subcases={len(case["subcases"])}']
    mine = []
    for sub in case['subcases']:
      out = self.evaluate({**sub, 'model': False}, ctx)
      if out.oracle_fail or out.corr_fail:
        out.tags = tuple(tags)
        return out
      mine.append((out.detail['state_digests'], getattr(self, '_last_snaps', None)))
    tmp = tempfile.mkdtemp(prefix='c10x_', dir=self._tmpdir)
    cpath = os.path.join(tmp, 'cases.json')
    with open(cpath, 'w') as fh:
      json.dump([{**s, 'model': False, 'light': True} for s in case['subcases']], fh)
    boot = ('import sys; sys.path[:0] = [%r, %r]; from props import c10; c10.child_main(sys.argv[1], sys.argv[2])'
            % (os.path.join(core.VERIF, 'harness'), core.REPO))
    procs = []
    for hs in case['hashseeds']:
      env = dict(os.environ, PYTHONHASHSEED=str(hs))
      opath = os.path.join(tmp, f'out_{hs}.pkl')
      log = open(os.path.join(tmp, f'log_{hs}.txt'), 'w')
      procs.append((hs, opath, log, subprocess.Popen([sys.executable, '-c', boot, cpath, opath], env=env,
                                                    stdout=log, stderr=subprocess.STDOUT)))
    results = {}
    for hs, opath, log, p in procs:
      try:
        p.wait(timeout=600)
      except subprocess.TimeoutExpired:
        p.kill()
        raise core.InfraError('cross-process probe timed out')
      log.close()
      if p.returncode != 0 or not os.path.exists(opath):
        raise core.InfraError('cross-process probe failed: ' + open(log.name).read()[-600:])
      with open(opath, 'rb') as fh:
        results[hs] = pickle.load(fh)
    ctx.count('cross_process_probes')
    h1, h2 = case['hashseeds'][0], case['hashseeds'][1]
    for i, sub in enumerate(case['subcases']):
      name = sub.get('alg') or sub.get('agg')
      ra, rb = results[h1][i], results[h2][i]
      for who, r in ((h1, ra), (h2, rb)):
        if r.get('fail'):
          return Outcome(oracle_fail=f'{name}: in a fresh interpreter (PYTHONHASHSEED={who}): {r["fail"]}',
                         key=r.get('key'), tags=tuple(tags))
      what = None
      if ra['digests'] != rb['digests']:
        t = next(j for j, (x, y) in enumerate(zip(ra['digests'], rb['digests'])) if x != y)
        what = (f'PYTHONHASHSEED={h1} vs {h2}', first_diff(ra['snaps'][t], rb['snaps'][t], 'result'), t)
      elif mine[i][0] != ra['digests']:
        t = next(j for j, (x, y) in enumerate(zip(mine[i][0], ra['digests'])) if x != y)
        what = (f'this process vs a fresh interpreter (PYTHONHASHSEED={h1})', 'state digests differ', t)
      if what:
        return Outcome(oracle_fail=f'{name}: the same history (same clients, same client ids {sub.get("idmode")}, '
                       f'same initial state) gives different results in two interpreter processes ({what[0]}), first '
                       f'at result #{what[2]}: {what[1]} — the outputs depend on something outside '
                       f'(state, clients), e.g. the per-process salt of hash()',
                       key=f'C10/{name}/process-dependent', tags=tuple(tags))
      ctx.count('cross_process_histories_compared')
    return Outcome(nontrivial=True, tags=tuple(tags))


class _ChildCtx:
  drv = None
  tier = 'quick'

  def count(self, *a, **k):
    pass


def child_main(case_path, out_path):
  """Entry point of the cross-process probe: runs the sub-histories, pickles digests and snapshots."""
  os.environ.setdefault('JAX_PLATFORMS', 'cpu')
  prop = C10()
  ctx = _ChildCtx()
  prop.setup(ctx)
  res = []
  for sub in json.load(open(case_path)):
    prop._last_snaps = None
    out = prop.evaluate(sub, ctx)
    if out.oracle_fail or out.corr_fail:
      res.append({'fail': out.oracle_fail or out.corr_fail, 'key': out.key})
    else:
      res.append({'digests': out.detail['state_digests'], 'snaps': prop._last_snaps})
  with open(out_path, 'wb') as fh:
    pickle.dump(res, fh)


PROPERTY = C10
