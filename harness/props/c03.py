"""C03 — sequential batching is an exact, order-preserving partition."""
import itertools

import numpy as np

from vlib import core
from vlib.core import Outcome, line

DTYPES = ['bool', 'int8', 'int32', 'int64', 'uint8', 'float16', 'float32', 'float64']
SHAPES = [[], [3], [2, 0], [2, 2]]
PRE = ['cast', 'affine', 'addfeat', 'dropfeat', 'inplace_rename', 'inplace_add', 'swapaxes']


def make_raw(N, feats, order='C'):
  """Deterministic raw examples; feature 'id' = 1..N (so padding rows have id 0). order='F': the same
  values stored column-major (as after `table.T` / np.asfortranarray), so row slices are not C-contiguous."""
  raw = {'id': np.arange(1, N + 1, dtype=np.int32)}
  for name, dt, shape in feats:
    size = int(np.prod([N] + shape))
    base = (np.arange(size).reshape([N] + shape) % 7) + 1
    raw[name] = base.astype(dt)
    if order == 'F':
      raw[name] = np.asfortranarray(raw[name])
  return raw


def pre_fn(name):
  if name == 'cast':
    return lambda x: {**x, 'id': x['id'].astype(np.int64)}
  if name == 'affine':
    return lambda x: {**x, 'aff': x['id'] * 3 + 1}
  if name == 'addfeat':
    return lambda x: {**x, 'sq': x['id'].astype(np.float32) ** 2}
  if name == 'dropfeat':
    return lambda x: {k: v for k, v in x.items() if k == 'id' or not k.startswith('f0')}
  if name == 'swapaxes':
    # a layout-changing preprocessor (NHWC -> NCHW style): the result is a non-contiguous view
    def f(x):
      out = dict(x)
      for k, v in x.items():
        if k.startswith('f') and v.ndim == 3:
          out[k + 't'] = np.swapaxes(v, 1, 2)
      return out
    return f
  if name == 'inplace_rename':
    # updates the dict it is given in place (BatchPreprocessor documents that it guards against this)
    def f(x):
      if 'id2' not in x:
        x['id2'] = x['id'] + 0
      return x
    return f
  if name == 'inplace_add':
    def f(x):
      x['neg'] = -x['id'].astype(np.int64)
      x.pop('f1', None)
      return x
    return f
  raise ValueError(name)


def pick_final_ref(N, bs, B):
  """Independent statement: smallest of bs halved 0..B-1 times that still holds the remainder."""
  r = N % bs
  if r == 0:
    return bs
  cands = []
  c = bs
  for _ in range(B):
    cands.append(c)
    c //= 2
  return min(c for c in cands if c >= r)


class C03(core.Property):
  ID = 'C03'
  RULE = ('cases (N, bs, buckets, drop, feature dtypes/trailing shapes, per-example preprocessor chain); '
          'generated from branch conditions (N % bs == 0, bs > N, bs == N, N == 0, buckets vs log2 bs); '
          'non-trivial = N > 0 and the case has a remainder batch or more than one batch; distinct by case digest')
  TRUSTED = ['numpy slicing/concatenate; purity of the Python iteration is monitored (repeat iteration, '
             'raw examples unchanged), not proved']
  ASSUMPTIONS = ['preprocessors are deterministic per-example functions (as the property states)']
  QUICK_BUDGET_S = 60
  THOROUGH_BUDGET_S = 600

  def setup(self, ctx):
    from fedjax.core import client_datasets as cds
    self.cds = cds

  def gen_cases(self, rng, tier):
    if tier == 'thorough':
      # exhaustive index structure
      for N in range(0, 65):
        for bs in range(1, 33):
          for B in (1, 2, 3, 6):
            yield {'N': N, 'bs': bs, 'B': B, 'drop': bool((N + bs) % 2), 'feats': [], 'pre': []}
      yield {'pick_sweep': [256, 128, 8]}
    else:
      yield {'pick_sweep': [64, 40, 7]}
    # datasets beyond internal window / block sizes (1024) with batch sizes that do not divide them
    for N, bs in ([(1025, 5), (1030, 7), (2051, 100)] if tier == 'quick' else
                  [(1025, 5), (1025, 3), (1030, 7), (1100, 20), (2051, 100), (2048, 1024), (3000, 1023), (4100, 4096)]):
      yield {'N': N, 'bs': bs, 'B': rng.randrange(1, 5), 'drop': rng.random() < 0.5, 'feats': [], 'pre': []}
    n = 600 if tier == 'quick' else 3000
    for _ in range(n):
      bs = rng.choice([1, 2, 3, 4, 5, 7, 8, 9, 16, 17, 31, 32, 33])
      kind = rng.randrange(6)
      if kind == 0:
        N = bs * rng.randrange(0, 4)
      elif kind == 1:
        N = max(0, bs * rng.randrange(0, 4) + rng.choice([-1, 1]))
      elif kind == 2:
        N = rng.randrange(0, bs + 1)
      else:
        N = rng.randrange(0, 71)
      feats = []
      for i in range(rng.randrange(0, 3)):
        feats.append([f'f{i}', rng.choice(DTYPES), rng.choice(SHAPES)])
      pre = [rng.choice(PRE) for _ in range(rng.randrange(0, 4))]
      yield {'N': N, 'bs': bs, 'B': rng.randrange(1, 8), 'drop': rng.random() < 0.5,
             'feats': feats, 'pre': pre, 'order': rng.choice(['C', 'C', 'F'])}

  def shrink(self, case):
    if 'pick_sweep' in case:
      return
    for k in ('feats', 'pre'):
      if case[k]:
        yield {**case, k: []}
    for k, lo in (('N', 0), ('bs', 1), ('B', 1)):
      v = case[k]
      for c in sorted({lo, v // 2, v - 1}):
        if lo <= c < v:
          yield {**case, k: c}

  def evaluate(self, case, ctx):
    if 'pick_sweep' in case:
      return self._pick_sweep(case, ctx)
    cds = self.cds
    N, bs, B, drop = case['N'], case['bs'], case['B'], case['drop']
    raw = make_raw(N, [tuple(f) for f in case['feats']], case.get('order', 'C'))
    snap = {k: v.copy() for k, v in raw.items()}
    pre = cds.BatchPreprocessor([pre_fn(p) for p in case['pre']])
    ds = cds.ClientDataset(raw, pre)
    expect_all = pre(raw) if N > 0 or True else raw
    problems, corr = [], []

    # ---- implementation
    view = ds.batch(batch_size=bs, drop_remainder=drop)
    plain = list(view)
    plain2 = list(view)
    plain_h = list(ds.batch(cds.BatchHParams(batch_size=bs, drop_remainder=drop)))
    pview = ds.padded_batch(batch_size=bs, num_batch_size_buckets=B)
    padded = list(pview)
    padded2 = list(pview)
    padded_h = list(ds.padded_batch(cds.PaddedBatchHParams(batch_size=bs), num_batch_size_buckets=B))

    def same(a, b):
      return len(a) == len(b) and all(
          set(x) == set(y) and all(np.array_equal(x[k], y[k]) and x[k].dtype == y[k].dtype for k in x)
          for x, y in zip(a, b))

    if not same(plain, plain2) or not same(padded, padded2):
      problems.append('second iteration of the same view differs')
    # two live iterations over one view object must not disturb each other
    for name, v, ref in (('batch', view, plain), ('padded_batch', pview, padded)):
      pairs = list(zip(v, v))
      if not same([a for a, _ in pairs], ref) or not same([b for _, b in pairs], ref):
        problems.append(f'interleaved iteration of one {name} view (zip(view, view)) is not two identical passes')
      it1 = iter(v)
      first = next(it1, None)
      whole = list(v)           # a complete pass while it1 is suspended
      rest = list(it1)
      if not same(whole, ref) or not same(([first] if first is not None else []) + rest, ref):
        problems.append(f'a pass over a {name} view started while another iterator is suspended disturbs one of them')
    # a pass that is abandoned early (peek at the first batch, break, consumer exception) must not
    # change what a later pass over the same view yields
    fresh = {'batch': lambda: ds.batch(batch_size=bs, drop_remainder=drop),
             'padded_batch': lambda: ds.padded_batch(batch_size=bs, num_batch_size_buckets=B)}
    for name, ref in (('batch', plain), ('padded_batch', padded)):
      for k_stop in (1, 2):
        # on a FRESH view object (its very first pass is the abandoned one) and on the used one
        for v in (fresh[name](), view if name == 'batch' else pview):
          for j, _ in enumerate(v):
            if j + 1 >= k_stop:
              break
          if not same(list(v), ref):
            problems.append(f'a pass over a {name} view after a pass abandoned in batch {k_stop} differs from a '
                            f'complete fresh pass')
            break
    if not same(plain, plain_h) or not same(padded, padded_h):
      problems.append('hparams-object form differs from kwargs form')
    # deriving ANOTHER preprocessor from the one this dataset uses (what FederatedData.preprocess_batch does),
    # or from the module-wide default, must not change what the existing dataset / views yield
    ds_default = cds.ClientDataset(raw)
    default_before = list(ds_default.batch(batch_size=bs))
    bump = lambda x: {**x, 'id': x['id'] + 1}
    derived = pre.append(bump)
    derived_default = cds.NoOpBatchPreprocessor.append(bump)
    if not same(list(view), plain) or not same(list(pview), padded) or not same(list(ds.batch(batch_size=bs, drop_remainder=drop)), plain):
      problems.append('batches of an existing dataset / view changed after its preprocessor\'s append() was used to derive another one')
    if not same(list(ds_default.batch(batch_size=bs)), default_before) or not same(list(cds.ClientDataset(raw).batch(batch_size=bs)), default_before):
      problems.append('datasets using the default (no-op) preprocessor changed after NoOpBatchPreprocessor.append() was called')
    if N > 0:
      d_ids = [int(i) for b in cds.ClientDataset(raw, derived).batch(batch_size=bs) for i in b['id']]
      if d_ids != [i + 1 for i in range(1, N + 1)]:
        problems.append('preprocessor derived with append() does not apply the appended function last, once')
    if any(not np.array_equal(raw[k], snap[k]) for k in snap) or set(raw) != set(snap):
      problems.append('raw examples mutated')

    # ---- slices of a dataset whose length has already been taken (views call len() in __init__)
    if N >= 2:
      for a, b in ((0, N // 2), (1, N), (N // 3, N // 3 + 1)):
        sub = ds[a:b]
        want_rows = list(range(a + 1, b + 1))
        if len(sub) != b - a:
          problems.append(f'len(ds[{a}:{b}]) = {len(sub)} but the slice holds {b - a} examples')
        got_rows = [int(i) for bb in sub.batch(batch_size=bs) for i in bb['id']]
        if got_rows != want_rows:
          problems.append(f'ds[{a}:{b}].batch({bs}) yields rows {got_rows[:20]} instead of {want_rows[:20]}')
        pad_rows = [int(i) for bb in sub.padded_batch(batch_size=bs, num_batch_size_buckets=B)
                    for i in bb['id'][:int(bb[cds.EXAMPLE_MASK_KEY].sum())]]
        sizes_ok = all(len(bb['id']) == len(bb[cds.EXAMPLE_MASK_KEY]) for bb in sub.padded_batch(batch_size=bs, num_batch_size_buckets=B))
        if pad_rows != want_rows or not sizes_ok:
          problems.append(f'ds[{a}:{b}].padded_batch({bs}, {B}) is not the slice')
    # ---- independent oracle on the implementation
    ids = list(range(1, N + 1))
    got = [int(i) for b in plain for i in b['id']]
    want = ids[:(N // bs) * bs] if drop else ids
    if got != want:
      problems.append(f'plain batches concat {got} != {want}')
    sizes = [len(b['id']) for b in plain]
    if any(s != bs for s in sizes[:-1]) or (sizes and not (1 <= sizes[-1] <= bs)):
      problems.append(f'plain batch sizes {sizes}')
    if drop and any(s != bs for s in sizes):
      problems.append(f'drop_remainder kept an incomplete batch: {sizes}')
    if not drop and len(sizes) != -(-N // bs):
      problems.append(f'number of batches {len(sizes)}')
    # all features: concatenation equals the per-example preprocessing of the whole dataset
    if plain and not drop:
      for k in expect_all:
        cat = np.concatenate([b[k] for b in plain], axis=0)
        if cat.dtype != expect_all[k].dtype or not np.array_equal(cat, expect_all[k]):
          problems.append(f'feature {k}: batches do not concatenate to the preprocessed dataset')
    unp = []
    for j, b in enumerate(padded):
      m = b[cds.EXAMPLE_MASK_KEY]
      r = int(m.sum())
      if m.dtype != np.bool_ or list(m) != [True] * r + [False] * (len(m) - r):
        problems.append(f'mask of batch {j} is not a prefix: {list(m)}')
      last = j == len(padded) - 1
      if not last and (r != bs or len(m) != bs):
        problems.append(f'non-final padded batch {j} has {r} real rows of {len(m)}')
      if last:
        if len(m) != pick_final_ref(N, bs, B):
          problems.append(f'final padded batch size {len(m)} != bucket rule {pick_final_ref(N, bs, B)}')
        if r < 1:
          problems.append('final padded batch without real rows')
      for k, v in b.items():
        if k == cds.EXAMPLE_MASK_KEY:
          continue
        if len(v) != len(m):
          problems.append(f'feature {k} has {len(v)} rows, mask {len(m)}')
        if v.dtype != expect_all[k].dtype or v.shape[1:] != expect_all[k].shape[1:]:
          problems.append(f'feature {k}: dtype/trailing shape changed by padding')
        if np.any(v[r:] != 0):
          problems.append(f'feature {k}: padded rows not zero')
      unp.extend(int(i) for i in b['id'][:r])
      if set(b) - {cds.EXAMPLE_MASK_KEY} != set(expect_all):
        problems.append('feature set of padded batch differs')
    if unp != ids:
      problems.append(f'padded batches unpad to {unp} != {ids}')
    if len(padded) != -(-N // bs):
      problems.append(f'number of padded batches {len(padded)}')
    for k in expect_all:
      if padded:
        cat = np.concatenate([b[k][:int(b[cds.EXAMPLE_MASK_KEY].sum())] for b in padded], axis=0)
        if not np.array_equal(cat, expect_all[k]):
          problems.append(f'feature {k}: unpadded batches differ from the preprocessed dataset')

    # ---- correspondence with the Lean model
    ans = ctx.drv.ask([line('c03.batch', bs, drop, N), line('c03.padded', bs, B, N),
                       line('c03.pick', N, bs, B)])
    impl_plain = [[int(i) for i in b['id']] for b in plain]
    if ans[0] != impl_plain:
      corr.append(f'batchView model {ans[0]} vs impl {impl_plain}')
    impl_padded = [[[int(i) for i in b['id']], [bool(x) for x in b[cds.EXAMPLE_MASK_KEY]]] for b in padded]
    if ans[1] != impl_padded:
      corr.append(f'paddedView model {ans[1]} vs impl {impl_padded}')
    impl_pick = len(padded[-1][cds.EXAMPLE_MASK_KEY]) if padded else None   # observed through the public view
    if impl_pick is not None and impl_pick != ans[2]:
      corr.append(f'pickFinal model {ans[2]} vs impl {impl_pick}')

    tags = [f'N%bs={"0" if N % bs == 0 else "r"}', f'N{"=0" if N == 0 else ("<bs" if N < bs else ("=bs" if N == bs else ">bs"))}',
            f'drop={drop}', f'pre={len(case["pre"])}', f'feats={len(case["feats"])}', f'order={case.get("order", "C")}']
    return Outcome(oracle_fail='; '.join(problems[:4]) or None, corr_fail='; '.join(corr[:3]) or None,
                   nontrivial=N > 0 and (N % bs != 0 or N > bs), tags=tuple(tags),
                   detail={'impl_plain': impl_plain, 'impl_padded': impl_padded, 'model': ans})

  def _pick_sweep(self, case, ctx):
    Nmax, bsmax, Bmax = case['pick_sweep']
    cds = self.cds
    triples = [(N, bs, B) for bs in range(1, bsmax + 1) for N in range(0, min(Nmax, 2 * bs + 2)) for B in range(1, Bmax + 1)]
    problems, corr = [], []
    triples = [t for t in triples if t[0] > 0]
    ans = ctx.drv.ask([line('c03.pick', *t) for t in triples])
    raws = {}
    for t, a in zip(triples, ans):
      # the final batch size is observed through the public API (last batch of the padded view)
      N = t[0]
      if N not in raws:
        raws[N] = cds.ClientDataset({'id': np.arange(1, N + 1, dtype=np.int32)})
      last = None
      for last in raws[N].padded_batch(batch_size=t[1], num_batch_size_buckets=t[2]):
        pass
      impl = len(last[cds.EXAMPLE_MASK_KEY])
      if impl != pick_final_ref(*t):
        problems.append(f'_pick_final_batch_size{t} = {impl}, bucket rule says {pick_final_ref(*t)}')
      if impl != a:
        corr.append(f'pickFinal{t}: model {a} vs impl {impl}')
    ctx.count('pick_triples', len(triples))
    return Outcome(oracle_fail='; '.join(problems[:3]) or None, corr_fail='; '.join(corr[:3]) or None,
                   tags=('pick_sweep',))


PROPERTY = C03
